"""C15 Stored job specs and region sets round-trip.

Decides (from the syntax trees of batch/batch/batch_format_version.py and batch/batch/utils.py, nothing is run):
  R1  positional agreement, per format version 1..current (the version guards of writer and readers are *evaluated* for every
      version): when `db_spec` returns the spec unchanged each `get_spec_*` reader reads the like-named key of the spec; when it
      returns the compact list each reader indexes exactly the position at which the writer put the like-named field, inside the list
  R2  inner records agree in both directions: secret [namespace, name, mount_path, mount_in_copy], service account
      [namespace, name], machine spec [machine_type, preemptible, storage_gib]: writer position i <- key k  iff  reader key k <- position i
  R3  no field is lost for any version: a reader may answer a constant (None) without looking at the stored form only if the
      writer has no such field to store for that version
  R4  region bit set: the writer is a homomorphism from SETS of regions: it combines `1 << s(idx)` terms with an idempotent operator (bitwise or; loop, `sum`,
      `functools.reduce` forms are all read), or with + / ^ only when the terms are provably pairwise distinct (the iterated collection is a set / deduplicated: decided
      from the def-use chain of the iterable; the plain `regions` list of the validator may repeat a name); the reader tests `(bits >> s'(idx)) & 1` for EVERY known
      region (no early exit) with the same linear shift s = s' of the same mapping value; the writer asserts a bound that keeps the highest bit <= 62 (signed BIGINT)
      and the lowest >= 0 for region ids >= 1; the reader returns the mapping *keys* whose bit is set.  A reader that enumerates bit positions and looks the region up in
      a dense sequence of names (rank, not id) with an index computed from the position alone is reported: it inverts the writer only when the ids are exactly 1..n
      An EARLY EXIT of the reader's loop (`if <cond>: break` / `return result`) is decided when <cond> has a "this id lies past the highest set bit" normal form
      (id >= bits.bit_length() + c, from a linear comparison with bit_length(), `bits >> f(id) == 0`, `bits < 1 << f(id)`): it is sound iff the pairs are visited in ascending
      id order (sorted(.items(), key=<second component>), or plain .items() when EVERY builder of app['regions'] under batch/batch reads the rows ORDER BY region_id) AND
      the threshold implies that the first untested bit position is >= bit_length; plain .items() over un-ORDERed SELECTs / name order is reported with a witness mapping.
      Other exit conditions are declined
  R5  presence, not truthiness: every place where the writer or a reader consults the TRUTHINESS of a value (if / and / or / not / all() / any() / comprehension filter /
      conditional expression) is classified by what the value may be (flow-insensitive value descriptors: spec field paths, records built here, stored positions mapped
      back through the writer); a field whose domain contains a legitimate falsy value (bool_type, int_type, a required str_type; domains are read off job_validator
      in front_end/validate.py, hailtop.utils.validate and, for keys added after validation, the constants front_end.py stores) must not be truth-tested, and an absent
      field must not be replaced by a truthy default (`x or D`).  Optional str/list/dict fields: empty is read as absent (the front end does the same)
  R6  the region set at its STORE site (front end) and LOAD sites (drivers): every call of regions_to_bits_rep under batch/batch/front_end + driver (thorough: batch/batch)
      encodes the job spec's `regions` list itself (no slice, no default) with app['regions']; over the finite domain {regions absent, empty, non-empty} x the truth table of every
      other test around it, each accepted path stores regions_to_bits_rep(<that list>, ...) when the job has `regions` and NULL when it has none (NULL is read by the drivers as
      "whatever the instance collection supports at scheduling time", so a selected set stored as NULL is not recovered); the value sits at the position of the regions_bits_rep
      column of the INSERT.  Every call of regions_bits_rep_to_regions gets the unmodified record['regions_bits_rep'] and app['regions'], and a non-NULL column value is decoded on
      every path (no deployment-dependent shortcut).  R4 also judges `if <test>: return <constant>` shortcuts in front of the encoder / decoder body
  R7  the decoded value is a function of the stored value only: no reader returns an object that outlives the call (functools.lru_cache / cache on it or on a helper in its call
      cone, a module-level container or mutable default it stores into, a module-level constant); which LEVELS of the returned object are persistent is computed exactly on the
      recognised shapes (copies: list()/dict()/.copy() one level, per-element copies two, deepcopy all) and a violation is reported when a consumer (flow-insensitive aliasing
      through locals / dict literals / for-zip targets in every function that calls the reader) mutates such a level - driver/job.py::job_config does (`secret['data'] = ...`,
      `job_spec['secrets'].append(kube-config)`).  Shared but unmutated, instance-level state, unknown decorators: declined
Helper methods of the class AND module-level helper functions called from the writer / a reader are inlined first (engines/inline.py; a memoising decorator is ignored for
the single-call rules R1-R5 and judged by R7).  The has-files flags `len(k) OP c` are compared with `len(k) > 0` as sets of
list lengths (interval normal form).
Does not decide: value coercions (int(bool)/bool(int)) beyond their positions; `[]` vs `None` for an empty secrets list; decoders that enumerate bit positions with an
inverse (id -> name) dictionary are declined.
"""
from __future__ import annotations

import ast
from typing import Dict, List, Optional, Sequence, Tuple

from engines import absdom, c1516facts as cf, pyfacts as pf
from engines.common import AnalysisError, Ctx, short
from engines.inline import Inliner, inline_methods

META = dict(
    category='other',
    text='Writer/reader table agreement decided by abstractly executing db_spec and every get_spec_* reader for each format version 1..current '
         '(version guards evaluated, data-dependent tests enumerated) and comparing position <-> field tables, inner record key <-> index tables in '
         'both directions, the linear forms of the region bit shifts, the algebra of the bit accumulation (idempotent operator or provably distinct terms) '
         'and a dataflow classification of every truthiness test against the value domains of the job validator (presence vs truthiness); case analysis over '
         '{regions absent, empty, non-empty} x truth table of the surrounding tests at the store site and {NULL, not NULL} at the load sites of the region bit set; '
         'persistence levels of the objects the readers return against the mutations their consumers perform. '
         'Level `other`: value coercions and JSON encoding are outside the tables.',
    note='Trusted: CPython ast; engines/absdom.walk_block; engines/inline.py. Assumes region ids are distinct integers >= 1 (AUTO_INCREMENT primary key, gaps allowed) and '
         'regions_bits_rep is a signed BIGINT; an empty optional str/list/dict field of the job spec is the same spec as an absent one.',
    technique='static analysis: writer/reader table agreement + truth table over version guards + linear normal form of shift amounts + def-use of the accumulated collection '
              '+ value-descriptor dataflow of truthiness tests against validator-derived domains + finite case analysis (presence domain x truth table) of store/load sites '
              '+ escape/alias levels of returned objects vs consumer mutations',
    design_ref='DESIGN.md §3 C15',
)

F = 'batch/batch/batch_format_version.py'
FU = 'batch/batch/utils.py'
FG = 'batch/batch/globals.py'
CLS = 'BatchFormatVersion'
# reader -> (field tag, key of the full spec it corresponds to)
READERS = {
    'get_spec_secrets': 'secrets',
    'get_spec_service_account': 'service_account',
    'get_spec_has_input_files': 'has:input_files',
    'get_spec_has_output_files': 'has:output_files',
    'get_spec_machine_spec': 'machine_spec',
}
FV = 'self.format_version'


def _version_atom(a: ast.AST, v: int) -> Optional[bool]:
    if isinstance(a, ast.Compare) and len(a.ops) == 1:
        l, r = a.left, a.comparators[0]
        op = type(a.ops[0])
        if pf.nsrc(l) == FV and isinstance(r, ast.Constant) and isinstance(r.value, int):
            x, y = v, r.value
        elif pf.nsrc(r) == FV and isinstance(l, ast.Constant) and isinstance(l.value, int):
            x, y = l.value, v
        else:
            return None
        table = {ast.Eq: x == y, ast.NotEq: x != y, ast.Lt: x < y, ast.LtE: x <= y, ast.Gt: x > y, ast.GtE: x >= y}
        if op in table:
            return table[op]
    return None


def _strip(e: ast.AST) -> ast.AST:
    """Drop int()/bool() coercions (also written `1 if x else 0`)."""
    while True:
        if isinstance(e, ast.Call) and isinstance(e.func, ast.Name) and e.func.id in ('int', 'bool') and len(e.args) == 1:
            e = e.args[0]
        elif isinstance(e, ast.IfExp) and _const_truth(e.body) is True and _const_truth(e.orelse) is False and isinstance(e.body, ast.Constant):
            e = e.test
        else:
            return e


def _spec_get_key(e: ast.AST, spec: str) -> Optional[str]:
    if isinstance(e, ast.Call) and isinstance(e.func, ast.Attribute) and e.func.attr == 'get' and isinstance(e.func.value, ast.Name) and e.func.value.id == spec and e.args:
        return pf.const_str(e.args[0])
    if isinstance(e, ast.Subscript) and isinstance(e.value, ast.Name) and e.value.id == spec:
        return pf.const_str(e.slice)
    return None


_FLAG_REPORTED: set = set()
_FLAG_WRONG: Dict[int, Tuple[str, str]] = {}  # id(compare) -> (key, why the set {n : n OP c} is not [1, oo))


def _has_flag_key(e: ast.AST, spec: str) -> Optional[str]:
    """len(spec.get('k', [])) > 0   |   != 0   |   >= 1   |   bool(spec.get('k'))   |   1 if spec.get('k') else 0      ->  k"""
    coerced = False
    while True:
        if isinstance(e, ast.Call) and isinstance(e.func, ast.Name) and e.func.id in ('int', 'bool') and len(e.args) == 1:
            coerced = coerced or e.func.id == 'bool'
            e = e.args[0]
        elif isinstance(e, ast.IfExp) and isinstance(e.body, ast.Constant) and _const_truth(e.body) is True and _const_truth(e.orelse) is False:
            coerced, e = True, e.test
        else:
            break
    if isinstance(e, ast.Compare) and len(e.ops) == 1 and isinstance(e.comparators[0], ast.Constant) \
            and isinstance(e.left, ast.Call) and pf.dotted(e.left.func) == 'len' and len(e.left.args) == 1:
        op, c = e.ops[0], e.comparators[0].value
        if not isinstance(c, int) or isinstance(c, bool):
            return None
        # normal form of {n >= 0 : n OP c} as (least member, is it upward closed); the flag must be the set [1, oo)
        k = _spec_get_key(e.left.args[0], spec)
        if k is None:
            return None
        up = {ast.Gt: c + 1, ast.GtE: c}.get(type(op))          # [up, oo)
        if up is not None:
            lo = max(up, 0)
            if lo != 1:
                _FLAG_WRONG[id(e)] = (k, f'it holds from {lo} entries on' + (': a job with exactly one entry has flag 0' if lo > 1 else ': a job with no entry has flag 1'))
        elif isinstance(op, ast.NotEq):
            if c != 0:
                _FLAG_WRONG[id(e)] = (k, f'it is false exactly for {c} entries, not for 0' if c > 0 else 'it is always true')
        elif isinstance(op, (ast.Lt, ast.LtE, ast.Eq)):
            _FLAG_WRONG[id(e)] = (k, 'it is bounded above: a job with many entries has flag 0')
        else:
            return None
        return k
    if coerced:
        # truthiness of the (optional) list itself
        if isinstance(e, ast.Call) and len(e.args) == 2 and _const_truth(e.args[1]) is not False:
            return None
        return _spec_get_key(e, spec)
    return None


def _report_flag(ctx: Ctx, e: ast.AST, k: str, fname: str, what: str) -> None:
    for x in ast.walk(e):
        if id(x) in _FLAG_WRONG and id(x) not in _FLAG_REPORTED:
            _FLAG_REPORTED.add(id(x))
            why = _FLAG_WRONG[id(x)][1]
            ctx.bad('R1', f'{F}::{CLS}.{fname}::has:{k} flag', f'the {what} flag `{short(pf.nsrc(e), 60)}` is not `len({k}) > 0` ({why}), so the {k} flag read back differs from the submitted spec',
                    pf.load(F).path, getattr(e, 'lineno', 0))


class Path:
    def __init__(self, executed: List[ast.stmt], outcome: absdom.Outcome, fv: Dict[str, bool]):
        self.executed = executed
        self.outcome = outcome
        self.fv = fv
        self.env: Dict[str, ast.AST] = {}
        for s in executed:
            if isinstance(s, ast.Assign) and len(s.targets) == 1 and isinstance(s.targets[0], ast.Name):
                self.env[s.targets[0].id] = s.value

    def origin(self, name: str, depth: int = 4) -> ast.AST:
        e: ast.AST = ast.Name(id=name, ctx=ast.Load())
        while isinstance(e, ast.Name) and e.id in self.env and depth > 0:
            e = self.env[e.id]
            depth -= 1
        return e


def _paths(ctx: Ctx, fn: pf.FuncDef, v: int) -> List[Path]:
    atoms = absdom.collect_test_atoms(fn.body)
    free = [absdom.atom_key(a) for a in atoms if _version_atom(a, v) is None]
    ctx.need(len(free) <= 5, f'{fn.name}: too many data-dependent tests {free}')
    out: List[Path] = []
    seen = set()
    for fv in absdom.valuations(free):
        executed: List[ast.stmt] = []

        def val(a: ast.AST) -> bool:
            x = _version_atom(a, v)
            return x if x is not None else fv[absdom.atom_key(a)]
        o = absdom.walk_block(fn.body, val, executed)
        sig = tuple(id(s) for s in executed)
        if sig in seen:
            continue
        seen.add(sig)
        out.append(Path(executed, o, fv))
    return out


def _writer_table(ctx: Ctx, fn: pf.FuncDef, spec: str, v: int) -> Tuple[str, List[str], Dict[str, List[ast.AST]]]:
    """('identity', [], {}) or ('list', tags by position, tag -> the defining expressions seen over all data paths)."""
    kind = None
    tags: Optional[List[str]] = None
    defs: Dict[str, List[ast.AST]] = {}
    for p in _paths(ctx, fn, v):
        ctx.need(p.outcome.kind == 'return' and p.outcome.node.value is not None, f'db_spec(v={v}): path does not return a value')  # type: ignore[union-attr]
        rv = p.outcome.node.value  # type: ignore[union-attr]
        if isinstance(rv, ast.Name) and rv.id == spec:
            ctx.need(kind in (None, 'identity'), f'db_spec(v={v}): returns both the spec and a list')
            kind = 'identity'
            continue
        ctx.need(isinstance(rv, ast.List), f'db_spec(v={v}): returns `{short(pf.nsrc(rv), 50)}` (neither the spec nor a list literal)')
        ctx.need(kind in (None, 'list'), f'db_spec(v={v}): returns both the spec and a list')
        kind = 'list'
        t = []
        for e in rv.elts:  # type: ignore[union-attr]
            k = _has_flag_key(e, spec)
            if k is not None:
                t.append(f'has:{k}')
                _report_flag(ctx, e, k, 'db_spec', 'stored')
            elif isinstance(e, ast.Name):
                t.append(e.id)
                defs.setdefault(e.id, []).append(p.origin(e.id))
            else:
                raise AnalysisError(f'db_spec(v={v}): list element `{short(pf.nsrc(e), 50)}` is not a recognised field')
        ctx.need(tags in (None, t), f'db_spec(v={v}): list layout depends on the data ({tags} vs {t})')
        tags = t
    ctx.need(kind is not None, f'db_spec(v={v}): no path')
    return kind, tags or [], defs  # type: ignore[return-value]


def _reader_access(ctx: Ctx, fn: pf.FuncDef, spec: str, v: int) -> Tuple[str, object, List[ast.AST]]:
    """How the reader gets at its field for version v:
       ('index', i, [returned exprs]) | ('key', k, …) | ('flag', k, …) | ('const', repr, …)"""
    acc = None
    rets: List[ast.AST] = []
    for p in _paths(ctx, fn, v):
        ctx.need(p.outcome.kind == 'return', f'{fn.name}(v={v}): path does not return')
        rv = p.outcome.node.value  # type: ignore[union-attr]
        rets.append(rv)
        found = None
        nodes = [n for s in p.executed for n in ast.walk(s)]
        for n in nodes:
            if isinstance(n, ast.Subscript) and isinstance(n.value, ast.Name) and n.value.id == spec and isinstance(n.slice, ast.Constant) and isinstance(n.slice.value, int):
                found = ('index', n.slice.value)
        if found is None and rv is not None:
            k = _has_flag_key(rv, spec)
            if k is not None:
                found = ('flag', k)
                _report_flag(ctx, rv, k, fn.name, 'returned')
            else:
                for n in nodes:
                    kk = _spec_get_key(n, spec)
                    if kk is not None:
                        found = ('key', kk)
        if found is None:
            ctx.need(rv is None or isinstance(rv, ast.Constant), f'{fn.name}(v={v}): returns `{short(pf.nsrc(rv), 40)}` without reading the stored spec')
            found = ('const', repr(rv.value) if rv is not None else 'None')
        ctx.need(acc in (None, found), f'{fn.name}(v={v}): access depends on the data ({acc} vs {found})')
        acc = found
    ctx.need(acc is not None, f'{fn.name}(v={v}): no path')
    return acc[0], acc[1], rets  # type: ignore[index]


def _ranges(vs: Sequence[int]) -> str:
    vs = sorted(vs)
    out = []
    i = 0
    while i < len(vs):
        j = i
        while j + 1 < len(vs) and vs[j + 1] == vs[j] + 1:
            j += 1
        out.append(f'{vs[i]}..{vs[j]}' if j > i else f'{vs[i]}')
        i = j + 1
    return ','.join(out)


def _check_positions(ctx: Ctx, m: pf.Module, current: int) -> None:
    w = m.func(f'{CLS}.db_spec')
    wp = [a.arg for a in w.args.args]
    ctx.need(len(wp) == 2, f'db_spec parameters {wp}')
    results: Dict[Tuple[str, str, str], List[int]] = {}
    lost_msgs: Dict[str, Dict[str, List[int]]] = {}
    lines: Dict[str, int] = {}
    for v in range(1, current + 1):
        kind, tags, _ = _writer_table(ctx, w, wp[1], v)
        for rname, tag in READERS.items():
            r = m.func(f'{CLS}.{rname}')
            rp = [a.arg for a in r.args.args]
            ctx.need(len(rp) == 2, f'{rname} parameters {rp}')
            lines[rname] = r.lineno
            how, what, _ = _reader_access(ctx, r, rp[1], v)
            verdict = 'ok'
            msg = ''
            if how == 'const':
                carried = (kind == 'list' and tag in tags) or kind == 'identity'
                if kind == 'list' and tag not in tags:
                    verdict, msg = 'lost', (f'db_spec stores {tags} (no {tag}) and {rname} answers {what} without looking: the {tag} of a job in a batch of this format '
                                            'version is not recovered from the stored form')
                else:
                    verdict, msg = 'lost', (f'{rname} answers {what} without reading the stored spec although db_spec stores '
                                            f'{"the full spec" if kind == "identity" else tags}: the {tag} is not recovered')
                    _ = carried
            elif kind == 'identity':
                want = ('flag', tag[4:]) if tag.startswith('has:') else ('key', tag)
                if (how, what) != want:
                    verdict = 'mismatch'
                    msg = (f'db_spec stores the full spec but {rname} reads it by {how} {what!r} (expected {want[0]} {want[1]!r}): '
                           + ('a dict is indexed by position (KeyError)' if how == 'index' else 'another field is returned'))
            else:
                if how != 'index':
                    verdict, msg = 'mismatch', f'db_spec stores the list {tags} but {rname} reads the spec by {how} {what!r} (a list has no .get / string keys)'
                elif not (0 <= int(what) < len(tags)):  # type: ignore[arg-type]
                    verdict, msg = 'mismatch', f'{rname} reads spec[{what}] but db_spec stores only {len(tags)} entries {tags}: IndexError when the job is scheduled'
                elif tags[int(what)] != tag:  # type: ignore[arg-type]
                    verdict, msg = 'mismatch', (f'{rname} reads spec[{what}], where db_spec puts `{tags[int(what)]}`; `{tag}` is at position '  # type: ignore[arg-type]
                                                f'{tags.index(tag) if tag in tags else "-"}: the wrong field is returned')
            results.setdefault((rname, verdict, msg if verdict != 'lost' else ''), []).append(v)
            if verdict == 'lost':
                lost_msgs.setdefault(rname, {}).setdefault(msg, []).append(v)
    for (rname, verdict, msg), vs in results.items():
        rule = 'R3' if verdict == 'lost' else 'R1'
        cons = f'{F}::{CLS}.{rname}::format_version {_ranges(vs)}'
        if verdict == 'ok':
            ctx.ok('R1', cons, {'versions': _ranges(vs)})
        elif verdict == 'lost':
            full = '; '.join(f'v{_ranges(x)}: {mm}' for mm, x in lost_msgs[rname].items())
            ctx.bad(rule, cons, f'for format version(s) {_ranges(vs)} the field is lost - {full}', m.path, lines[rname])
        else:
            ctx.bad(rule, cons, f'for format version(s) {_ranges(vs)}: {msg}', m.path, lines[rname])
    # R3 instances for the fields that are carried (positive side)
    for rname in READERS:
        lost = [vs for (rn, verdict, _), vs in results.items() if rn == rname and verdict == 'lost']
        if not lost:
            ctx.ok('R3', f'{F}::{CLS}.{rname}::carried for every version', {'versions': f'1..{current}'})
    ctx.unit('format_versions', current)
    ctx.unit('reader_version_pairs', current * len(READERS))


# --------------------------------------------------------------------------------------
# R2: inner records
# --------------------------------------------------------------------------------------


def _writer_record(ctx: Ctx, fn: pf.FuncDef, lst: ast.List, src_vars: Sequence[str]) -> Dict[int, str]:
    out: Dict[int, str] = {}
    for i, e in enumerate(lst.elts):
        e = _strip(e)
        e = _strip(pf.resolve_expr(fn, e))
        key = None
        for sv in src_vars:
            key = key or _spec_get_key(e, sv)
        ctx.need(key is not None, f'db_spec: record element `{short(pf.nsrc(e), 50)}` is not <source>[key]')
        out[i] = key  # type: ignore[assignment]
    return out


def _reader_record(ctx: Ctx, d: ast.Dict, pos_of, what: str, who: str) -> Dict[str, int]:
    """key -> position of the stored record it is read from; pos_of(value expression) gives the position or None."""
    out: Dict[str, int] = {}
    for k, v in zip(d.keys, d.values):
        ks = pf.const_str(k) if k is not None else None
        v = _strip(v)
        i = pos_of(v)
        ctx.need(ks is not None and i is not None, f'{who}: entry `{short(pf.nsrc(k) if k else "**", 20)}: {short(pf.nsrc(v), 30)}` is not key: {what}')
        out[ks] = i  # type: ignore[index,assignment]
    return out


def _traces_to_spec(r: pf.FuncDef, e: ast.AST, rspec: str) -> bool:
    """e is the stored field itself: spec[i], possibly through single-definition locals and position-preserving re-wrappings
    (tuple(x) / list(x) / tuple(tuple(y) for y in x))."""
    for _ in range(10):
        if isinstance(e, ast.Name):
            d = pf.single_def(r, e.id)
            if d is None or not isinstance(d, ast.expr):
                return False
            e = d
        elif isinstance(e, ast.Call) and isinstance(e.func, ast.Name) and e.func.id in ('tuple', 'list') and len(e.args) == 1 and not e.keywords:
            e = e.args[0]
        elif isinstance(e, (ast.GeneratorExp, ast.ListComp)) and len(e.generators) == 1 and not e.generators[0].ifs and isinstance(e.generators[0].target, ast.Name):
            t = e.generators[0].target.id
            el = e.elt
            if isinstance(el, ast.Call) and isinstance(el.func, ast.Name) and el.func.id in ('tuple', 'list') and len(el.args) == 1 and not el.keywords:
                el = el.args[0]
            if not (isinstance(el, ast.Name) and el.id == t):
                return False
            e = e.generators[0].iter
        elif isinstance(e, ast.Subscript) and pf.nsrc(e.value) == rspec and isinstance(e.slice, ast.Constant) and isinstance(e.slice.value, int):
            return True
        else:
            return False
    return False


def _find_record_list(e: ast.AST) -> Tuple[Optional[ast.List], Optional[str]]:
    """`[a, b, c]` or `[[a, b] for x in xs]` -> (inner list, comprehension variable)"""
    e = cf.unroll_literal_comprehension(e)  # [src.get(k) for k in ('a', 'b')]  ->  [src.get('a'), src.get('b')]
    if isinstance(e, ast.List):
        return e, None
    if isinstance(e, ast.ListComp) and isinstance(e.elt, ast.List) and len(e.generators) == 1 and isinstance(e.generators[0].target, ast.Name):
        return e.elt, e.generators[0].target.id
    return None, None


def _find_record_dict(e: ast.AST) -> Tuple[Optional[ast.Dict], Optional[ast.AST], Optional[ast.AST]]:
    """`{...}` -> (dict, None, None);  `[{...} for x in xs]` / `[{...} for a, b, c in xs]` -> (dict, comprehension target, iterated expression)"""
    if isinstance(e, ast.Dict):
        return e, None, None
    if isinstance(e, ast.ListComp) and isinstance(e.elt, ast.Dict) and len(e.generators) == 1 and not e.generators[0].ifs:
        t = e.generators[0].target
        if isinstance(t, ast.Name) or (isinstance(t, ast.Tuple) and all(isinstance(x, ast.Name) for x in t.elts)):
            return e.elt, t, e.generators[0].iter
    return None, None, None


def _check_records(ctx: Ctx, m: pf.Module, current: int) -> None:
    w = m.func(f'{CLS}.db_spec')
    spec = [a.arg for a in w.args.args][1]
    _, tags, defs = _writer_table(ctx, w, spec, current)
    for rname, tag in READERS.items():
        if tag.startswith('has:'):
            continue
        r = m.func(f'{CLS}.{rname}')
        rspec = [a.arg for a in r.args.args][1]
        # writer side: the non-trivial definition of the variable (list / list comprehension)
        cands = [d for d in defs.get(tag, []) if _find_record_list(d)[0] is not None]
        if not cands:
            # recognised lossy shapes: records funnelled through a dict / set keyed by some of their fields, or a filtered comprehension
            lossy = None
            for nme, dl in list(defs.items()) + [(k_, [v_]) for k_, v_ in {n.targets[0].id: n.value for n in ast.walk(w) if isinstance(n, ast.Assign) and len(n.targets) == 1
                                                                              and isinstance(n.targets[0], ast.Name)}.items()]:
                for d in dl:
                    if isinstance(d, ast.DictComp) and isinstance(d.value, ast.List) and len(d.generators) == 1:
                        lossy = (d, f'a dict keyed by `{short(pf.nsrc(d.key), 50)}`')
                    if isinstance(d, ast.ListComp) and isinstance(d.elt, ast.List) and any(g.ifs for g in d.generators):
                        lossy = (d, f'a comprehension filtered by `{short(pf.nsrc(d.generators[0].ifs[0]), 50)}`')
                    if isinstance(d, ast.Call) and pf.dotted(d.func) in ('set', 'frozenset', 'dict.fromkeys'):
                        lossy = (d, f'`{short(pf.nsrc(d), 50)}`')
            if lossy is not None and any(isinstance(d, ast.Call) and ('values' in pf.nsrc(d) or 'list(' in pf.nsrc(d) or 'sorted(' in pf.nsrc(d)) for d in defs.get(tag, [])):
                ctx.bad('R1', f'{m.rel}::{CLS}.db_spec::{tag} records', f'the stored `{tag}` records are built through {lossy[1]}: two entries of the job spec that agree on that key '
                        f'collapse into one stored record (and order is no longer the spec\'s), so {rname} cannot yield back the same {tag}', m.path, lossy[0].lineno)
                continue
        ctx.need(cands, f'db_spec: no record list is ever assigned to `{tag}`')
        wl, wvar = _find_record_list(cands[0])
        # source variable(s) the record is built from
        srcs: List[str] = [wvar] if wvar else []
        if not srcs:
            # e.g. service_account = [service_account['namespace'], …]  /  machine_spec = [machine_type, preemptible, storage] with resources[...]
            srcs = sorted({n.value.id for e in wl.elts for n in ast.walk(_strip(pf.resolve_expr(w, _strip(e))))  # type: ignore[union-attr]
                           if isinstance(n, (ast.Subscript,)) and isinstance(n.value, ast.Name)}
                          | {n.func.value.id for e in wl.elts for n in ast.walk(_strip(pf.resolve_expr(w, _strip(e))))  # type: ignore[union-attr]
                             if isinstance(n, ast.Call) and isinstance(n.func, ast.Attribute) and n.func.attr == 'get' and isinstance(n.func.value, ast.Name)})
        # machine_type etc. are assigned several times? resolve_expr needs single defs: use per-name last assignment in the function body
        wmap = _writer_record_multi(ctx, w, wl, srcs)  # type: ignore[arg-type]
        # reader side
        rd = None
        rtarget: Optional[ast.AST] = None
        riter: Optional[ast.AST] = None
        for n in ast.walk(r):
            if isinstance(n, ast.Return) and n.value is not None:
                d, t_, it_ = _find_record_dict(n.value)
                if d is not None:
                    rd, rtarget, riter = d, t_, it_
        ctx.need(rd is not None, f'{rname}: no record dict is returned')
        if isinstance(rtarget, ast.Name):
            # [{k: x[i], ...} for x in <stored list>]
            var = rtarget.id
            ctx.need(_traces_to_spec(r, riter, rspec), f'{rname}: the records are not read from the stored spec (`{short(pf.nsrc(riter), 50)}`)')  # type: ignore[arg-type]
            rmap = _reader_record(ctx, rd, lambda v, var=var: v.slice.value if isinstance(v, ast.Subscript) and isinstance(v.value, ast.Name) and v.value.id == var  # type: ignore[arg-type]
                                  and isinstance(v.slice, ast.Constant) and isinstance(v.slice.value, int) else None, f'{var}[i]', rname)
        elif isinstance(rtarget, ast.Tuple):
            # [{k: a, ...} for a, b, c in <stored list>]: the i-th name of the unpacking is position i
            order = [x.id for x in rtarget.elts]  # type: ignore[attr-defined]
            ctx.need(len(set(order)) == len(order), f'{rname}: unpacking target repeats a name')
            ctx.need(_traces_to_spec(r, riter, rspec), f'{rname}: the records are not read from the stored spec (`{short(pf.nsrc(riter), 50)}`)')  # type: ignore[arg-type]
            rmap = _reader_record(ctx, rd, lambda v, order=order: order.index(v.id) if isinstance(v, ast.Name) and v.id in order else None, 'a name of the unpacked record', rname)  # type: ignore[arg-type]
        else:
            # {k: var[i], ...} with var = spec[j]   |   a, b = var ... {k: a, ...}
            unpack: Dict[str, Tuple[str, int]] = {}
            for n in pf.walk_shallow(r):
                if isinstance(n, ast.Assign) and len(n.targets) == 1 and isinstance(n.targets[0], ast.Tuple) and all(isinstance(x, ast.Name) for x in n.targets[0].elts) \
                        and isinstance(n.value, ast.Name):
                    for i_, x in enumerate(n.targets[0].elts):
                        ctx.need(x.id not in unpack and len(pf.assignments(r).get(x.id, [])) == 1, f'{rname}: `{x.id}` is assigned more than once')  # type: ignore[attr-defined]
                        unpack[x.id] = (n.value.id, i_)  # type: ignore[attr-defined]

            def pos(v: ast.AST):
                if isinstance(v, ast.Subscript) and isinstance(v.value, ast.Name) and isinstance(v.slice, ast.Constant) and isinstance(v.slice.value, int):
                    return v.value.id, v.slice.value
                if isinstance(v, ast.Name) and v.id in unpack:
                    return unpack[v.id]
                return None
            bases = {pos(_strip(vv))[0] for vv in rd.values if pos(_strip(vv)) is not None}  # type: ignore[union-attr,index]
            ctx.need(len(bases) == 1, f'{rname}: record built from {sorted(bases)}')
            rvar = bases.pop()
            # the variable must be the stored field itself: <var> = spec[i]
            ctx.need(_traces_to_spec(r, ast.Name(id=rvar, ctx=ast.Load()), rspec), f'{rname}: `{rvar}` is not spec[i]')
            rmap = _reader_record(ctx, rd, lambda v, rvar=rvar: pos(v)[1] if pos(v) is not None and pos(v)[0] == rvar else None, f'{rvar}[i]', rname)  # type: ignore[index]
        cons = f'{F}::{CLS}.{rname}::record of {tag}'
        inv = {k: i for i, k in wmap.items()}
        problems = []
        for k, i in rmap.items():
            if k not in inv:
                problems.append(f"reader key '{k}' <- [{i}] but the writer stores no '{k}' (position {i} holds '{wmap.get(i)}')")
            elif inv[k] != i:
                problems.append(f"reader key '{k}' <- [{i}] but the writer stores '{k}' at [{inv[k]}] (position {i} holds '{wmap.get(i)}')")
        for i, k in wmap.items():
            if k not in rmap:
                problems.append(f"writer stores '{k}' at [{i}] but the reader never returns '{k}': the field is lost")
        ctx.check(not problems, 'R2', cons, f'writer {wmap} vs reader {rmap}: ' + '; '.join(problems[:3]) + ': the reloaded record differs from the submitted one',
                  m.path, rd.lineno, detail={'writer': {str(i): k for i, k in wmap.items()}, 'reader': rmap})  # type: ignore[union-attr]


def _writer_record_multi(ctx: Ctx, fn: pf.FuncDef, lst: ast.List, src_vars: Sequence[str]) -> Dict[int, str]:
    """Like _writer_record but resolves local names through the (unique non-None) assignment in the function."""
    asg = pf.assignments(fn)
    out: Dict[int, str] = {}
    for i, e in enumerate(lst.elts):
        e = _strip(e)
        depth = 3
        while isinstance(e, ast.Name) and depth > 0:
            vals = [v for v in asg.get(e.id, []) if isinstance(v, ast.expr) and not (isinstance(v, ast.Constant) and v.value is None)]
            vals = [v for v in vals if not isinstance(v, (ast.List, ast.ListComp))]
            if len(vals) != 1:
                break
            e = _strip(vals[0])
            depth -= 1
        key = None
        for sv in src_vars:
            key = key or _spec_get_key(e, sv)
        ctx.need(key is not None, f'db_spec: record element {i} `{short(pf.nsrc(lst.elts[i]), 40)}` does not resolve to <source>[key] (sources {list(src_vars)})')
        out[i] = key  # type: ignore[assignment]
    return out


# --------------------------------------------------------------------------------------
# R4: region bits
# --------------------------------------------------------------------------------------


def _lin(e: ast.AST, var: str) -> Tuple[int, int]:
    """e == a*var + b  -> (a, b)"""
    if isinstance(e, ast.Name) and e.id == var:
        return 1, 0
    if isinstance(e, ast.Constant) and isinstance(e.value, int) and not isinstance(e.value, bool):
        return 0, e.value
    if isinstance(e, ast.UnaryOp) and isinstance(e.op, ast.USub):
        a, b = _lin(e.operand, var)
        return -a, -b
    if isinstance(e, ast.BinOp):
        if isinstance(e.op, (ast.Add, ast.Sub)):
            a1, b1 = _lin(e.left, var)
            a2, b2 = _lin(e.right, var)
            return (a1 + a2, b1 + b2) if isinstance(e.op, ast.Add) else (a1 - a2, b1 - b2)
        if isinstance(e.op, ast.Mult):
            a1, b1 = _lin(e.left, var)
            a2, b2 = _lin(e.right, var)
            if a1 == 0:
                return b1 * a2, b1 * b2
            if a2 == 0:
                return a1 * b2, b1 * b2
    raise AnalysisError(f'shift amount `{pf.nsrc(e)}` is not linear in {var}')


_DEDUP_CALLS = {'set', 'frozenset', 'dict.fromkeys'}
_ORDER_CALLS = {'sorted', 'list', 'tuple', 'reversed', 'iter'}


def _peel(fn: pf.FuncDef, e: ast.AST) -> Tuple[ast.AST, bool]:
    """Follow single-definition locals and re-ordering / de-duplicating wrappers down to the collection underneath: (base, deduplicated)."""
    params = {a.arg for a in fn.args.posonlyargs + fn.args.args + fn.args.kwonlyargs}
    dedup = False
    for _ in range(10):
        if isinstance(e, ast.Name) and e.id not in params:
            d = pf.single_def(fn, e.id)
            if d is None or not isinstance(d, ast.expr):
                break
            e = d
        elif isinstance(e, ast.Call) and len(e.args) == 1 and pf.dotted(e.func) in _DEDUP_CALLS and not e.keywords:
            dedup, e = True, e.args[0]
        elif isinstance(e, ast.Call) and len(e.args) == 1 and pf.dotted(e.func) in _ORDER_CALLS and all(k.arg in ('key', 'reverse') for k in e.keywords):
            e = e.args[0]
        elif isinstance(e, ast.SetComp) and len(e.generators) == 1 and not e.generators[0].ifs and pf.nsrc(e.elt) == pf.nsrc(e.generators[0].target):
            dedup, e = True, e.generators[0].iter
        else:
            break
    return e, dedup


def _upper_bound(test: ast.AST, var_texts: Sequence[str]) -> Optional[int]:
    """Largest value of the variable allowed by an asserted comparison: `v < N`, `v <= N`, `N > v`, `0 < v < N`, conjunctions."""
    if isinstance(test, ast.BoolOp) and isinstance(test.op, ast.And):
        bs = [b for b in (_upper_bound(v, var_texts) for v in test.values) if b is not None]
        return min(bs) if bs else None
    if not isinstance(test, ast.Compare):
        return None
    terms = [test.left] + list(test.comparators)
    best = None
    for (a, op, b) in zip(terms, test.ops, terms[1:]):
        c = None
        if pf.nsrc(a) in var_texts and isinstance(b, ast.Constant) and isinstance(b.value, int):
            c = b.value - 1 if isinstance(op, ast.Lt) else b.value if isinstance(op, ast.LtE) else None
        elif pf.nsrc(b) in var_texts and isinstance(a, ast.Constant) and isinstance(a.value, int):
            c = a.value - 1 if isinstance(op, ast.Gt) else a.value if isinstance(op, ast.GtE) else None
        if c is not None:
            best = c if best is None else min(best, c)
    return best


_REDUCE_OPS = {'operator.or_': 'or', 'or_': 'or', 'int.__or__': 'or', 'operator.ior': 'or', 'operator.add': 'add', 'add': 'add', 'int.__add__': 'add',
               'operator.iadd': 'add', 'operator.xor': 'xor', 'xor': 'xor', 'int.__xor__': 'xor'}
_BINOPS = {ast.BitOr: 'or', ast.Add: 'add', ast.BitXor: 'xor'}


class _Enc:
    shift: ast.BinOp
    idx: str            # symbol the shift amount is linear in
    combiner: str       # 'or' | 'add' | 'xor' | 'overwrite'
    comb_src: str
    comb_line: int
    dedup: bool
    src_ok: bool
    src_text: str
    bound: Optional[int]


def _index_symbol(ctx: Ctx, sh: ast.BinOp, region: str, mapname: str, local_defs: Dict[str, List[ast.AST]], who: str) -> Tuple[ast.AST, str, bool, str]:
    """(shift amount with the index replaced by one symbol, symbol, index is MAP[region], text of the index source)."""
    want = f'{mapname}[{region}]'
    inline = [n for n in ast.walk(sh.right) if isinstance(n, ast.Subscript) and pf.nsrc(n) == want]
    if inline:
        import copy

        class S(ast.NodeTransformer):
            def visit_Subscript(self, node: ast.Subscript):
                if pf.nsrc(node) == want:
                    return ast.Name(id='idx__', ctx=ast.Load())
                return self.generic_visit(node)
        amount = S().visit(copy.deepcopy(sh.right))
        ctx.need(pf.names_in(amount) == {'idx__'}, f'{who}: shift amount `{pf.nsrc(sh.right)}`')
        return amount, 'idx__', True, want
    names = sorted(pf.names_in(sh.right))
    ctx.need(len(names) == 1, f'{who}: shift amount `{pf.nsrc(sh.right)}`')
    widx = names[0]
    if widx == region and region not in local_defs:
        # the loop variable itself is shifted: it is a region NAME unless the iterable already holds ids
        return sh.right, widx, False, region
    d = local_defs.get(widx, [])
    ok = len(d) == 1 and pf.nsrc(d[0]) == want
    return sh.right, widx, ok, (pf.nsrc(d[0]) if d else '?')


def _encoder(ctx: Ctx, m: pf.Module, w: pf.FuncDef, wp: List[str]) -> Tuple[_Enc, ast.AST]:
    who = 'regions_to_bits_rep'
    enc = _Enc()
    loops = [n for n in pf.walk_shallow(w) if isinstance(n, (ast.For, ast.While))]
    rets = [n for n in pf.walk_shallow(w) if isinstance(n, ast.Return)]
    ctx.need(len(rets) == 1 and rets[0].value is not None, f'{who}: expected one `return <value>`')
    if len(loops) == 1 and isinstance(loops[0], ast.For):
        lp = loops[0]
        base, enc.dedup = _peel(w, lp.iter)
        ctx.need(pf.nsrc(base) == wp[0] and isinstance(lp.target, ast.Name), f'{who}: loop over the selected regions not found')
        region = lp.target.id  # type: ignore[union-attr]
        shifts = [n for n in ast.walk(lp) if isinstance(n, ast.BinOp) and isinstance(n.op, ast.LShift)]
        ctx.need(len(shifts) == 1, f'{who}: {len(shifts)} left shifts')
        sh = shifts[0]
        ctx.need(isinstance(sh.left, ast.Constant) and sh.left.value == 1, f'{who}: `{pf.nsrc(sh)}` does not shift the constant 1')
        local_defs: Dict[str, List[ast.AST]] = {}
        for s_ in lp.body:
            if isinstance(s_, ast.Assign) and len(s_.targets) == 1 and isinstance(s_.targets[0], ast.Name):
                local_defs.setdefault(s_.targets[0].id, []).append(s_.value)
        amount, enc.idx, enc.src_ok, enc.src_text = _index_symbol(ctx, sh, region, wp[1], local_defs, who)
        enc.shift = sh
        acc = [s_ for s_ in ast.walk(lp) if isinstance(s_, (ast.AugAssign, ast.Assign)) and any(x is sh for x in ast.walk(s_))]
        ctx.need(len(acc) == 1, f'{who}: accumulation statement not found')
        st = acc[0]
        enc.comb_src, enc.comb_line = pf.nsrc(st), st.lineno
        if isinstance(st, ast.AugAssign):
            res = pf.nsrc(st.target)
            enc.combiner = _BINOPS.get(type(st.op), 'other') if st.value is sh else 'other'
        else:
            res = pf.nsrc(st.targets[0])
            v = st.value
            if isinstance(v, ast.BinOp) and res in (pf.nsrc(v.left), pf.nsrc(v.right)) and (v.left is sh or v.right is sh):
                enc.combiner = _BINOPS.get(type(v.op), 'other')
            else:
                enc.combiner = 'overwrite'
        init = [s_ for s_ in w.body if isinstance(s_, ast.Assign) and pf.nsrc(s_.targets[0]) == res]
        ctx.need(pf.nsrc(rets[0].value) == res and len(init) == 1 and pf.nsrc(init[0].value) == '0', f'{who}: `result = 0 ... return result` not recognised')
        ctx.need(enc.combiner != 'other', f'{who}: accumulation `{enc.comb_src}` not recognised')
        enc.bound = None
        texts = [enc.idx] if enc.idx != 'idx__' else [enc.src_text]
        for s_ in lp.body:
            if isinstance(s_, ast.Assert) and s_.lineno < st.lineno:
                b = _upper_bound(s_.test, texts)
                if b is not None:
                    enc.bound = b if enc.bound is None else min(enc.bound, b)
        return enc, amount
    ctx.need(not loops, f'{who}: loop over the selected regions not found')
    # expression form:  return sum(1 << s(idx) for idx in IDS)   /   functools.reduce(operator.or_, (...), 0)
    rv = pf.resolve_expr(w, rets[0].value)
    ctx.need(isinstance(rv, ast.Call), f'{who}: `{short(pf.nsrc(rv), 60)}` is neither an accumulating loop nor sum(...) / reduce(...)')
    fname = pf.dotted(rv.func)  # type: ignore[union-attr]
    args = list(rv.args)  # type: ignore[union-attr]
    if fname == 'sum' and 1 <= len(args) <= 2:
        ctx.need(len(args) == 1 or pf.nsrc(args[1]) == '0', f'{who}: sum start value `{pf.nsrc(args[-1])}`')
        enc.combiner, gen = 'add', args[0]
    elif fname in ('functools.reduce', 'reduce') and 2 <= len(args) <= 3:
        ctx.need(len(args) == 2 or pf.nsrc(args[2]) == '0', f'{who}: reduce initial value `{pf.nsrc(args[-1])}`')
        op = args[0]
        comb = _REDUCE_OPS.get(pf.dotted(op) or '')
        if comb is None and isinstance(op, ast.Lambda) and len(op.args.args) == 2 and isinstance(op.body, ast.BinOp) \
                and {pf.nsrc(op.body.left), pf.nsrc(op.body.right)} == {a.arg for a in op.args.args}:
            comb = _BINOPS.get(type(op.body.op))
        ctx.need(comb is not None, f'{who}: reduce operator `{pf.nsrc(op)}` not recognised')
        enc.combiner, gen = comb, args[1]  # type: ignore[assignment]
    else:
        raise AnalysisError(f'{who}: `{short(pf.nsrc(rv), 60)}` is neither an accumulating loop nor sum(...) / reduce(...)')
    enc.comb_src, enc.comb_line = short(pf.nsrc(rv), 70), rv.lineno
    gen = pf.resolve_expr(w, gen)
    ctx.need(isinstance(gen, (ast.GeneratorExp, ast.ListComp)) and len(gen.generators) == 1 and not gen.generators[0].ifs and isinstance(gen.generators[0].target, ast.Name),
             f'{who}: `{short(pf.nsrc(gen), 60)}` is not a plain comprehension of bit terms')
    sh = gen.elt  # type: ignore[union-attr]
    ctx.need(isinstance(sh, ast.BinOp) and isinstance(sh.op, ast.LShift) and isinstance(sh.left, ast.Constant) and sh.left.value == 1,
             f'{who}: summed term `{pf.nsrc(sh)}` is not `1 << amount`')
    enc.shift = sh  # type: ignore[assignment]
    v = gen.generators[0].target.id  # type: ignore[union-attr]
    it = gen.generators[0].iter  # type: ignore[union-attr]
    base, d1 = _peel(w, it)
    bound_iters = {pf.nsrc(it)}
    if pf.nsrc(base) == wp[0]:
        amount, enc.idx, enc.src_ok, enc.src_text = _index_symbol(ctx, sh, v, wp[1], {}, who)  # type: ignore[arg-type]
        enc.dedup = d1
        var_texts = [enc.src_text.replace(f'[{v}]', '[%s]')]
    else:
        ctx.need(isinstance(base, (ast.ListComp, ast.GeneratorExp, ast.SetComp)) and len(base.generators) == 1 and not base.generators[0].ifs
                 and isinstance(base.generators[0].target, ast.Name), f'{who}: the summed collection `{short(pf.nsrc(base), 60)}` is not derived from {wp[0]} by a plain comprehension')
        r_ = base.generators[0].target.id  # type: ignore[union-attr]
        base2, d2 = _peel(w, base.generators[0].iter)  # type: ignore[union-attr]
        ctx.need(pf.nsrc(base2) == wp[0], f'{who}: the ids are not computed from {wp[0]}')
        enc.src_text = pf.nsrc(base.elt)  # type: ignore[union-attr]
        enc.src_ok = enc.src_text == f'{wp[1]}[{r_}]'
        enc.dedup = d1 or d2 or isinstance(base, ast.SetComp)
        names = sorted(pf.names_in(sh.right))  # type: ignore[union-attr]
        ctx.need(names == [v], f'{who}: shift amount `{pf.nsrc(sh.right)}`')  # type: ignore[union-attr]
        amount, enc.idx = sh.right, v  # type: ignore[union-attr]
        var_texts = ['%s']
    # bound: assert all(<cmp> for u in <the same collection>) / assert max(<collection>) < N, before the return
    enc.bound = None
    for s_ in w.body:
        if not (isinstance(s_, ast.Assert) and s_.lineno <= rets[0].lineno):
            continue
        t = s_.test
        if isinstance(t, ast.Call) and pf.dotted(t.func) == 'all' and len(t.args) == 1 and isinstance(t.args[0], (ast.GeneratorExp, ast.ListComp)) \
                and len(t.args[0].generators) == 1 and isinstance(t.args[0].generators[0].target, ast.Name) and not t.args[0].generators[0].ifs:
            g = t.args[0].generators[0]
            same = pf.nsrc(g.iter) in bound_iters or _peel(w, g.iter)[0] is base or (pf.nsrc(_peel(w, g.iter)[0]) == pf.nsrc(base))
            if same:
                b = _upper_bound(t.args[0].elt, [x % g.target.id for x in var_texts])  # type: ignore[union-attr]
                if b is not None:
                    enc.bound = b if enc.bound is None else min(enc.bound, b)
        elif isinstance(t, ast.Compare) and var_texts == ['%s']:
            for side in [t.left] + list(t.comparators):
                if isinstance(side, ast.Call) and pf.dotted(side.func) == 'max' and len(side.args) == 1 and \
                        (pf.nsrc(side.args[0]) in bound_iters or pf.nsrc(_peel(w, side.args[0])[0]) == pf.nsrc(base)):
                    b = _upper_bound(t, [pf.nsrc(side)])
                    if b is not None:
                        enc.bound = b if enc.bound is None else min(enc.bound, b)
    return enc, amount


def _strip_early_returns(ctx: Ctx, m: pf.Module, fn: pf.FuncDef, role: str) -> pf.FuncDef:
    """Top-level `if <test>: return <value>` shortcuts in front of the encoder / decoder body.  A shortcut taken only for "nothing selected" (None / empty /
    a zero or negative bit set) is set aside and the body analysed without it.  A shortcut that a NON-EMPTY selection (a non-NULL bit set) can take and that answers a
    constant is the store-site mistake inside the function: the constant is what "no selection" gives, so the selected set is not recovered.  Anything else is declined."""
    import copy
    params = [a.arg for a in fn.args.args]
    x, mp = params[0], params[1]
    cons = f'{FU}::{fn.name}::shortcut return'

    def is_x(e: ast.AST) -> bool:
        return pf.nsrc(_peel_set(e)) == x
    keep: List[ast.stmt] = []
    stripped = 0
    for st in fn.body:
        if not (isinstance(st, ast.If) and not st.orelse and len(st.body) == 1 and isinstance(st.body[0], ast.Return)):
            keep.append(st)
            continue
        rv = st.body[0].value
        atoms = absdom.bool_atoms(st.test, [])
        free = [a for a in atoms if _presence_atom(a, is_x, 'nonempty', None) is None]
        # integer comparisons of the bit set with 0 (`bits == 0`, `bits <= 0`, `bits < 0`, `not bits`): no selection at all
        zeroish = [a for a in free if isinstance(a, ast.Compare) and len(a.ops) == 1 and is_x(a.left) and isinstance(a.comparators[0], ast.Constant) and a.comparators[0].value == 0
                   and isinstance(a.ops[0], (ast.Eq, ast.LtE, ast.Lt))]
        free = [a for a in free if not any(a is z for z in zeroish)]
        reach = []
        for fv in absdom.valuations([absdom.atom_key(a) for a in free]):
            def val(a: ast.AST, fv=fv) -> bool:
                v_ = _presence_atom(a, is_x, 'nonempty', None)
                if v_ is not None:
                    return v_
                if any(a is z for z in zeroish):
                    return False
                return fv[absdom.atom_key(a)]
            if absdom.eval_bool(st.test, val):
                reach.append(fv)
        if not reach:
            stripped += 1
            continue  # taken only when nothing is selected
        const = rv is None or isinstance(rv, ast.Constant) or (isinstance(rv, (ast.List, ast.Tuple)) and not rv.elts)
        ctx.need(const, f'{cons}: `{short(pf.nsrc(st.test), 60)}` returns `{short(pf.nsrc(rv), 40)}` for some selections; whether that equals what the loop computes is not analysed')
        what = 'a non-empty selection' if role == 'encoder' else 'a stored (non-NULL) bit set'
        ctx.bad('R4', cons + f' `{short(pf.nsrc(st.test), 50)}`', f'{what} takes the shortcut `if {short(pf.nsrc(st.test), 70)}: return {pf.nsrc(rv) if rv is not None else "None"}` '
                f'({_fv_text(reach[0])}): it is answered with the constant that stands for "no selection"'
                + (' - the front end stores NULL, which the drivers decode as every region supported at scheduling time' if role == 'encoder' else
                   ' - the drivers replace None by every region the instance collection supports at scheduling time')
                + f', so the region set recovered for the job is not the set it selected (it changes when `{mp}` gains a region)', m.path, st.lineno)
        stripped += 1
    if not stripped:
        return fn
    fn2 = copy.copy(fn)
    fn2.body = keep
    return fn2


def _canon_region_fn(m: pf.Module, fn: pf.FuncDef) -> pf.FuncDef:
    """Behaviour-preserving spellings of the region helpers mapped to the form the rules read (on a copy; every rewrite is a syntactic equivalence):
      * `return [E for T in IT if C]`  ->  `res = []; for T in IT: if C: res.append(E); return res`
      * inside a loop body, a local assigned once to a pure arithmetic expression (`bit = 1 << (idx - 1)`) is substituted into the statements after it
      * a name in an `assert` that is a module-level integer constant is replaced by its value"""
    import copy
    fn2 = copy.deepcopy(fn)
    # list comprehension returned directly
    for i, st in enumerate(list(fn2.body)):
        if isinstance(st, ast.Return) and isinstance(st.value, ast.ListComp) and len(st.value.generators) == 1 and not st.value.generators[0].is_async:
            g = st.value.generators[0]
            res = ast.Name(id='result__', ctx=ast.Load())
            app: ast.stmt = ast.Expr(value=ast.Call(func=ast.Attribute(value=res, attr='append', ctx=ast.Load()), args=[st.value.elt], keywords=[]))
            for c in reversed(g.ifs):
                app = ast.If(test=c, body=[app], orelse=[])
            loop = ast.For(target=g.target, iter=g.iter, body=[app], orelse=[])
            init = ast.Assign(targets=[ast.Name(id='result__', ctx=ast.Store())], value=ast.List(elts=[], ctx=ast.Load()))
            ret = ast.Return(value=ast.Name(id='result__', ctx=ast.Load()))
            new = [init, loop, ret]
            for n_ in new:
                ast.copy_location(n_, st)
                for x in ast.walk(n_):
                    if not hasattr(x, 'lineno'):
                        ast.copy_location(x, st)
            fn2.body[i:i + 1] = new
            break
    # arithmetic locals inside loop bodies
    asg = pf.assignments(fn2)

    class _S(ast.NodeTransformer):
        def __init__(self, name: str, val: ast.AST):
            self.name, self.val = name, val

        def visit_Name(self, node: ast.Name):
            if node.id == self.name and isinstance(node.ctx, ast.Load):
                return copy.deepcopy(self.val)
            return node
    for lp in [n for n in ast.walk(fn2) if isinstance(n, ast.For)]:
        inside = {id(x) for st in lp.body for x in ast.walk(st)}
        i = 0
        while i < len(lp.body):
            st = lp.body[i]
            if isinstance(st, ast.Assign) and len(st.targets) == 1 and isinstance(st.targets[0], ast.Name) and isinstance(st.value, (ast.BinOp, ast.UnaryOp)) \
                    and all(isinstance(x, (ast.BinOp, ast.UnaryOp, ast.Name, ast.Constant, ast.operator, ast.unaryop, ast.expr_context)) for x in ast.walk(st.value)):
                n = st.targets[0].id
                used_outside = any(isinstance(x, ast.Name) and x.id == n and id(x) not in inside for x in ast.walk(fn2))
                if len(asg.get(n, [])) == 1 and not used_outside and all(len(asg.get(y, [])) <= 1 for y in pf.names_in(st.value)) and n not in pf.names_in(st.value):
                    sub = _S(n, st.value)
                    lp.body[i + 1:] = [sub.visit(s2) for s2 in lp.body[i + 1:]]
                    del lp.body[i]
                    continue
            i += 1
    # module-level integer constants in asserts
    for a in [n for n in ast.walk(fn2) if isinstance(n, ast.Assert)]:
        local = set(pf.assignments(fn2))
        for x in list(ast.walk(a.test)):
            if isinstance(x, ast.Name) and x.id not in local:
                try:
                    v = m.global_assign(x.id)
                except AnalysisError:
                    continue
                if isinstance(v, ast.Constant) and isinstance(v.value, int) and not isinstance(v.value, bool):
                    a.test = _S(x.id, v).visit(a.test)
    ast.fix_missing_locations(fn2)
    return fn2


def _check_regions(ctx: Ctx) -> None:
    m = pf.load(FU)
    w = _canon_region_fn(m, m.func('regions_to_bits_rep'))
    wp = [a.arg for a in w.args.args]
    ctx.need(len(wp) == 2, f'regions_to_bits_rep parameters {wp}')
    w = _strip_early_returns(ctx, m, w, 'encoder')
    enc, amount = _encoder(ctx, m, w, wp)
    sh = enc.shift
    cons_w = f'{FU}::regions_to_bits_rep'
    ctx.check(enc.src_ok, 'R4', cons_w + '::bit index source', f'the bit index `{enc.idx}` is `{enc.src_text}`, not {wp[1]}[<selected region>]: the bit set does not identify the selected region',
              m.path, sh.lineno)
    aw, bw = _lin(amount, enc.idx)
    # the encoder must be a homomorphism from SETS of regions: bits combined with an idempotent operator, or provably pairwise distinct terms
    if enc.combiner == 'or':
        ok_acc, why = True, ''
    elif enc.combiner in ('add', 'xor') and enc.dedup:
        ok_acc, why = True, ''
        ctx.assume(f'{wp[1]} is injective (region_id is the primary key of `regions`): distinct region names have distinct bits')
    elif enc.combiner == 'add':
        ok_acc, why = False, (f'`{enc.comb_src}` ADDS the bit terms of a plain list: `+` is not idempotent, a region named twice (regions=["a", "a"], accepted by the validator: '
                              f'listof(str_type)) gives 2 * (1 << id-1) = 1 << id, which carries into the neighbouring bit and decodes to a DIFFERENT region (or to none); '
                              'combine with `|` or deduplicate (set(...)) first')
    elif enc.combiner == 'xor':
        ok_acc, why = False, (f'`{enc.comb_src}` XORs the bit terms of a plain list: a region named twice (regions=["a", "a"]) cancels out and the job is stored with an empty region set')
    else:
        ok_acc, why = False, f'`{enc.comb_src}` does not OR the bit into the result: earlier regions are overwritten'
    ctx.check(ok_acc, 'R4', cons_w + '::accumulate', why, m.path, enc.comb_line, detail={'combiner': enc.combiner, 'deduplicated': enc.dedup})
    if enc.bound is None:
        ctx.bad('R4', cons_w + '::bit range', f'no `assert {enc.idx} < N` before the shift: a region id above 63 produces a value that does not fit the signed BIGINT column '
                '(the INSERT fails or the set is truncated)', m.path, sh.lineno)
    else:
        hi = aw * enc.bound + bw
        lo = aw * 1 + bw
        ctx.check(aw == 1 and 0 <= lo and hi <= 62, 'R4', cons_w + '::bit range',
                  f'bit positions range over [{lo}, {hi}] for region ids 1..{enc.bound}: ' + ('bit 63 and above does not fit a signed BIGINT' if hi > 62 else 'a negative shift raises ValueError for region id 1'),
                  m.path, sh.lineno, detail={'bits': [lo, hi]})
    _decoder(ctx, m, aw, bw, sh)


def _seq_of_keys(fn: pf.FuncDef, e: ast.AST, mapname: str) -> Optional[str]:
    """Is e a dense SEQUENCE of the mapping's region names (positions = ranks)?  Returns a description, else None."""
    for _ in range(4):
        if isinstance(e, ast.Name):
            d = pf.single_def(fn, e.id)
            if d is None or not isinstance(d, ast.expr):
                return None
            e = d
        else:
            break
    if isinstance(e, ast.Call) and pf.dotted(e.func) in ('sorted', 'list', 'tuple') and len(e.args) == 1:
        a = e.args[0]
        if pf.nsrc(a) in (mapname, f'{mapname}.keys()'):
            return short(pf.nsrc(e), 70)
        if isinstance(a, (ast.GeneratorExp, ast.ListComp)):
            return _seq_of_keys(fn, a, mapname)
    if isinstance(e, (ast.ListComp, ast.GeneratorExp)) and len(e.generators) == 1:
        g = e.generators[0]
        it = g.iter
        while isinstance(it, ast.Call) and pf.dotted(it.func) in ('sorted', 'list', 'tuple', 'reversed') and len(it.args) == 1:
            it = it.args[0]
        if pf.nsrc(it) == f'{mapname}.items()' and isinstance(g.target, ast.Tuple) and len(g.target.elts) == 2 and pf.nsrc(e.elt) == pf.nsrc(g.target.elts[0]):
            return short(pf.nsrc(e), 70)
        if pf.nsrc(it) in (mapname, f'{mapname}.keys()') and pf.nsrc(e.elt) == pf.nsrc(g.target):
            return short(pf.nsrc(e), 70)
    return None


def _inverse_map(fn: pf.FuncDef, e: ast.AST, mapname: str) -> bool:
    """Is e the dict id -> region name built from the mapping?"""
    for _ in range(4):
        if isinstance(e, ast.Name):
            d = pf.single_def(fn, e.id)
            if d is None or not isinstance(d, ast.expr):
                return False
            e = d
    if isinstance(e, ast.DictComp) and len(e.generators) == 1 and not e.generators[0].ifs:
        g = e.generators[0]
        if pf.nsrc(g.iter) == f'{mapname}.items()' and isinstance(g.target, ast.Tuple) and len(g.target.elts) == 2:
            return pf.nsrc(e.key) == pf.nsrc(g.target.elts[1]) and pf.nsrc(e.value) == pf.nsrc(g.target.elts[0])
    return False


def _decoder(ctx: Ctx, m: pf.Module, aw: int, bw: int, sh: ast.BinOp) -> None:
    r = _canon_region_fn(m, m.func('regions_bits_rep_to_regions'))
    rp = [a.arg for a in r.args.args]
    ctx.need(len(rp) == 2, f'regions_bits_rep_to_regions parameters {rp}')
    r = _strip_early_returns(ctx, m, r, 'decoder')
    loops = [n for n in pf.walk_shallow(r) if isinstance(n, (ast.For, ast.While))]
    ctx.need(len(loops) == 1, 'regions_bits_rep_to_regions: loop not found')
    # after the shortcuts for "nothing selected" have been set aside, the only way out is the result list (a return inside the loop is judged below)
    outside = [n for n in pf.walk_shallow(r) if isinstance(n, ast.Return) and not any(n is x for x in ast.walk(loops[0]))]
    ctx.need(len(outside) == 1, f'regions_bits_rep_to_regions: {len(outside)} return statements outside the loop (only `return <result>` expected)')
    lp = loops[0]
    cons_r = f'{FU}::regions_bits_rep_to_regions'
    it_base = lp.iter if isinstance(lp, ast.For) else None
    while isinstance(it_base, ast.Call) and pf.dotted(it_base.func) in _ORDER_CALLS and len(it_base.args) == 1:  # sorted(m.items()) visits the same pairs
        it_base = it_base.args[0]
    if not (isinstance(lp, ast.For) and it_base is not None and pf.nsrc(it_base) == f'{rp[1]}.items()'):
        _decoder_by_position(ctx, m, r, rp, lp, aw, bw, sh)
        return
    it = pf.nsrc(lp.iter)
    if isinstance(lp.target, ast.Tuple) and len(lp.target.elts) == 2 and all(isinstance(x, ast.Name) for x in lp.target.elts):
        rkey, ridx = lp.target.elts[0].id, lp.target.elts[1].id  # type: ignore[union-attr]
    else:
        raise AnalysisError(f'regions_bits_rep_to_regions: loop `for {pf.nsrc(lp.target)} in {it}` is not over {rp[1]}.items()')
    exit_tests = [st.test for st in lp.body if isinstance(st, ast.If) and not st.orelse and len(st.body) == 1 and isinstance(st.body[0], (ast.Break, ast.Return))]
    in_exit_test = {id(x) for t in exit_tests for x in ast.walk(t)}   # `if not bits >> idx - 1: break` is judged by _early_exit, it is not the bit test
    shifts_r = [n for n in ast.walk(lp) if isinstance(n, ast.BinOp) and isinstance(n.op, ast.RShift) and id(n) not in in_exit_test]
    ctx.need(len(shifts_r) == 1, f'regions_bits_rep_to_regions: {len(shifts_r)} right shifts')
    rs = shifts_r[0]
    ctx.need(pf.nsrc(rs.left) == rp[0], f'regions_bits_rep_to_regions: `{pf.nsrc(rs)}` does not shift {rp[0]}')
    ctx.need(pf.names_in(rs.right) <= {ridx, rkey}, f'regions_bits_rep_to_regions: shift amount `{pf.nsrc(rs.right)}`')
    if rkey in pf.names_in(rs.right):
        ctx.bad('R4', cons_r + '::shift', f'the shift amount `{pf.nsrc(rs.right)}` uses the region name, not its id', m.path, rs.lineno)
    else:
        ar, br = _lin(rs.right, ridx)
        ctx.check((ar, br) == (aw, bw), 'R4', cons_r + '::shift',
                  f'the writer sets bit {aw}*id{bw:+d} (`1 << {pf.nsrc(sh.right)}`) but the reader tests bit {ar}*id{br:+d} (`>> {pf.nsrc(rs.right)}`): a job restricted to region id k '
                  f'is read back as region id k{(bw - br):+d}', m.path, rs.lineno, detail={'writer': [aw, bw], 'reader': [ar, br]})
    # mask & 1
    par = {c: p for p in ast.walk(r) for c in ast.iter_child_nodes(p)}
    up = par.get(rs)
    masked = isinstance(up, ast.BinOp) and isinstance(up.op, ast.BitAnd) and any(isinstance(x, ast.Constant) and x.value == 1 for x in (up.left, up.right))
    ctx.check(masked, 'R4', cons_r + '::mask', f'`{short(pf.nsrc(up) if up is not None else pf.nsrc(rs), 60)}` does not isolate one bit with `& 1`: every region below the highest selected one is reported as selected',
              m.path, rs.lineno)
    # appended value is the key, under the test
    apps = [n for n in ast.walk(lp) if isinstance(n, ast.Call) and isinstance(n.func, ast.Attribute) and n.func.attr == 'append']
    ctx.need(len(apps) == 1 and len(apps[0].args) == 1, 'regions_bits_rep_to_regions: append not found')
    ctx.check(pf.nsrc(apps[0].args[0]) == rkey, 'R4', cons_r + '::returns region names', f'`{pf.nsrc(apps[0])}` does not append the region name `{rkey}`', m.path, apps[0].lineno)
    # the append is guarded by the bit test
    guarded = False
    for n in ast.walk(lp):
        if isinstance(n, ast.If) and any(x is apps[0] for b in n.body for x in ast.walk(b)):
            t = n.test
            tsrc = pf.resolve_expr(r, t)
            guarded = any(x is rs for x in ast.walk(tsrc)) or (isinstance(t, ast.Name) and any(
                isinstance(s, ast.Assign) and pf.nsrc(s.targets[0]) == t.id and any(x is rs for x in ast.walk(s.value)) for s in lp.body))
    ctx.check(guarded, 'R4', cons_r + '::guard', 'the region is appended without testing its bit: every region is returned', m.path, apps[0].lineno)
    # every known region is tested: the loop is not left early
    exits = [n for n in ast.walk(lp) if isinstance(n, (ast.Break, ast.Return))]
    par2 = {c: p for p in ast.walk(lp) for c in ast.iter_child_nodes(p)}
    app_stmt = par2.get(apps[0])
    app_block = next((blk for n in ast.walk(lp) for fld in ('body', 'orelse') for blk in [getattr(n, fld, None)] if isinstance(blk, list) and any(x is app_stmt for x in blk)), [])
    after_append = [x for x in exits if any(x is y for y in app_block)]
    if exits and not after_append:
        _early_exit(ctx, m, r, rp, lp, rkey, ridx, exits, aw, bw, app_stmt, pf.nsrc(outside[0].value) if outside[0].value is not None else None)
        return
    ctx.check(not after_append, 'R4', cons_r + '::every region tested', 'the loop over the known regions stops right after the first selected region is appended: a job restricted to two regions '
              '(bits 0b101) is read back with one', m.path, after_append[0].lineno if after_append else lp.lineno)


def _iteration_order(lp: ast.For) -> Tuple[str, str]:
    """Order in which `for name, id in <iter>` visits the pairs of the mapping, read off the iterable expression:
    ('insertion', ..) plain .items() (dict insertion order: whatever order the rows of `regions` were SELECTed in) | ('name', ..) sorted(.items()) |
    ('id', ..) sorted(.items(), key=<second component>) ascending | ('unknown', why)."""
    e = lp.iter
    while isinstance(e, ast.Call) and pf.dotted(e.func) in ('list', 'tuple', 'iter') and len(e.args) == 1 and not e.keywords:
        e = e.args[0]
    if isinstance(e, ast.Call) and isinstance(e.func, ast.Attribute) and e.func.attr == 'items' and not e.args:
        return 'insertion', pf.nsrc(e)
    if isinstance(e, ast.Call) and pf.dotted(e.func) == 'sorted' and len(e.args) == 1 and isinstance(e.args[0], ast.Call) and isinstance(e.args[0].func, ast.Attribute) \
            and e.args[0].func.attr == 'items':
        kws = {k.arg: k.value for k in e.keywords}
        if set(kws) - {'key', 'reverse'}:
            return 'unknown', pf.nsrc(e)
        rev = kws.get('reverse')
        if rev is not None and not (isinstance(rev, ast.Constant) and rev.value is False):
            return 'unknown', f'{pf.nsrc(e)} (descending)'
        key = kws.get('key')
        if key is None:
            return 'name', pf.nsrc(e)
        if isinstance(key, ast.Lambda) and len(key.args.args) == 1 and isinstance(key.body, ast.Subscript) and pf.nsrc(key.body.value) == key.args.args[0].arg \
                and isinstance(key.body.slice, ast.Constant) and key.body.slice.value in (0, 1):
            return ('id' if key.body.slice.value == 1 else 'name'), pf.nsrc(e)
        if isinstance(key, ast.Call) and (pf.dotted(key.func) or '').split('.')[-1] == 'itemgetter' and len(key.args) == 1 and isinstance(key.args[0], ast.Constant) \
                and key.args[0].value in (0, 1):
            return ('id' if key.args[0].value == 1 else 'name'), pf.nsrc(e)
        return 'unknown', pf.nsrc(e)
    return 'unknown', pf.nsrc(e)


def _past_top_bit(test: ast.AST, bits: str, ridx: str) -> Optional[int]:
    """Normal form of an exit condition that says "this id lies past the highest set bit": returns lo such that  test <=> id >= bits.bit_length() + lo, or None.
    Recognised: linear comparisons of the id with bits.bit_length();  (bits >> f(id)) == 0 / not (bits >> f(id));  bits < (1 << f(id)) / bits < 2 ** f(id)   (f linear, slope 1):
    bits >> s == 0  <=>  bits < 2**s  <=>  bit_length <= s."""
    from engines import asyncfacts as af
    bl = f'{bits}.bit_length()'
    t = test
    if isinstance(t, ast.UnaryOp) and isinstance(t.op, ast.Not):
        t = ast.Compare(left=t.operand, ops=[ast.Eq()], comparators=[ast.Constant(value=0)])

    def shift_of(e: ast.AST, op) -> Optional[ast.AST]:
        if isinstance(e, ast.BinOp) and isinstance(e.op, op):
            return e
        return None
    if isinstance(t, ast.Compare) and len(t.ops) == 1:
        L, R, op = t.left, t.comparators[0], t.ops[0]
        # (bits >> S) == 0  /  0 == (bits >> S)
        for x, y in ((L, R), (R, L)):
            sh = shift_of(x, ast.RShift)
            if sh is not None and pf.nsrc(sh.left) == bits and isinstance(y, ast.Constant) and y.value == 0 and isinstance(op, ast.Eq):
                try:
                    a, b = _lin(sh.right, ridx)
                except AnalysisError:
                    return None
                return -b if a == 1 else None         # B <= I + b  <=>  I >= B - b
        # bits < (1 << S)  /  (1 << S) > bits ;  bits <= (1 << S) - 1 is not recognised
        for x, y, o in ((L, R, op), (R, L, {ast.Lt: ast.Gt, ast.Gt: ast.Lt}.get(type(op), type(None))())):
            if pf.nsrc(x) == bits and isinstance(o, ast.Lt):
                S = None
                if isinstance(y, ast.BinOp) and isinstance(y.op, ast.LShift) and isinstance(y.left, ast.Constant) and y.left.value == 1:
                    S = y.right
                if isinstance(y, ast.BinOp) and isinstance(y.op, ast.Pow) and isinstance(y.left, ast.Constant) and y.left.value == 2:
                    S = y.right
                if S is not None:
                    try:
                        a, b = _lin(S, ridx)
                    except AnalysisError:
                        return None
                    return -b if a == 1 else None
        nz = af.compare_leq_zero(t, {ridx: 'I', bl: 'B'})   # d < 0 / d <= 0
        if nz is None:
            return None
        d, strict = nz
        if d.get('I') == -1 and d.get('B') == 1 and set(d) <= {'I', 'B', '1'} and d.get('1', 0).denominator == 1:
            return int(d.get('1', 0)) + (1 if strict else 0)   # B - I + c (<|<=) 0  <=>  I >= B + c (+1)
    return None


def _builders_ordered(ctx: Ctx) -> Tuple[bool, str]:
    """Every `<app>['regions'] = {record['region']: record['region_id'] async for record in db.select_and_fetchall(<SQL>)}` under batch/batch: does the SQL end in
    ORDER BY region_id [ASC]?  (True, ..) only if all of them do; an unrecognised builder is declined."""
    sites: List[Tuple[str, bool]] = []
    for rel in pf.walk_py(['batch/batch']):
        m = pf.load(rel)
        if "'regions']" not in m.src and '"regions"]' not in m.src:
            continue
        for n in ast.walk(m.tree):
            if not (isinstance(n, ast.Assign) and len(n.targets) == 1 and isinstance(n.targets[0], ast.Subscript) and pf.const_str(n.targets[0].slice) == RKEY
                    and (pf.dotted(n.targets[0].value) or '').split('.')[-1] == 'app'):
                continue
            fn = m.enclosing_func(n)
            where = f'{rel}::{m.qualname(fn) if fn is not None else "<module>"}'
            v = pf.resolve_expr(fn, n.value) if fn is not None else n.value
            ctx.need(isinstance(v, ast.DictComp) and len(v.generators) == 1 and not v.generators[0].ifs, f"{where}: app['regions'] is not built by a dict comprehension over the rows of `regions` (order not analysed)")
            it = v.generators[0].iter  # type: ignore[union-attr]
            sql = pf.const_str(it.args[0]) if isinstance(it, ast.Call) and it.args and (pf.dotted(it.func) or '').split('.')[-1] in ('select_and_fetchall', 'execute_and_fetchall') else None
            ctx.need(sql is not None, f"{where}: app['regions'] is not read by select_and_fetchall(<literal SQL>) (order not analysed)")
            toks = sql.replace(';', ' ').lower().split()  # type: ignore[union-attr]
            tail: List[str] = []
            for i in range(len(toks) - 1):
                if toks[i] == 'order' and toks[i + 1] == 'by':
                    tail = toks[i + 2:]
            sites.append((where, tail in (['region_id'], ['region_id', 'asc'], ['regions.region_id'], ['regions.region_id', 'asc'])))
    ctx.need(sites, "no builder of app['regions'] found under batch/batch")
    unordered = [w for w, o in sites if not o]
    if unordered:
        return False, f"{len(unordered)} of the {len(sites)} builder(s) of app['regions'] read them without ORDER BY region_id (e.g. {unordered[0]})"
    return True, f"all {len(sites)} builders of app['regions'] read the rows ORDER BY region_id"


def _early_exit(ctx: Ctx, m: pf.Module, r: pf.FuncDef, rp: List[str], lp: ast.For, rkey: str, ridx: str, exits: List[ast.AST], aw: int, bw: int, app_stmt: Optional[ast.AST],
                result_src: Optional[str]) -> None:
    """The loop over the known regions is left before every region was tested.  Every region the job selected must be returned, so an early exit is sound only if NO region that
    would still be visited can have its bit set.  Decided for exits of the form `if <id> (> | >=) <bits>.bit_length() + c: break` (the id is past the highest set bit) by comparing
    linear forms: the condition must imply that the bit of the current / next region lies at or above bit_length, AND the regions must be visited in ascending id order - which a
    dict's .items() (insertion order = row order of an un-ORDERed SELECT) or sorted(.items()) (name order) does not provide."""
    from engines import asyncfacts as af
    cons = f'{FU}::regions_bits_rep_to_regions::every region tested'
    bits = rp[0]
    ctx.need(len(exits) == 1, f'regions_bits_rep_to_regions: the loop over the known regions is left early at {len(exits)} places (not analysed)')
    ex = exits[0]
    if isinstance(ex, ast.Return):
        ctx.need(ex.value is not None and pf.nsrc(ex.value) == result_src, f'regions_bits_rep_to_regions: `{pf.nsrc(ex)}` inside the loop does not return the accumulated result (not analysed)')
    holders = [st for st in lp.body if isinstance(st, ast.If) and not st.orelse and len(st.body) == 1 and st.body[0] is ex]
    ctx.need(len(holders) == 1 and not lp.orelse, f'regions_bits_rep_to_regions: the loop over the known regions is left early by `{pf.nsrc(ex)}` (not a top-level `if <cond>: break` of the loop body; condition not analysed)')
    hold = holders[0]
    body = list(lp.body)
    pos = body.index(hold)
    app_top = [st for st in body if app_stmt is not None and any(x is app_stmt for x in ast.walk(st))]
    ctx.need(len(app_top) == 1, 'regions_bits_rep_to_regions: append statement not found in the loop body')
    after = pos > body.index(app_top[0])   # the current region has already been tested when the exit is taken
    # nothing before the exit test rebinds the id / the bit set
    for st in body[:pos] if not after else body:
        for x in ast.walk(st):
            ctx.need(not (isinstance(x, ast.Name) and isinstance(x.ctx, ast.Store) and x.id in (ridx, bits)), f'regions_bits_rep_to_regions: `{ridx}` / `{bits}` is rebound inside the loop')
    test = pf.expand_locals(r, hold.test)
    bl = f'{bits}.bit_length()'
    lo = _past_top_bit(test, bits, ridx)
    ctx.need(lo is not None, f'regions_bits_rep_to_regions: early exit condition `{short(pf.nsrc(hold.test), 60)}` is not of a recognised "past the highest set bit" form '
             f'({ridx} > {bl} + c, {bits} >> f({ridx}) == 0, {bits} < 1 << f({ridx})); not analysed')
    # condition  <=>  I >= B + lo
    ctx.need(aw == 1, 'regions_bits_rep_to_regions: early exit with a non-unit shift (not analysed)')
    # first region NOT tested once the exit is taken: the current one (exit before the bit test) or any later one (exit after it); in ascending id order a later one has id >= I + 1
    need_lo = -bw - (1 if after else 0)          # sound iff  I >= B + need_lo, i.e. the first skipped bit position (I + bw [+1]) is >= bit_length
    order, it_src = _iteration_order(lp)
    ctx.need(order != 'unknown', f'regions_bits_rep_to_regions: the loop is left early and the order of `{short(it_src, 60)}` is not recognised')
    built = ''
    if order == 'insertion':
        # insertion order of the mapping = the order in which its builders insert: ascending id only if EVERY builder of app['regions'] reads the rows ORDER BY region_id
        ordered, built = _builders_ordered(ctx)
        if ordered:
            order = 'id'
    cond = '`' + short(pf.nsrc(hold.test), 50) + '` (i.e. `' + (f'{ridx} >= {bl}{lo:+d}' if lo else f'{ridx} >= {bl}') + '`)'
    if order == 'id':
        ok = lo >= need_lo
        # witness: the highest selected id k: B = k + bw + 1; skipped although selected when k >= B + lo  <=>  0 >= bw + 1 + lo
        k = 3
        B = k + bw + 1
        wit = (f'with only region id {k} selected (bits {bin(1 << (k + bw))}, bit_length {B}) the condition already holds at id {k} itself ({k} >= {B}{lo:+d}), before its bit is tested' if not after else
               f'with regions of ids {k - 1} and {k} known and only id {k} selected (bits {bin(1 << (k + bw))}, bit_length {B}) the condition holds after region id {k - 1} was tested '
               f'({k - 1} >= {B}{lo:+d}) and region id {k} is never reached')
        ctx.check(ok, 'R4', cons, f'the loop (ascending id order) is left as soon as {cond}, but the bit of region id k is at position k{bw:+d}, so a region that is still to be tested can be '
                  f'selected when the exit is taken: {wit}; the decoder returns [] for that job' if not ok else '', m.path, hold.lineno,
                  detail={'order': 'ascending id', 'exit when': cond, 'sound': f'{ridx} >= bit_length{need_lo:+d} suffices'})
        return
    # any other order: a region with a SMALLER id may be visited after the one that triggers the exit
    j = max(2, 1 + lo)   # with bits == 0b1 (only region id 1 selected, bit_length 1) the exit fires at any id >= 1 + lo
    ctx.need(j <= 63, f'regions_bits_rep_to_regions: early exit {cond} never fires for ids below 64')
    how = (f'`{short(it_src, 50)}` visits the pairs in the dict\'s insertion order, i.e. the order in which the rows of `regions` were read, and {built} (without ORDER BY region_id the '
           'UNIQUE(region) index covers both selected columns, so rows typically come back by NAME)' if order == 'insertion' else f'`{short(it_src, 50)}` visits the pairs in NAME order')
    ctx.bad('R4', cons, f'the loop over the known regions is left as soon as {cond} ("past the highest selected bit"), which skips every region visited LATER; that is sound only if the regions are '
            f'visited in ascending id order, but {how}. With {rp[1]} visited as [("a-region", {j}), ("b-region", 1)] and a job restricted to "b-region" (bits 0b1, bit_length 1) the exit fires at '
            f'"a-region" and the decoder returns [] instead of ["b-region"]: the job is never placed / placed nowhere', m.path, hold.lineno,
            extra={'order': order, 'exit when': cond})


def _decoder_by_position(ctx: Ctx, m: pf.Module, r: pf.FuncDef, rp: List[str], lp: ast.AST, aw: int, bw: int, sh: ast.BinOp) -> None:
    """Decoders that enumerate BIT POSITIONS (walk the set bits / range(64)) instead of the known regions.  The position <-> region mapping must be the
    inverse of the encoder's bit assignment (position = id + bw): looking the region up in a dense SEQUENCE of region names with an index that is a
    function of the bit position alone assumes the ids are exactly 1..n."""
    cons_r = f'{FU}::regions_bits_rep_to_regions'
    bits, mapname = rp
    apps = [n for n in ast.walk(lp) if isinstance(n, ast.Call) and isinstance(n.func, ast.Attribute) and n.func.attr == 'append']
    ctx.need(len(apps) == 1 and len(apps[0].args) == 1, 'regions_bits_rep_to_regions: loop is not over the known regions and no single append was found')
    look = apps[0].args[0]
    look = pf.resolve_expr(r, look)
    ctx.need(isinstance(look, ast.Subscript), f'regions_bits_rep_to_regions: appended `{short(pf.nsrc(look), 50)}` is not a lookup container[index]')
    cont, key = look.value, look.slice  # type: ignore[union-attr]
    deps = cf.depends_on(r, key, through_len=False)  # len(mapping) tells how many regions there are, not which ids
    seq = _seq_of_keys(r, cont, mapname)
    if seq is not None:
        ctx.need(mapname not in deps, f'regions_bits_rep_to_regions: lookup index `{pf.nsrc(key)}` depends on the mapping')
        ctx.bad('R4', cons_r + '::shift', f'the region of a set bit is looked up as `{short(pf.nsrc(look), 60)}`, where `{short(pf.nsrc(cont), 30)}` = `{seq}` is a dense sequence of the region names '
                f'(positions 0..n-1 are RANKS) and the index `{pf.nsrc(key)}` is computed from the bit position alone; the encoder puts region id k at bit k{bw:+d}, so this is its inverse '
                f'only if the ids are exactly 1..n. With regions {{"a": 1, "c": 3}} (AUTO_INCREMENT gaps arise from the start-up INSERT ... ON DUPLICATE KEY UPDATE and from deleted rows; the '
                f'encoder only asserts id < 64) a job restricted to "c" is stored as 0b100 and decoded as position 2 of a 2-element list: IndexError / with {{"a": 1, "c": 3, "d": 4}} as "d"',
                m.path, look.lineno, extra={'container': pf.nsrc(cont), 'index': pf.nsrc(key)})
        return
    raise AnalysisError(f'regions_bits_rep_to_regions: decoder enumerates bit positions and looks regions up in `{short(pf.nsrc(cont), 40)}`: position <-> id correspondence not recognised')


# --------------------------------------------------------------------------------------
# R5: presence, not truthiness
# --------------------------------------------------------------------------------------
# Value descriptors (what a sub-expression of the writer / a reader may evaluate to):
#   ('spec',)  the job spec            ('f', *path)  a field of the job spec, e.g. ('f', 'resources', 'preemptible'), ('f', 'secrets', '[]', 'mount_in_copy')
#   ('L', (set, set, ...))  a list built here, by position        ('L*', set)  a list built by a comprehension        ('D',) a dict built here
#   ('Dv', set)  a dict built by a comprehension, with its values
#   ('c', repr)  a constant            ('b',)  a computed boolean / number            ('?',)  unknown

Desc = Tuple


class _Vals:
    """Flow-insensitive evaluation of expressions of one function to value descriptors."""

    def __init__(self, fn: pf.FuncDef, spec: str, stored: Optional[List[Dict[int, frozenset]]] = None):
        self.fn, self.spec, self.stored = fn, spec, stored
        self.asg = pf.assignments(fn)
        self.memo: Dict[str, frozenset] = {}
        self.busy: set = set()

    def name(self, nme: str, env: Dict[str, frozenset]) -> frozenset:
        if nme in env:
            return env[nme]
        if nme == self.spec:
            return frozenset({('spec',)})
        if nme in self.memo:
            return self.memo[nme]
        if nme in self.busy:
            return frozenset()
        self.busy.add(nme)
        out: set = set()
        defs = self.asg.get(nme)
        if not defs:
            out.add(('?',))
        for d in defs or []:
            if isinstance(d, (ast.For, ast.AsyncFor, ast.comprehension)):
                out |= self.elems(self.ev(d.iter, env)) if isinstance(d.target, ast.Name) else {('?',)}
            elif isinstance(d, ast.expr):
                out |= self.ev(d, env)
            else:
                out.add(('?',))
        self.busy.discard(nme)
        self.memo[nme] = frozenset(out)
        return self.memo[nme]

    def elems(self, ds: frozenset) -> set:
        out: set = set()
        for d in ds:
            if d[0] == 'f':
                out.add(d + ('[]',))
            elif d[0] == 'L':
                for e in d[1]:
                    out |= e
            elif d[0] == 'L*':
                out |= d[1]
            elif d[0] == 'c':
                continue
            else:
                out.add(('?',))
        return out

    def key(self, ds: frozenset, k: str) -> set:
        out: set = set()
        for d in ds:
            if d[0] == 'spec':
                out.add(('f', k))
            elif d[0] == 'f':
                out.add(d + (k,))
            elif d[0] in ('D', 'c'):
                out.add(('c', 'None'))
            else:
                out.add(('?',))
        return out

    def ev(self, e: ast.AST, env: Dict[str, frozenset]) -> frozenset:
        e = cf.unroll_literal_comprehension(e)
        if isinstance(e, ast.Name):
            return self.name(e.id, env)
        if isinstance(e, ast.Constant):
            return frozenset({('c', repr(e.value))})
        if isinstance(e, ast.Call):
            f = e.func
            if isinstance(f, ast.Name) and f.id in ('int', 'bool') and len(e.args) == 1:
                return self.ev(e.args[0], env)
            if isinstance(f, ast.Name) and f.id in ('list', 'tuple', 'sorted') and len(e.args) == 1:
                return self.ev(e.args[0], env)
            if isinstance(f, ast.Attribute) and f.attr == 'get' and e.args:
                k = pf.const_str(e.args[0])
                base = self.ev(f.value, env)
                out = self.key(base, k) if k is not None else {('?',)}
                if len(e.args) > 1:
                    out |= self.ev(e.args[1], env)
                return frozenset(out)
            if isinstance(f, ast.Name) and f.id in ('len', 'isinstance', 'all', 'any'):
                return frozenset({('b',)})
            if isinstance(f, ast.Attribute) and f.attr == 'values' and not e.args:
                base = self.ev(f.value, env)
                if base and all(d[0] == 'Dv' for d in base):
                    return frozenset({('L*', frozenset().union(*[d[1] for d in base]))})
            return frozenset({('?',)})
        if isinstance(e, ast.Subscript):
            base = self.ev(e.value, env)
            k = pf.const_str(e.slice)
            if k is not None:
                return frozenset(self.key(base, k))
            if isinstance(e.slice, ast.Constant) and isinstance(e.slice.value, int):
                i = e.slice.value
                out: set = set()
                for d in base:
                    if d[0] == 'spec' and self.stored is not None:
                        for lst in self.stored:
                            out |= lst.get(i, frozenset())
                    elif d[0] == 'L':
                        out |= d[1][i] if -len(d[1]) <= i < len(d[1]) else set()
                    elif d[0] == 'L*':
                        out |= d[1]
                    elif d[0] == 'c':
                        continue
                    else:
                        out.add(('?',))
                return frozenset(out)
            return frozenset(self.elems(base))
        if isinstance(e, (ast.List, ast.Tuple)):
            return frozenset({('L', tuple(self.ev(x, env) for x in e.elts))})
        if isinstance(e, ast.Dict):
            return frozenset({('D',)})
        if isinstance(e, ast.DictComp):
            env2 = dict(env)
            for g in e.generators:
                if isinstance(g.target, ast.Name):
                    env2[g.target.id] = frozenset(self.elems(self.ev(g.iter, env2)))
            return frozenset({('Dv', self.ev(e.value, env2))})
        if isinstance(e, (ast.ListComp, ast.GeneratorExp, ast.SetComp)):
            env2 = dict(env)
            for g in e.generators:
                it = self.ev(g.iter, env2)
                if isinstance(g.target, ast.Name):
                    env2[g.target.id] = frozenset(self.elems(it))
                else:
                    for x in ast.walk(g.target):
                        if isinstance(x, ast.Name):
                            env2[x.id] = frozenset({('?',)})
            return frozenset({('L*', self.ev(e.elt, env2))})
        if isinstance(e, ast.BoolOp):
            out2: set = set()
            for v in e.values:
                out2 |= self.ev(v, env)
            return frozenset(out2)
        if isinstance(e, ast.IfExp):
            return self.ev(e.body, env) | self.ev(e.orelse, env)
        if isinstance(e, (ast.Compare, ast.UnaryOp, ast.BinOp)):
            return frozenset({('b',)})
        return frozenset({('?',)})


def _const_truth(e: ast.AST) -> Optional[bool]:
    if isinstance(e, ast.Constant):
        return bool(e.value)
    if isinstance(e, (ast.List, ast.Tuple, ast.Dict, ast.Set)):
        return bool(e.elts if not isinstance(e, ast.Dict) else e.keys)
    return None


def _truth_leaves(e: ast.AST, env: Dict[str, frozenset], V: _Vals, out: List[Tuple[ast.AST, frozenset, str]], how: str = '') -> None:
    """Sub-expressions of a tested expression whose TRUTHINESS decides the test, with their value descriptors."""
    if isinstance(e, ast.BoolOp):
        for v in e.values:
            _truth_leaves(v, env, V, out, how)
    elif isinstance(e, ast.UnaryOp) and isinstance(e.op, ast.Not):
        _truth_leaves(e.operand, env, V, out, how)
    elif isinstance(e, ast.Call) and isinstance(e.func, ast.Name) and e.func.id == 'bool' and len(e.args) == 1:
        _truth_leaves(e.args[0], env, V, out, how)
    elif isinstance(e, ast.Call) and isinstance(e.func, ast.Name) and e.func.id in ('all', 'any') and len(e.args) == 1:
        a = cf.unroll_literal_comprehension(e.args[0])
        h = f'{e.func.id}(...) over '
        if isinstance(a, (ast.GeneratorExp, ast.ListComp)):
            env2 = dict(env)
            for g in a.generators:
                if isinstance(g.target, ast.Name):
                    env2[g.target.id] = frozenset(V.elems(V.ev(g.iter, env2)))
                for c in g.ifs:
                    _truth_leaves(c, env2, V, out, how)
            _truth_leaves(a.elt, env2, V, out, h)
        elif isinstance(a, (ast.List, ast.Tuple)):
            for x in a.elts:
                _truth_leaves(x, env, V, out, h)
        else:
            out.append((a, frozenset(V.elems(V.ev(a, env))), h + 'the elements of '))
    elif isinstance(e, ast.NamedExpr):
        _truth_leaves(e.value, env, V, out, how)
    elif isinstance(e, (ast.Compare, ast.Constant)):
        # presence tests (`is not None`, `in`) and comparisons yield computed booleans: recorded as presence instances by the caller
        if isinstance(e, ast.Compare) and len(e.ops) == 1 and isinstance(e.ops[0], (ast.Is, ast.IsNot, ast.In, ast.NotIn)):
            tgt = e.left if isinstance(e.ops[0], (ast.Is, ast.IsNot)) else e.comparators[0]
            ds = V.ev(tgt, env)
            if any(d[0] in ('f', 'L', 'L*') for d in ds):
                out.append((e, frozenset({('presence',)}), how))
    else:
        out.append((e, V.ev(e, env), how))


def _truth_tests(fn: pf.FuncDef, V: _Vals) -> List[Tuple[ast.AST, frozenset, str, int]]:
    """Every place in fn where the truthiness of a value is consulted: if/while/conditional-expression/assert tests, comprehension filters,
    non-final operands of and/or.  Value-preserving coercions are not tests: `1 if x else 0`, `x or <falsy constant>`."""
    out: List[Tuple[ast.AST, frozenset, str, int]] = []
    tested: set = set()
    leaves: set = set()

    def add(e: ast.AST, env: Dict[str, frozenset]) -> None:
        if id(e) in tested:
            return
        tested.add(id(e))
        acc: List[Tuple[ast.AST, frozenset, str]] = []
        _truth_leaves(e, env, V, acc)
        for x, ds, how in acc:
            if id(x) not in leaves:
                leaves.add(id(x))
                out.append((x, ds, how, getattr(x, 'lineno', getattr(e, 'lineno', 0))))

    def comp_env(node: ast.AST, env: Dict[str, frozenset]) -> Dict[str, frozenset]:
        env2 = dict(env)
        for g in node.generators:  # type: ignore[attr-defined]
            if isinstance(g.target, ast.Name):
                env2[g.target.id] = frozenset(V.elems(V.ev(g.iter, env2)))
        return env2

    def walk(n: ast.AST, env: Dict[str, frozenset]) -> None:
        if isinstance(n, (ast.FunctionDef, ast.AsyncFunctionDef, ast.Lambda, ast.ClassDef)) and n is not fn:
            return
        if isinstance(n, (ast.If, ast.While, ast.Assert)):
            add(n.test, env)
        elif isinstance(n, ast.IfExp):
            tb, fb = _const_truth(n.body), _const_truth(n.orelse)
            if not (tb is True and fb is False):
                add(n.test, env)
            else:
                tested.add(id(n.test))
        elif isinstance(n, ast.BoolOp):
            last = n.values[-1]
            harmless_default = isinstance(n.op, ast.Or) and _const_truth(last) is False
            if id(n) not in tested and not harmless_default:
                for v in n.values[:-1]:
                    add(v, env)
        elif isinstance(n, (ast.ListComp, ast.GeneratorExp, ast.SetComp, ast.DictComp)):
            env = comp_env(n, env)
            for g in n.generators:
                for c in g.ifs:
                    add(c, env)
        for c in ast.iter_child_nodes(n):
            walk(c, env)
    walk(fn, {})
    return out


def _field_verdict(schema: 'cf.Schema', d: Desc) -> Tuple[str, str]:
    """('flag', why) | ('ok', why) | ('unknown', why) for testing the truthiness of a value described by d."""
    if d[0] in ('c', 'b', 'spec', 'D', 'Dv', 'presence'):
        return 'ok', d[0]
    if d[0] == 'L':
        return 'ok', 'non-empty list literal' if d[1] else 'empty list'
    if d[0] == 'L*':
        return 'ok', 'rebuilt list (empty iff its source is)'
    if d[0] != 'f':
        return 'unknown', 'value not recognised'
    path = d[1:]
    name = '.'.join(path).replace('.[]', '[]')
    sc = cf.field_schema(schema, path)
    if sc is None:
        return 'unknown', f'the domain of `{name}` is not given by the validator'
    if sc.falsy is None:
        return 'ok', f'`{name}` is never falsy ({sc.origin})'
    if sc.falsy == 'unknown':
        return 'unknown', f'cannot tell whether `{name}` ({sc.origin}) can be falsy'
    req = cf.field_required(schema, path)
    if sc.kind in ('str', 'list', 'dict') and req is False:
        return 'ok', f'optional {sc.kind} `{name}`: empty is read as absent'
    return 'flag', f'`{name}` ({sc.origin}) can legitimately be {sc.falsy}'


def _check_truthiness(ctx: Ctx, m: pf.Module, current: int) -> List[str]:
    """R5: in the writer and the readers, a value whose domain contains a legitimate falsy value (False, 0, '' of a required string) must be tested for
    PRESENCE (`is not None`, `in`), never for truthiness, and an absent field must not be replaced by a truthy default."""
    schema = cf.job_schema()
    w = m.func(f'{CLS}.db_spec')
    spec = [a.arg for a in w.args.args][1]
    VW = _Vals(w, spec)
    # what the writer stores at each position of the compact list(s)
    stored: List[Dict[int, frozenset]] = []
    for n in pf.walk_shallow(w):
        if isinstance(n, ast.Return) and isinstance(n.value, ast.List):
            stored.append({i: VW.ev(e, {}) for i, e in enumerate(n.value.elts)})
    ctx.need(stored, 'db_spec: no compact list is returned')
    fns = [('db_spec', w, VW)]
    undecided: List[str] = []
    for rname in READERS:
        r = m.func(f'{CLS}.{rname}')
        fns.append((rname, r, _Vals(r, [a.arg for a in r.args.args][1], stored)))
    for fname, fn, V in fns:
        for e, ds, how, line in _truth_tests(fn, V):
            cons = f'{F}::{CLS}.{fname}::truth test `{short(pf.nsrc(e), 60)}`'
            verdicts = [(_field_verdict(schema, d), d) for d in sorted(ds, key=repr)]
            flags = [(v, d) for v, d in verdicts if v[0] == 'flag']
            unknown = [(v, d) for v, d in verdicts if v[0] == 'unknown']
            if flags:
                why = '; '.join(sorted({v[1] for v, _ in flags}))
                tag = '.'.join(flags[0][1][1:]).replace('.[]', '[]')
                ctx.bad('R5', cons, f'`{short(pf.nsrc(e), 60)}` is tested for truthiness ({how}its value), but {why}: a job spec carrying that legitimate value takes the "absent" branch, so '
                        + ('what db_spec stores' if fname == 'db_spec' else f'what {fname} returns') + f' for `{tag}` differs from what was submitted (test presence: `is not None`)',
                        m.path, line, extra={'values': [repr(d) for _, d in flags]})
            elif unknown and spec_related(fn, V, e):
                undecided.append(f'{cons}: {unknown[0][0][1]}')
            elif any(d[0] in ('f', 'L', 'L*', 'presence') for d in ds):
                ctx.ok('R5', cons, sorted({v[1] for v, _ in verdicts}))
    # absent field replaced by a truthy default on its way into / out of the stored form
    for fname, fn, V in fns:
        outs: List[ast.AST] = []
        for n in pf.walk_shallow(fn):
            if isinstance(n, ast.Return) and n.value is not None:
                outs.append(n.value)
                # every local the returned value is computed from
                for nme in sorted(cf.depends_on(fn, n.value)):
                    outs += [d for d in V.asg.get(nme, []) if isinstance(d, ast.expr)]
        seen_b: set = set()
        for o in outs:
            for b in ast.walk(o):
                if id(b) in seen_b:
                    continue
                seen_b.add(id(b))
                if isinstance(b, ast.BoolOp) and isinstance(b.op, ast.Or) and _const_truth(b.values[-1]) is True:
                    ds = frozenset().union(*[V.ev(v, {}) for v in b.values[:-1]])
                    live = [d for d in ds if d[0] == 'f' and not (cf.field_required(schema, d[1:]) is True and (sc_ := cf.field_schema(schema, d[1:])) is not None and sc_.falsy is None)]
                    if live:
                        fields = sorted('.'.join(d[1:]).replace('.[]', '[]') for d in live)
                        ctx.bad('R5', f'{F}::{CLS}.{fname}::default `{short(pf.nsrc(b), 60)}`', f'`{short(pf.nsrc(b), 60)}` substitutes the truthy default `{pf.nsrc(b.values[-1])}` when '
                                f'{fields[0]} is absent (or falsy): a job submitted without it is read back WITH that value', m.path, b.lineno)
    return undecided


def spec_related(fn: pf.FuncDef, V: _Vals, e: ast.AST) -> bool:
    return V.spec in cf.depends_on(fn, e)


# --------------------------------------------------------------------------------------
# R6: the region set at its store site (front end) and load sites (drivers)
# --------------------------------------------------------------------------------------

ENC, DEC, COL, RKEY = 'regions_to_bits_rep', 'regions_bits_rep_to_regions', 'regions_bits_rep', 'regions'
_SET_PRESERVING = {'sorted', 'list', 'tuple', 'set', 'frozenset'}


def _callee_is(c: ast.AST, name: str) -> bool:
    return isinstance(c, ast.Call) and ((isinstance(c.func, ast.Name) and c.func.id == name) or (isinstance(c.func, ast.Attribute) and c.func.attr == name))


def _regions_map_key(fn: pf.FuncDef, e: ast.AST) -> Optional[str]:
    """`app['regions']` / `self.app['regions']` / `request.app['regions']` (possibly through a single-definition local) -> 'regions'"""
    e = pf.resolve_expr(fn, e)
    if isinstance(e, ast.Subscript) and (pf.dotted(e.value) or '').split('.')[-1] == 'app':
        return pf.const_str(e.slice)
    return None


def _peel_set(e: ast.AST) -> ast.AST:
    while isinstance(e, ast.Call) and isinstance(e.func, ast.Name) and e.func.id in _SET_PRESERVING and len(e.args) == 1 and all(k.arg in ('key', 'reverse') for k in e.keywords):
        e = e.args[0]
    return e


def _spec_field_origin(fn: pf.FuncDef, arg: ast.AST) -> Tuple[Optional[str], Optional[str], ast.AST]:
    """The list handed to the encoder, traced to `<spec>.get(key)` / `<spec>[key]`: (how it was cut down / defaulted on the way or None, key or None, the origin expression)."""
    a0 = _peel_set(arg)
    origin: ast.AST = a0
    if isinstance(a0, ast.Name):
        d = pf.single_def(fn, a0.id)
        if d is None or not isinstance(d, ast.expr):
            return None, None, a0
        origin = d
    lossy = None
    if isinstance(origin, ast.Subscript) and isinstance(origin.slice, ast.Slice):
        lossy = f'only the slice `{pf.nsrc(origin)}` of the selected regions is encoded'
        origin = origin.value
        if isinstance(origin, ast.Name) and isinstance(pf.single_def(fn, origin.id), ast.expr):
            origin = pf.single_def(fn, origin.id)  # type: ignore[assignment]
    if isinstance(origin, ast.BoolOp) and isinstance(origin.op, ast.Or) and len(origin.values) == 2:
        lossy = lossy or f'a job WITHOUT `regions` is given `{short(pf.nsrc(origin.values[1]), 50)}`'
        origin = origin.values[0]
    okey = None
    if isinstance(origin, ast.Call) and isinstance(origin.func, ast.Attribute) and origin.func.attr == 'get' and origin.args \
            and (len(origin.args) == 1 or (isinstance(origin.args[1], ast.Constant) and origin.args[1].value is None)) and _regions_map_key(fn, origin.func.value) is None \
            and (pf.dotted(origin.func.value) or '').split('.')[-1] != 'app':
        okey = pf.const_str(origin.args[0])
    elif isinstance(origin, ast.Subscript) and (pf.dotted(origin.value) or '').split('.')[-1] != 'app':
        okey = pf.const_str(origin.slice)
    return lossy, okey, origin


def _block_of(fn: pf.FuncDef, name: str) -> List[ast.stmt]:
    """The shortest run of consecutive statements of one block of fn that contains every assignment to `name`."""
    holders: List[ast.AST] = []
    for n in pf.walk_shallow(fn):
        if isinstance(n, ast.Name) and n.id == name and isinstance(n.ctx, (ast.Store, ast.Del)):
            holders.append(n)

    def blocks(node: ast.AST):
        for fld in ('body', 'orelse', 'finalbody'):
            b = getattr(node, fld, None)
            if isinstance(b, list) and b and isinstance(b[0], ast.stmt):
                yield b
        for h in getattr(node, 'handlers', []) or []:
            yield h.body
    best: Optional[List[ast.stmt]] = None

    def rec(node: ast.AST) -> None:
        nonlocal best
        for b in blocks(node):
            idx = [i for i, st in enumerate(b) if any(any(x is h for x in ast.walk(st)) for h in holders)]
            n_in = sum(1 for h in holders if any(any(x is h for x in ast.walk(st)) for st in b))
            if n_in == len(holders) and idx:
                best = b[idx[0]:idx[-1] + 1]
                if len(idx) == 1:
                    rec(b[idx[0]])
    rec(fn)
    if best is None:
        raise AnalysisError(f'{fn.name}: assignments to `{name}` not found in one block')
    return best


class _Case:
    """Abstract execution of a statement run: tests are decided by `val`; the last value assigned to each tracked name is kept."""

    def __init__(self, tracked: Sequence[str], val):
        self.tracked, self.val = set(tracked), val
        self.env: Dict[str, ast.AST] = {}
        self.ret: Optional[ast.AST] = None

    def _assigns_tracked(self, st: ast.AST) -> bool:
        return any(isinstance(x, ast.Name) and x.id in self.tracked and isinstance(x.ctx, (ast.Store, ast.Del)) for x in ast.walk(st))

    def run(self, stmts: Sequence[ast.stmt]) -> str:
        """'fall' | 'raise' | 'return' | 'leave' (break / continue)"""
        for st in stmts:
            if isinstance(st, ast.If):
                k = self.run(st.body if absdom.eval_bool(st.test, self.val) else st.orelse)
                if k != 'fall':
                    return k
            elif isinstance(st, ast.Raise):
                return 'raise'
            elif isinstance(st, ast.Return):
                self.ret = st.value if st.value is not None else ast.Constant(value=None)
                return 'return'
            elif isinstance(st, (ast.Break, ast.Continue)):
                return 'leave'
            elif isinstance(st, (ast.With, ast.AsyncWith)):
                k = self.run(st.body)
                if k != 'fall':
                    return k
            elif isinstance(st, (ast.Assign, ast.AnnAssign)) and self._assigns_tracked(st):
                tg = st.targets[0] if isinstance(st, ast.Assign) and len(st.targets) == 1 else getattr(st, 'target', None)
                if not isinstance(tg, ast.Name) or st.value is None:
                    raise AnalysisError(f'line {st.lineno}: `{short(pf.nsrc(st), 60)}` assigns a tracked name in a form that is not analysed')
                v = st.value
                while isinstance(v, ast.IfExp):
                    v = v.body if absdom.eval_bool(v.test, self.val) else v.orelse
                self.env[tg.id] = v
            elif self._assigns_tracked(st):
                raise AnalysisError(f'line {st.lineno}: `{short(pf.nsrc(st).splitlines()[0], 60)}` assigns a tracked name inside a statement that is not analysed')
            # any other statement (loops / try blocks that do not touch the tracked names included) does not change what reaches the end of the run
        return 'fall'


def _atoms_of(stmts: Sequence[ast.stmt]) -> List[ast.AST]:
    atoms: List[ast.AST] = []
    for st in stmts:
        for n in ast.walk(st):
            if isinstance(n, (ast.If, ast.IfExp)):
                absdom.bool_atoms(n.test, atoms)
    return atoms


def _presence_atom(a: ast.AST, is_x, state: str, truthy_when_present: Optional[bool]) -> Optional[bool]:
    """Value of a test atom about X for X in state 'absent' (None) | 'empty' | 'nonempty'; None = not a test this domain decides."""
    present = state != 'absent'
    if is_x(a):
        return False if not present else (state == 'nonempty' if truthy_when_present is None else truthy_when_present)
    if isinstance(a, ast.Compare) and len(a.ops) == 1:
        l, op, r = a.left, a.ops[0], a.comparators[0]
        none_r = isinstance(r, ast.Constant) and r.value is None
        none_l = isinstance(l, ast.Constant) and l.value is None
        if (is_x(l) and none_r) or (is_x(r) and none_l):
            if isinstance(op, (ast.Is, ast.Eq)):
                return not present
            if isinstance(op, (ast.IsNot, ast.NotEq)):
                return present
        if is_x(l) and isinstance(r, (ast.List, ast.Tuple)) and not r.elts and isinstance(op, (ast.Eq, ast.NotEq)) and truthy_when_present is None:
            return (state == 'empty') == isinstance(op, ast.Eq)
        if isinstance(l, ast.Call) and pf.dotted(l.func) == 'len' and len(l.args) == 1 and is_x(_peel_set(l.args[0])) and isinstance(r, ast.Constant) \
                and isinstance(r.value, int) and not isinstance(r.value, bool) and present and truthy_when_present is None:
            c = r.value
            f = {ast.Eq: lambda n: n == c, ast.NotEq: lambda n: n != c, ast.Lt: lambda n: n < c, ast.LtE: lambda n: n <= c, ast.Gt: lambda n: n > c, ast.GtE: lambda n: n >= c}.get(type(op))
            if f is not None:
                if state == 'empty':
                    return f(0)
                # {n >= 1}: decided only when the comparison is constant on it (its threshold lies at 0 / 1)
                if c <= 0 or (c == 1 and isinstance(op, (ast.Lt, ast.GtE))):
                    return f(1)
    if isinstance(a, ast.Call) and pf.dotted(a.func) == 'isinstance' and len(a.args) == 2 and is_x(a.args[0]):
        types = {pf.nsrc(t) for t in (a.args[1].elts if isinstance(a.args[1], ast.Tuple) else [a.args[1]])}
        if types <= {'list', 'tuple', 'List', 'Sequence', 'int'}:
            return present
    return None


def _case_split(ctx: Ctx, stmts: Sequence[ast.stmt], tracked: Sequence[str], is_x, states: Sequence[str], truthy_when_present: Optional[bool], who: str):
    """[(state, {free atom: value}, outcome kind, env, returned value)] over all states of X and all valuations of the tests the domain does not decide."""
    atoms = _atoms_of(stmts)
    out = []
    for stt in states:
        free = [absdom.atom_key(a) for a in atoms if _presence_atom(a, is_x, stt, truthy_when_present) is None]
        free = list(dict.fromkeys(free))
        ctx.need(len(free) <= 7, f'{who}: too many data-dependent tests ({len(free)})')
        seen = set()
        for fv in absdom.valuations(free):
            def val(a: ast.AST, stt=stt, fv=fv) -> bool:
                x = _presence_atom(a, is_x, stt, truthy_when_present)
                return x if x is not None else fv[absdom.atom_key(a)]
            c = _Case(tracked, val)
            kind = c.run(stmts)
            sig = (kind, tuple(sorted((k, id(v)) for k, v in c.env.items())), id(c.ret))
            if sig in seen:
                continue
            seen.add(sig)
            # only the tests whose outcome matters on this path are part of the witness: flipping any other one alone leaves the result unchanged
            rel: Dict[str, bool] = {}
            for k in fv:
                fv2 = dict(fv)
                fv2[k] = not fv[k]

                def val2(a: ast.AST, stt=stt, fv2=fv2) -> bool:
                    x = _presence_atom(a, is_x, stt, truthy_when_present)
                    return x if x is not None else fv2[absdom.atom_key(a)]
                c2 = _Case(tracked, val2)
                k2 = c2.run(stmts)
                if (k2, tuple(sorted((kk, id(v)) for kk, v in c2.env.items())), id(c2.ret)) != sig:
                    rel[k] = fv[k]
            out.append((stt, rel, kind, c.env, c.ret))
    return out


def _fv_text(fv: Dict[str, bool], relevant: Sequence[ast.AST] = ()) -> str:
    parts = [f'`{short(k, 60)}` is {"true" if v else "false"}' for k, v in fv.items()]
    return ('when ' + ' and '.join(parts)) if parts else 'on every accepted path'


def _insert_columns(m: pf.Module, table: str, col: str) -> Optional[List[str]]:
    """Column list of the `INSERT INTO <table> (...)` statement (a string constant of the module) that mentions col."""
    found = None
    for n in ast.walk(m.tree):
        if isinstance(n, ast.Constant) and isinstance(n.value, str) and col in n.value:
            low = ' '.join(n.value.split())
            head = f'INSERT INTO {table} ('
            i = low.find(head)
            if i < 0:
                continue
            cols = [c.strip(' `') for c in low[i + len(head):low.index(')', i)].split(',')]
            if col in cols:
                if found is not None and found != cols:
                    return None
                found = cols
    return found


def _check_region_sites(ctx: Ctx) -> None:
    roots = ['batch/batch/front_end', 'batch/batch/driver'] if ctx.tier != 'thorough' else ['batch/batch']
    files = [f for f in pf.walk_py(roots) if f != FU]
    enc_sites, dec_sites = [], []
    from engines.common import read_repo
    for rel in files:
        txt = read_repo(rel)
        if ENC not in txt and DEC not in txt:
            continue
        m = pf.load(rel)
        for n in ast.walk(m.tree):
            if _callee_is(n, ENC):
                enc_sites.append((m, n))
            elif _callee_is(n, DEC):
                dec_sites.append((m, n))
    ctx.need(enc_sites, f'no call of {ENC} under {roots}')
    ctx.need(dec_sites, f'no call of {DEC} under {roots}')
    empty_rejected = True
    # several encoder calls assigning the same local of one function form ONE store site (one of them encodes the job's list, the others are alternative values)
    groups: Dict[Tuple[str, str, str], List[ast.Call]] = {}
    for m, call in enc_sites:
        fn = m.enclosing_func(call)
        st = m.parents().get(call)
        while st is not None and not isinstance(st, ast.stmt):
            st = m.parents().get(st)
        tg = st.targets[0] if isinstance(st, ast.Assign) and len(st.targets) == 1 else getattr(st, 'target', None)
        groups.setdefault((m.rel, m.qualname(fn) if fn is not None else '', tg.id if isinstance(tg, ast.Name) else f'line {call.lineno}'), []).append(call)
    for (rel, _, _), calls in groups.items():
        m = pf.load(rel)
        fn = m.enclosing_func(calls[0])
        primary = [c for c in calls if fn is not None and len(c.args) == 2 and _spec_field_origin(fn, c.args[0])[1] is not None] or calls
        empty_rejected = _store_site(ctx, m, primary[0]) and empty_rejected
    for m, call in dec_sites:
        _load_site(ctx, m, call, empty_rejected)
    ctx.unit('region_store_sites', len(enc_sites))
    ctx.unit('region_load_sites', len(dec_sites))


def _store_site(ctx: Ctx, m: pf.Module, call: ast.Call) -> bool:
    """The bit set is computed from the job's `regions` exactly when the job has one.  Returns whether an empty list is rejected before the store."""
    fn = m.enclosing_func(call)
    ctx.need(fn is not None and len(call.args) == 2 and not call.keywords, f'{m.rel}: {ENC} call at line {call.lineno} is not {ENC}(selected, mapping) inside a function')
    q = m.qualname(fn)
    base = f'{m.rel}::{q}::stored {COL}'
    par = m.parents()
    st = par.get(call)
    while st is not None and not isinstance(st, ast.stmt):
        st = par.get(st)
    ctx.need(isinstance(st, (ast.Assign, ast.AnnAssign)) and isinstance(st.targets[0] if isinstance(st, ast.Assign) else st.target, ast.Name),
             f'{base}: `{short(pf.nsrc(st) if st is not None else "?", 60)}` does not assign the encoded set to a local')
    V = (st.targets[0] if isinstance(st, ast.Assign) else st.target).id  # type: ignore[union-attr]
    # `bits = encode(...)` ... `regions_bits_rep = bits`: the stored variable is the one the single-definition local is copied into
    for _ in range(2):
        copies = [n.targets[0].id for n in pf.walk_shallow(fn) if isinstance(n, ast.Assign) and len(n.targets) == 1 and isinstance(n.targets[0], ast.Name)
                  and isinstance(n.value, ast.Name) and n.value.id == V]
        if len(set(copies)) == 1 and isinstance(pf.single_def(fn, V), ast.expr):
            V = copies[0]
    # the mapping
    key = _regions_map_key(fn, call.args[1])
    ctx.need(key is not None, f'{base}: mapping argument `{pf.nsrc(call.args[1])}` is not <app>[...]')
    ctx.check(key == RKEY, 'R6', base + '::mapping', f'{ENC} is given `{pf.nsrc(call.args[1])}`, not the region-name -> id mapping app[\'{RKEY}\'] the drivers decode with: '
              'the stored bits denote other regions', m.path, call.lineno)
    # the selected list: the job spec's `regions`
    a0 = _peel_set(call.args[0])
    sel_texts: set = set()
    if isinstance(a0, ast.Name):
        sel_texts.add(a0.id)
        ctx.need(isinstance(pf.single_def(fn, a0.id), ast.expr), f'{base}: `{a0.id}` is assigned more than once')
    lossy, okey, origin = _spec_field_origin(fn, call.args[0])
    ctx.need(okey is not None, f'{base}: the encoded list `{short(pf.nsrc(call.args[0]), 40)}` = `{short(pf.nsrc(origin), 50)}` is not the `{RKEY}` field of the job spec')
    sel_texts.add(pf.nsrc(origin))
    if lossy is not None or okey != RKEY:
        ctx.bad('R6', base + '::encodes the selected regions', (lossy or f'the encoded list is spec[{okey!r}], not spec[{RKEY!r}]') + f': the stored {COL} does not denote the region set the job selected, '
                'so the drivers recover a different set', m.path, call.lineno)
        return True

    def is_x(e: ast.AST) -> bool:
        return pf.nsrc(_peel_set(e)) in sel_texts
    stmts = _block_of(fn, V)
    cases = _case_split(ctx, stmts, [V], is_x, ['absent', 'empty', 'nonempty'], None, base)
    atoms = _atoms_of(stmts)
    bad_present, bad_absent, unassigned, other = [], [], [], []
    empty_stored = False
    for stt, fv, kind, env, _ in cases:
        if kind != 'fall':
            continue  # rejected (raise) or the job is skipped: nothing is stored on this path
        v = env.get(V)
        if v is None:
            unassigned.append((stt, fv))
            continue
        if isinstance(v, ast.Name):
            v = pf.resolve_expr(fn, v)  # `bits = encode(...)` ... `regions_bits_rep = bits`
        is_enc = _callee_is(v, ENC) and len(v.args) == 2 and is_x(v.args[0])  # type: ignore[attr-defined]
        is_null = isinstance(v, ast.Constant) and v.value is None
        if stt == 'empty' and (is_enc or is_null):
            empty_stored = True
        if stt == 'absent':
            if not is_null and not is_enc:
                bad_absent.append((fv, v))
        elif is_null:
            bad_present.append((stt, fv, v))
        elif not is_enc:
            other.append((stt, fv, v))
    ctx.need(not unassigned, f'{base}: on some path `{V}` is not assigned next to the other assignments (reaching definition not analysed)')
    ctx.need(not other, f'{base}: `{V}` is also assigned `{short(pf.nsrc(other[0][2]), 50)}`, which is neither {ENC}(<selected>, ...) nor None' if other else '')
    if bad_present:
        stt, fv, v = bad_present[0]
        cond = _fv_text(fv)
        ctx.bad('R6', base + '::a selected set is stored as its bit set',
                f'a job that selects regions ({"an empty list" if stt == "empty" else "a non-empty `regions` list"}) is stored with {COL} = NULL {cond} (`{V} = None` instead of '
                f'{ENC}({sorted(sel_texts)[0]}, app[\'{RKEY}\'])). The drivers read NULL as "every region the instance collection supports at scheduling time" '
                '(pool.all_supported_regions / inst_coll_manager.regions), so the region set recovered for the job is the deployment\'s CURRENT list, not the set the job selected: '
                'a job restricted to {us-central1, us-east1} that waits while a third region is added is scheduled there',
                m.path, getattr(v, 'lineno', call.lineno), extra={'condition': {k: fv[k] for k in fv}})
    else:
        ctx.ok('R6', base + '::a selected set is stored as its bit set', {'cases': len(cases)})
    if bad_absent:
        fv, v = bad_absent[0]
        ctx.bad('R6', base + '::no selection is stored as NULL', f'a job WITHOUT `regions` is stored with {COL} = `{short(pf.nsrc(v), 60)}` {_fv_text(fv)}: it is pinned to the regions known at '
                'submission, although it selected none (the drivers recover a concrete set for a job that has none)', m.path, getattr(v, 'lineno', call.lineno))
    else:
        ctx.ok('R6', base + '::no selection is stored as NULL', None)
    # the value reaches the INSERT at the position of its column
    cols = _insert_columns(m, 'jobs', COL)
    ctx.need(cols is not None, f'{m.rel}: the `INSERT INTO jobs (...)` statement with column {COL} was not found (or there are several different ones)')
    tuples = [t for t in ast.walk(fn) if isinstance(t, ast.Tuple) and isinstance(t.ctx, ast.Load) and len(t.elts) == len(cols) and any(isinstance(x, ast.Name) and x.id == V for x in t.elts)]  # type: ignore[arg-type]
    ctx.need(len(tuples) == 1, f'{base}: {len(tuples)} argument tuples of {len(cols)} values mention `{V}`')  # type: ignore[arg-type]
    i = cols.index(COL)  # type: ignore[union-attr]
    at = tuples[0].elts[i]
    where = [cols[j] for j, x in enumerate(tuples[0].elts) if isinstance(x, ast.Name) and x.id == V]  # type: ignore[index]
    ctx.check(isinstance(at, ast.Name) and at.id == V, 'R6', base + '::column position', f'the INSERT lists {COL} as column {i + 1} but the argument tuple has `{short(pf.nsrc(at), 40)}` there '
              f'(`{V}` is passed for {where}): the bit set is stored in another column and {COL} receives another value', m.path, tuples[0].lineno)
    return not empty_stored


def _load_site(ctx: Ctx, m: pf.Module, call: ast.Call, empty_rejected: bool) -> None:
    """A stored (non-NULL) bit set is always decoded by the decoder, with the mapping it was encoded with, from the unmodified column value."""
    fn = m.enclosing_func(call)
    ctx.need(fn is not None and len(call.args) == 2 and not call.keywords, f'{m.rel}: {DEC} call at line {call.lineno} is not {DEC}(bits, mapping) inside a function')
    q = m.qualname(fn)
    base = f'{m.rel}::{q}::decoded {COL}'
    par = m.parents()
    key = _regions_map_key(fn, call.args[1])
    ctx.need(key is not None, f'{base}: mapping argument `{pf.nsrc(call.args[1])}` is not <app>[...]')
    # the operand is the stored column
    b = call.args[0]
    btexts = {pf.nsrc(b)}
    origin: Optional[ast.AST] = b
    params = {a.arg for a in fn.args.posonlyargs + fn.args.args + fn.args.kwonlyargs}
    if isinstance(b, ast.Name) and b.id in params:
        # a small helper `def extract(bits): ...`: the argument at its call sites in the enclosing function
        outer = m.enclosing_func(fn)
        ctx.need(outer is not None, f'{base}: `{b.id}` is a parameter of a module-level function (call sites not analysed)')
        idx = [a.arg for a in fn.args.args].index(b.id)
        uses = [c for c in ast.walk(outer) if isinstance(c, ast.Call) and isinstance(c.func, ast.Name) and c.func.id == fn.name]  # type: ignore[arg-type]
        refs = [x for x in ast.walk(outer) if isinstance(x, ast.Name) and x.id == fn.name and isinstance(x.ctx, ast.Load)]  # type: ignore[arg-type]
        ctx.need(uses and len(uses) == len(refs) and all(len(c.args) > idx for c in uses), f'{base}: the helper {fn.name} is not only called directly')
        origins = {pf.nsrc(pf.resolve_expr(outer, c.args[idx])) for c in uses}  # type: ignore[arg-type]
        ctx.need(len(origins) == 1, f'{base}: {fn.name} is called with different operands {sorted(origins)}')
        origin = pf.resolve_expr(outer, uses[0].args[idx])  # type: ignore[arg-type]
    elif isinstance(b, ast.Name):
        d = pf.single_def(fn, b.id)
        ctx.need(d is not None and isinstance(d, ast.expr), f'{base}: `{b.id}` is assigned more than once')
        origin = d
        btexts.add(pf.nsrc(d))  # type: ignore[arg-type]
    okey = None
    if isinstance(origin, ast.Subscript):
        okey = pf.const_str(origin.slice)
    elif isinstance(origin, ast.Call) and isinstance(origin.func, ast.Attribute) and origin.func.attr == 'get' and len(origin.args) == 1:
        okey = pf.const_str(origin.args[0])
    ctx.need(okey is not None, f'{base}: operand `{short(pf.nsrc(origin), 50)}` is not a column of the job record')  # type: ignore[arg-type]
    ctx.check(okey == COL and key == RKEY, 'R6', base + '::operand and mapping',
              (f'the decoder is applied to record[{okey!r}], not to the stored {COL}' if okey != COL else
               f'the bit set was encoded with app[\'{RKEY}\'] but is decoded with `{pf.nsrc(call.args[1])}`: bit k denotes another region') + ': the recovered region set differs from the selected one',
              m.path, call.lineno)

    def is_x(e: ast.AST) -> bool:
        return pf.nsrc(e) in btexts
    st = par.get(call)
    while st is not None and not isinstance(st, ast.stmt):
        st = par.get(st)
    if isinstance(st, ast.Return):
        stmts: Sequence[ast.stmt] = af_body(fn)
        tracked: List[str] = []
    else:
        ctx.need(isinstance(st, ast.Assign) and len(st.targets) == 1 and isinstance(st.targets[0], ast.Name), f'{base}: `{short(pf.nsrc(st) if st is not None else "?", 60)}` is neither '
                 'a return nor an assignment to a local')
        tracked = [st.targets[0].id]  # type: ignore[union-attr]
        stmts = _block_of(fn, tracked[0])
    cases = _case_split(ctx, stmts, tracked, is_x, ['absent', 'nonempty'], True if empty_rejected else None, base)
    atoms = _atoms_of(stmts)
    bad = []
    for stt, fv, kind, env, ret in cases:
        if stt == 'absent':
            continue  # NULL = the job selected nothing; what the driver substitutes then is not a stored value
        if tracked:
            if kind != 'fall':
                continue
            v = env.get(tracked[0])
            ctx.need(v is not None, f'{base}: on some path `{tracked[0]}` is not assigned next to the decoder call')
        else:
            if kind == 'raise':
                continue
            ctx.need(kind == 'return', f'{base}: a path of {fn.name} does not return')
            v = ret
        if not (_callee_is(v, DEC) and is_x(v.args[0])):  # type: ignore[union-attr]
            bad.append((fv, v))
    if bad:
        fv, v = bad[0]
        ctx.bad('R6', base + '::a stored bit set is decoded', f'for a job whose {COL} is NOT NULL the regions are taken to be `{short(pf.nsrc(v), 60)}` {_fv_text(fv)}, instead of '
                f'{DEC}({COL}, app[\'{RKEY}\']): the region set recovered for the job is not the one encoded in its stored bit set', m.path, getattr(v, 'lineno', call.lineno))
    else:
        ctx.ok('R6', base + '::a stored bit set is decoded', {'cases': len(cases)})


def af_body(fn: pf.FuncDef) -> List[ast.stmt]:
    body = list(fn.body)
    if body and isinstance(body[0], ast.Expr) and isinstance(body[0].value, ast.Constant) and isinstance(body[0].value.value, str):
        body = body[1:]
    return body


# --------------------------------------------------------------------------------------
# R7: the decoded value is a function of the stored value only (built afresh on every call)
# --------------------------------------------------------------------------------------


def _consumer_files(ctx: Ctx) -> List[str]:
    roots = ['batch/batch/driver', 'batch/batch/front_end'] if ctx.tier != 'thorough' else ['batch/batch']
    return [f for f in pf.walk_py(roots) if f != F]


def _check_fresh(ctx: Ctx, m: pf.Module) -> List[str]:
    """A reader must not hand out an object that outlives the call (memoising decorator on it or on a helper, a module-level cache it stores into): the
    consumers decorate what they get (driver/job.py::job_config adds `data` to every secret and appends a kube-config entry), so a shared object makes the NEXT
    decode of the same stored value return something that was never stored.  Decided per reader on the un-inlined module: which levels of the returned object are
    persistent (exact on recognised shapes), and is there a consumer that mutates that level."""
    fr = cf.Freshness(m)
    undecided: List[str] = []
    from engines.common import read_repo
    consumers = [pf.load(f) for f in _consumer_files(ctx) if 'get_spec_' in read_repo(f)]
    n_sites = 0
    for rname in READERS:
        q = f'{CLS}.{rname}'
        cons = f'{F}::{q}::decoded value is built afresh'
        cone = fr.cone(q)
        unk = [f'{c}: @{d}' for c in cone for d in fr.unknown_decorators(c)]
        if unk:
            undecided.append(f'{cons}: decorator not recognised ({unk[0]}); what the decorated function returns is not analysed')
            continue
        inst = fr.instance_state_writes(cone)
        if inst:
            undecided.append(f'{cons}: the reader (or a helper) writes instance state ({inst[0]}); whether a decoded value is kept across calls on one instance is not analysed')
            continue
        pg = fr.persistent_globals(cone)
        fn = fr.mf.by_q[q]
        rets = [n.value for n in pf.walk_shallow(fn) if isinstance(n, ast.Return) and n.value is not None]
        if fr.memo_of(q) is not None:
            dd = fr.ret_depth(q)
            levels = None if dd is None else set(range(1, dd + 1))
        else:
            levels = set()
            for r in rets:
                lv = fr.shared(q, r, pg)
                if lv is None:
                    levels = None
                    break
                levels |= lv
        if levels is None:
            undecided.append(f'{cons}: cannot decide whether the returned object is kept across calls')
            continue
        sites = 0
        wit: List[cf.Witness] = []
        for cm_ in consumers:
            k, ws = cf.reader_mutations(cm_, rname)
            sites += k
            wit += ws
        n_sites += sites
        if not levels:
            ctx.ok('R7', cons, {'call sites': sites, 'consumer mutations (harmless on a fresh object)': len(wit)})
            continue
        memo = [f'{c} is wrapped in @{fr.memo_of(c)}' for c in cone if fr.memo_of(c) is not None] + [f'the container `{g}`, which outlives the call, is filled by {sorted({x for x, _ in v})[0]}' for g, v in pg.items()]
        lv_txt = ' and '.join({1: 'the returned container itself', 2: 'its elements'}.get(k_, f'level {k_}') for k_ in sorted(levels))
        hit = [w for w in wit if w.level in levels]
        if hit:
            w = hit[0]
            more = f' (and {len(hit) - 1} more: ' + '; '.join(f'`{x.text}` line {x.line}' for x in hit[1:3]) + ')' if len(hit) > 1 else ''
            ctx.bad('R7', cons, f'{rname} hands every caller the SAME object for equal stored values ({"; ".join(memo) or "it returns a module-level / default-value object"}: shared are {lv_txt}), and the consumer '
                    f'{w.rel}::{w.func} mutates what it receives (`{w.text}`, line {w.line}){more}. History: job J1 is decoded and the consumer decorates the result; decoding the '
                    f'identical stored value for job J2 (same user, hence the same compact value) returns the decorated object - e.g. a secrets list that now also holds J1\'s kube-config '
                    f'entry and stale `data` - which is not what was stored. The decoded value must be a function of the stored value only (build it afresh, or copy it deeply)',
                    m.path, fn.lineno, extra={'shared_levels': sorted(levels), 'witnesses': [f'{x.rel}:{x.line} {x.text}' for x in hit[:5]]})
        else:
            undecided.append(f'{cons}: the returned object ({lv_txt}) is shared between calls ({"; ".join(memo)}) and no consumer mutation of it was found in {len(consumers)} file(s); '
                             'aliasing beyond those call sites is not analysed')
    ctx.unit('reader_call_sites', n_sites)
    return undecided


def _inline_module_helpers(m: pf.Module, targets: Sequence[str]) -> Tuple[pf.Module, int]:
    """Copy of m in which calls of module-level helper functions are inlined into the given methods of the class.  A memoising decorator is dropped for this
    purpose only: for ONE call the memoised function returns what its body computes (R7 judges the sharing between calls on the original module)."""
    import copy
    tree = copy.deepcopy(m.tree)
    m2 = pf.Module(m.rel, m.path, m.src, tree)
    helpers: Dict[str, pf.FuncDef] = {}
    for f in tree.body:
        if isinstance(f, (ast.FunctionDef, ast.AsyncFunctionDef)):
            h = copy.deepcopy(f)
            h.decorator_list = [d for d in h.decorator_list if cf.memo_decorator(m, d) is None]
            helpers[f.name] = h
    n = 0
    if not helpers:
        return m, 0
    for t in targets:
        fn = m2.func(f'{CLS}.{t}')
        il = Inliner(helpers, None)
        il.run(fn)
        n += len(il.inlined)
    return (m2, n) if n else (m, 0)


def run(ctx: Ctx) -> None:
    ctx.explanation = ('db_spec and every get_spec_* reader are executed abstractly for each format version 1..BATCH_FORMAT_VERSION (version guards evaluated, data tests enumerated); '
                       'position<->field tables, inner key<->index tables and the linear forms of the region shifts are compared.')
    ctx.rule('R1', 'for every format version each reader reads the position/key at which db_spec stores the like-named field', 5)
    ctx.rule('R2', 'inner records (secret, service account, machine spec): writer index<-key and reader key<-index agree in both directions', 3)
    ctx.rule('R3', 'no reader answers a constant for a version for which the field is not stored (field lost)', 5)
    ctx.rule('R5', 'presence, not truthiness: no field value that can legitimately be falsy (False / 0 / empty required string, per the job validator and the front end) '
                   'is truth-tested in the writer or a reader, and no absent field is replaced by a truthy default', 6)
    ctx.rule('R4', 'region bit set: same linear shift in writer and reader, idempotent accumulation (or: provably distinct terms), bits within [0,62], one-bit mask, '
                   'names returned under the test, every known region tested', 8)
    ctx.rule('R6', 'region set at its store and load sites: a job with `regions` is stored as regions_to_bits_rep(<that list>, app[regions]) on every accepted path and a job without as NULL, '
                   'the value reaches the regions_bits_rep column of the INSERT; every driver decodes a non-NULL column value with the decoder and the same mapping', 10)
    ctx.assume('region ids are distinct integers >= 1 (AUTO_INCREMENT, gaps allowed) and the column is a signed BIGINT')
    ctx.assume('an optional str/list/dict field of the job spec that is empty denotes the same spec as an absent one (front_end normalises `not secrets` to [])')
    ctx.assume('batches keep the format version they were created with; updates of a batch use that stored version (front_end._create_jobs)')
    ctx.rule('R7', 'every reader builds the decoded value afresh from the stored spec: no object that outlives the call (memoised helper, module-level cache) is handed to '
                   'consumers that mutate it', 5)
    m = pf.load(F)
    ctx.unit('files', 2)
    undecided7 = _check_fresh(ctx, m)
    mg = pf.load(FG)
    cur = mg.global_assign('BATCH_FORMAT_VERSION')
    ctx.need(isinstance(cur, ast.Constant) and isinstance(cur.value, int) and 1 <= cur.value <= 64, 'BATCH_FORMAT_VERSION is not a small integer literal')
    current = cur.value  # type: ignore[union-attr]
    # make sure every threshold mentioned in the guards is inside the enumerated range
    for n in ast.walk(m.cls(CLS)):
        if isinstance(n, ast.Compare) and len(n.ops) == 1 and FV in (pf.nsrc(n.left), pf.nsrc(n.comparators[0])):
            for x in (n.left, n.comparators[0]):
                if isinstance(x, ast.Constant) and isinstance(x.value, int):
                    ctx.need(x.value <= current + 1, f'version guard `{pf.nsrc(n)}` mentions a version beyond BATCH_FORMAT_VERSION={current}')
    # analyse the writer and the readers with their same-class helper methods inlined (a block extracted into `self._machine_spec(...)`)
    n_inl = 0
    for target in ['db_spec'] + list(READERS):
        try:
            m2, il = inline_methods(m, CLS, target, exclude=tuple(['db_spec'] + list(READERS)))
        except AnalysisError:
            continue
        if il.inlined:
            m, n_inl = m2, n_inl + len(il.inlined)
    m, n_mod = _inline_module_helpers(m, ['db_spec'] + list(READERS))
    n_inl += n_mod
    if n_inl:
        ctx.unit('helpers_inlined', n_inl)
    _check_positions(ctx, m, current)
    undecided = _check_truthiness(ctx, m, current)
    _check_records(ctx, m, current)
    _check_regions(ctx)
    _check_region_sites(ctx)
    undecided = undecided + undecided7
    if undecided:  # what could not be classified: declined, after everything that could be decided was reported
        raise AnalysisError(undecided[0])
