"""C16 Worker CPU semaphore is safe, FIFO and live.

Decides from the syntax tree / CFG of batch/batch/semaphore.py and batch/batch/worker/worker.py (nothing is run):
  R1 safety    every `self.value -= w` is reached only through a test edge that implies `self.value >= w`, atomically
               (no await, no other write in between); the guard is evaluated exhaustively over {<,==,>} x {queue empty, not}
  R2 FIFO      the waiter queue is a deque that is only appended on the right, read at [0] and popleft'ed; the fast path of
               acquire is taken only when the queue is empty; the (event, weight) layout agrees between writer and reader
  R3 liveness  acquire grants immediately iff (queue empty and value >= weight), otherwise enqueues and waits on the enqueued
               event; release adds the weight back, then loops while the queue is non-empty, wakes the head iff it fits
               (set + popleft + decrement together, atomically) and stops only when the head does not fit
  R4 pairing   the context manager releases exactly the weight it acquired; EVERY acquisition of `cpu_sem` under batch/batch/worker/ (all files; thorough tier:
               all of batch/batch) is either `async with <worker>.cpu_sem(w)` or a manual `await S.acquire(w)` that is followed on every exit of the function -
               normal, exception, cancellation at any later await; CFG with exception edges, statements outside any try escape directly - by exactly one
               `S.release(w')` with w' = w (linear normal forms with opaque `mod c` atoms compared, no evaluation), and no release is reachable unless an acquire
               COMPLETED (acquire inside the try whose finally releases; release inside `async with`).  Same-class helpers are inlined when the release lives in
               one.  No user writes `.value` or manipulates `.queue` of the semaphore.  At least two acquisition sites (DockerJob.run, JVMJob.run) must be found
  R5 no abandoned waiter   FIFOWeightedSemaphore.acquire runs no clean-up when it is cancelled (decided: no except/finally around its await touches queue / value / release),
               so a waiter that is cancelled while QUEUED leaves its entry behind, release later "grants" it and that weight is lost for good: the head waiter then blocks on an
               idle worker.  Hence no acquisition of cpu_sem may be cancellable on its own: the bound `acquire` (or the coroutine object) is not handed to a function that cancels
               what it is given (per module: parameters whose awaitable becomes a task that the function `.cancel()`s / is passed to wait_for / is awaited under a timeout block,
               closed under thin wrappers and resolved through the class hierarchy), the waiting statement is not inside `async with asyncio.timeout(...)`, and no function that
               (transitively, through awaited same-module calls) waits for the semaphore is handed to such a canceller.  Receivers other than self are decided only when every
               method of that name waits; otherwise the site is declined, never passed.  @asynccontextmanager helpers that acquire around their `yield` are followed to their users
Does not decide: schedules as such; cancellation of the whole worker at shutdown (task manager) is outside the property; who cancels a task handle stored in an attribute.
"""
from __future__ import annotations

import ast
from typing import Dict, List, Optional, Tuple

from engines import asyncfacts as af
from engines import c1516facts as cf
from engines import pyfacts as pf
from engines.common import AnalysisError, Ctx, short
from engines.inline import inline_methods

META = dict(
    category='other',
    text='Structural necessary conditions of safety/FIFO/liveness of the weighted semaphore decided on the CFG: guard dominance with '
         'atomicity between suspension points, exhaustive evaluation of the extracted guards over the order relation x queue emptiness, '
         'closed set of queue operations, acquire/release pairing on all exits of the context manager and at every use site in the worker '
         '(async with, or manual acquire/release checked on the CFG with exception edges: release on every exit, only after a completed acquire, once, same weight), '
         'and a who-may-cancel analysis showing that no queued waiter can be abandoned (acquire has no cancellation clean-up). '
         'Not a proof over interleavings: the rules are the invariants an interleaving argument needs, checked statement by statement.',
    note='Trusted: CPython ast; engines/pyfacts CFG; asyncio runs one coroutine at a time and only switches at await. '
         'Not decided: weights above capacity; cancellation of the whole worker at shutdown; task handles kept in attributes (declined when they may hold a waiting job).',
    technique='static analysis: CFG guard dominance + await-atomicity + finite truth tables over extracted tests + use-site closure + who-may-cancel analysis of handed-over awaitables',
    design_ref='DESIGN.md §3 C16',
)

F = 'batch/batch/semaphore.py'
WK = 'batch/batch/worker/worker.py'
CLS = 'FIFOWeightedSemaphore'
CM = 'FIFOWeightedSemaphoreContextManager'
VAL = 'self.value'
Q = 'self.queue'

FIFO_OK = {'method:append', 'index:0', 'method:popleft', 'truth', 'len'}
FIFO_BAD = {'method:appendleft': 'enqueues at the head', 'method:pop': 'removes the newest waiter', 'method:insert': 'enqueues out of order',
            'method:rotate': 'reorders waiters', 'method:reverse': 'reorders waiters', 'method:remove': 'removes a waiter out of order',
            'method:extendleft': 'enqueues at the head', 'method:clear': 'drops waiters without waking them', 'method:sort': 'reorders waiters'}


def _removes_own_entry_on_cancel(m: pf.Module, cls: ast.ClassDef, call: ast.AST) -> bool:
    """`self.queue.remove(<the tuple this call of acquire appended>)` inside an except / finally block of the try around acquire's own wait."""
    fn = m.enclosing_func(call)
    if fn is None or fn.name != 'acquire' or not isinstance(call, ast.Call) or len(call.args) != 1:
        return False
    apps = [c for c in pf.calls_in(fn) if pf.dotted(c.func) == f'{Q}.append' and len(c.args) == 1]
    if len(apps) != 1 or pf.nsrc(apps[0].args[0]) != pf.nsrc(call.args[0]):
        return False
    names = pf.names_in(call.args[0])
    if any(len(pf.assignments(fn).get(nm, [])) != 1 for nm in names):
        return False
    par = m.parents()
    cur: ast.AST = call
    while cur is not fn:
        p = par.get(cur)
        if p is None:
            return False
        if isinstance(p, ast.Try) and (any(cur is h for h in p.handlers) or any(cur is s_ for s_ in p.finalbody)):
            return any(isinstance(x, ast.Await) for s_ in p.body for x in ast.walk(s_))
        cur = p
    return False


def _r2_fifo(ctx: Ctx, m: pf.Module, cls: ast.ClassDef) -> None:
    uses = af.container_uses(m, cls, Q)
    ctx.need(uses, f'{F}: no use of {Q}')
    for u in uses:
        cons = f'{F}::{u.func}::{u.detail}'
        line = getattr(u.node, 'lineno', 0)
        if u.kind == 'assign':
            p = m.parents().get(u.node)
            val = getattr(p, 'value', None)
            ctx.need(u.func.endswith('__init__'), f'{cons}: queue rebound outside __init__')
            ok = isinstance(val, ast.Call) and pf.dotted(val.func) in ('collections.deque', 'deque') and not val.args and not val.keywords
            ctx.need(ok, f'{cons}: queue is not initialised with an empty collections.deque()')
            ctx.ok('R2', cons, 'empty deque')
        elif u.kind in FIFO_OK:
            ctx.ok('R2', cons, u.kind)
        elif u.kind == 'method:remove' and _removes_own_entry_on_cancel(m, cls, u.node):
            # a cancelled waiter taking ITS OWN entry out keeps the relative order of everybody else (whether the handler is complete is R5's concern, which then declines)
            ctx.ok('R2', cons, 'own entry removed in the cancellation handler of the wait')
        elif u.kind in FIFO_BAD:
            ctx.bad('R2', cons, f'`{u.detail}` {FIFO_BAD[u.kind]}: waiters are no longer granted in arrival order', m.path, line)
        elif u.kind.startswith('index:') or u.kind.startswith('setitem:') or u.kind.startswith('delitem:'):
            ctx.bad('R2', cons, f'`{u.detail}` touches a queue position other than the head [0]: a waiter other than the oldest is examined/changed',
                    m.path, line)
        else:
            raise AnalysisError(f'{cons}: unrecognised use of the waiter queue ({u.kind})')


def _acquire(ctx: Ctx, m: pf.Module, cls: ast.ClassDef, guards: List[af.Guarded]) -> Optional[List[str]]:
    """R2 fast path requires empty queue, R3 exact fast-path condition and slow path.  Returns the appended tuple layout."""
    fn = af.method(m, cls, 'acquire')
    ctx.need(isinstance(fn, ast.AsyncFunctionDef), 'acquire is not a coroutine')
    cfg = pf.cfg(fn)
    params = [a.arg for a in fn.args.args]
    ctx.need(len(params) == 2, f'acquire parameters changed: {params}')
    w = params[1]
    gs = [g for g in guards if g.fnname == 'acquire']
    qn = f'{CLS}.acquire'
    if len(gs) != 1:
        ctx.need(not gs, f'{qn}: {len(gs)} guarded decrements (expected one fast path)')
        af.blocked(ctx, 'R1', 'R2', 'R3')  # R1 already reported the unguarded decrement
        return None
    g = gs[0]
    ctx.need(g.w == w, f'{qn}: fast path decrements `{g.w}`, not the requested weight `{w}`')
    cons = f'{F}::{qn}::fast path `{pf.nsrc(g.test.ast)}`'
    taken = g.label == 'T'
    # R2: fast path only when nobody is queued
    jump = [r for r in g.rows if r[2] == taken and r[1][Q]]
    ctx.check(not jump, 'R2', cons + '::requires empty queue',
              f'the fast path is taken with a non-empty queue (e.g. {VAL} {jump[0][0]} {w}, queue non-empty): a newcomer overtakes the waiters'
              if jump else '', m.path, g.test.lineno)
    # R3: taken iff queue empty and fits
    wrong = [r for r in g.rows if (r[2] == taken) != ((not r[1][Q]) and r[0] in ('==', '>'))]
    ctx.check(not wrong, 'R3', cons + '::exact',
              (f'with {VAL} {wrong[0][0]} {w} and the queue {"non-empty" if wrong[0][1][Q] else "empty"} acquire '
               f'{"grants" if wrong[0][2] == taken else "does not grant"} immediately; it must grant iff the queue is empty and {VAL} >= {w} '
               f'(otherwise the newcomer waits at the head although enough capacity is free, and no release may ever come)') if wrong else '',
              m.path, g.test.lineno)
    # fast path returns without waiting
    aw = [n for n in cfg.reachable_from(g.dec) if pf.node_has_await(cfg.nodes[n])]
    ctx.check(not aw, 'R3', f'{F}::{qn}::fast path returns', 'the granted fast path suspends before returning', m.path, g.dec.lineno)

    # slow path: enqueue (event, weight) then wait on that event
    other = 'F' if g.label == 'T' else 'T'
    apps = af.stmt_nodes(cfg, lambda n: af.node_is_call(n, f'{Q}.append') is not None)
    waits = af.stmt_nodes(cfg, lambda n: pf.node_has_await(n))
    cons2 = f'{F}::{qn}::slow path'
    if len(apps) != 1:
        ctx.need(len(apps) == 0, f'{qn}: {len(apps)} enqueue statements')
        ctx.bad('R3', cons2, 'a request that cannot be granted immediately is never enqueued', m.path, fn.lineno)
        af.blocked(ctx, 'R3', 'R2', 'R3')
        return None
    A = apps[0]
    call = af.node_is_call(A, f'{Q}.append')
    ctx.need(call is not None and len(call.args) == 1 and isinstance(call.args[0], ast.Tuple) and all(isinstance(e, ast.Name) for e in call.args[0].elts),
             f'{qn}: enqueued element is not a tuple of names')
    layout = [e.id for e in call.args[0].elts]  # type: ignore[union-attr,attr-defined]
    ctx.need(w in layout and len(layout) == 2, f'{qn}: enqueued tuple {layout} does not carry the weight `{w}`')
    evname = [x for x in layout if x != w][0]
    edef = pf.single_def(fn, evname)
    ctx.need(isinstance(edef, ast.Call) and pf.dotted(edef.func) in ('asyncio.Event', 'Event'), f'{qn}: `{evname}` is not a fresh asyncio.Event()')
    # every path from the not-granted edge to the exit enqueues and then waits on the event
    miss = af.must_pass(cfg, g.test, lambda n: n is cfg.exit, lambda n: n is A, first_label=other)
    wait_nodes = [n for n in waits if any(isinstance(x, ast.Await) and pf.call_name(x) == f'{evname}.wait' for x in ast.walk(n.ast))]
    ok = miss is None and len(wait_nodes) == 1
    if ok:
        Wn = wait_nodes[0]
        ok = af.must_pass(cfg, A, lambda n: n is cfg.exit, lambda n: n is Wn) is None
        # nothing between enqueue and wait may set the event
        mid = af.between(cfg, A, Wn)
        ok = ok and not any(af.node_is_call(x, f'{evname}.set') for x in mid)
    ctx.check(ok, 'R3', cons2, 'a request that is not granted immediately does not (on every path) enqueue itself and then wait on the enqueued event: '
              'it returns without holding capacity or is never woken', m.path, A.lineno, detail={'layout': layout})
    # acquire must not touch the counter after being woken (release already decremented for it): covered by R1 (any decrement needs a guard)
    ctx.check(A.id not in {x.id for x in af.between(cfg, g.test, g.dec, g.label)} and not af.direct(cfg, g.dec, A),
              'R3', cons2 + '::exclusive', 'the fast path also enqueues the request (it would be granted twice)', m.path, A.lineno)
    return [('event' if x == evname else 'weight') for x in layout]


def _release(ctx: Ctx, m: pf.Module, cls: ast.ClassDef, guards: List[af.Guarded], layout: Optional[List[str]]) -> None:
    qn = f'{CLS}.release'
    fn = af.method(m, cls, 'release')
    ctx.need(isinstance(fn, ast.FunctionDef), f'{qn} is a coroutine: its wake-up loop is no longer atomic')
    cfg = pf.cfg(fn)
    params = [a.arg for a in fn.args.args]
    ctx.need(len(params) == 2, f'release parameters changed: {params}')
    w = params[1]
    try:
        wl = af.wake_loop(m, cls, 'release', VAL, Q)
    except af.FitNotOnValue as e:
        ctx.bad('R3', f'{F}::{qn}::wake loop::fit test `{e.test_src}`', f'the head waiter is woken by comparing its weight with the amount being released (`{e.test_src}`), not with the total free '
                f'capacity {VAL}: capacity that was already free, or that is freed by several smaller releases, never wakes a heavier head - it stays blocked although enough capacity is free',
                m.path, e.lineno)
        af.blocked(ctx, 'R3', 'R1', 'R2', 'R3')
        return
    L = af.test_node(cfg, wl.stmt.test)  # type: ignore[union-attr]
    # give-back first
    incs = af.stmt_nodes(cfg, lambda n: isinstance(n.ast, ast.AugAssign) and isinstance(n.ast.op, ast.Add) and pf.nsrc(n.ast.target) == VAL)
    cons = f'{F}::{qn}::give back'
    okinc = len(incs) == 1 and pf.nsrc(incs[0].ast.value) == w and cfg.dominated_by(L, lambda n: n is incs[0]) \
        and cfg.dominated_by(cfg.exit, lambda n: n is incs[0])  # type: ignore[union-attr]
    ctx.check(okinc, 'R3', cons, f'release does not unconditionally add the released weight `{w}` back to {VAL} before waking waiters '
              f'(found {[n.text() for n in incs]})', m.path, fn.lineno)
    # the loop
    cons = f'{F}::{qn}::wake loop'
    ctx.check(wl.is_loop, 'R3', cons + '::repeats',
              f'`if {pf.nsrc(wl.stmt.test)}` wakes at most one waiter per release: after a large release the next head may fit and stays blocked',  # type: ignore[union-attr]
              m.path, wl.stmt.lineno)  # type: ignore[union-attr]
    if not wl.is_loop:
        af.blocked(ctx, 'R3', 'R3')  # the loop-shape instances below do not exist without a loop
    gs = [g for g in guards if g.fnname == 'release']
    if len(gs) != 1:
        ctx.need(not gs, f'{qn}: {len(gs)} guarded decrements')
        af.blocked(ctx, 'R1', 'R2', 'R3')  # R1 already reported the unguarded decrement
        return
    g = gs[0]
    ctx.need(g.test.ast is wl.fit.test, f'{qn}: the decrement is not guarded by the fit test of the wake loop')  # type: ignore[union-attr]
    ctx.need(g.w in wl.names, f'{qn}: decrements `{g.w}`, which is not read from the head of the queue')
    widx = wl.names.index(g.w)
    evname = wl.names[1 - widx] if len(wl.names) == 2 else None
    ctx.need(evname is not None, f'{qn}: head tuple has {len(wl.names)} fields')
    # names not rebound inside the loop
    for nme in wl.names:
        defs = pf.assignments(fn).get(nme, [])
        ctx.need(len(defs) == 1, f'{qn}: `{nme}` is rebound in release')
    # layout agreement writer/reader
    if layout is not None:
        reader = ['weight' if i == widx else 'event' for i in range(2)]
        ctx.check(reader == layout, 'R2', f'{F}::{CLS}::queue element layout',
                  f'acquire enqueues ({", ".join(layout)}) but release unpacks the head as ({", ".join(reader)})', m.path, wl.head.lineno)  # type: ignore[union-attr]
    # exact fit test: wake iff value >= head weight
    taken = g.label == 'T'
    wrong = [r for r in g.rows if (r[2] == taken) != (r[0] in ('==', '>'))]
    ctx.check(not wrong, 'R3', cons + f'::fit test `{pf.nsrc(g.test.ast)}`',
              (f'with {VAL} {wrong[0][0]} {g.w} the head is {"woken" if wrong[0][2] == taken else "not woken"}: '
               f'it must be woken iff {VAL} >= {g.w} (a head that exactly fits stays blocked while enough capacity is free)') if wrong else '',
              m.path, g.test.lineno)
    # wake = set + popleft + decrement, all on every path from the fit edge back to the loop head, atomically
    F_ = g.test
    setn = af.stmt_nodes(cfg, lambda n: af.node_is_call(n, f'{evname}.set') is not None)
    popn = af.stmt_nodes(cfg, lambda n: af.node_is_call(n, f'{Q}.popleft') is not None)
    parts = {'event.set()': setn, 'queue.popleft()': popn, 'value -= weight': [g.dec]}
    goal = (lambda n: n is L or n is cfg.exit or n is cfg.raise_exit)
    for what, nodes in parts.items():
        c2 = cons + f'::wake::{what}'
        if not nodes:
            ctx.bad('R3', c2, f'waking the head never performs {what}: ' + {
                'event.set()': 'the waiter is dequeued and charged but never resumed',
                'queue.popleft()': 'the same head is charged again on the next iteration',
                'value -= weight': 'the woken job runs without being charged (over-grant)'}[what], m.path, g.test.lineno)
            continue
        p = af.must_pass(cfg, F_, goal, lambda n, nodes=nodes: any(n is x for x in nodes), first_label=g.label)
        only = all(af.every_path_uses_edge(cfg, x, F_, g.label) for x in nodes)
        ctx.check(p is None and only, 'R3', c2,
                  f'{what} is not performed exactly on the paths where the head fits (set, popleft and the decrement must go together)',
                  m.path, nodes[0].lineno)
    # after waking, control returns to the loop test (keeps waking); when the head does not fit the loop is left
    other = 'F' if g.label == 'T' else 'T'
    if wl.is_loop:
        back = af.must_pass(cfg, F_, lambda n: n is cfg.exit or n is cfg.raise_exit, lambda n: n is L, first_label=g.label)
        ctx.check(back is None, 'R3', cons + '::continues', 'after waking one waiter release leaves the loop without re-examining the new head',
                  m.path, g.test.lineno)
        spins = af.direct(cfg, F_, L, other)
        ctx.check(not spins, 'R3', cons + '::stops', 'when the head does not fit the loop is not left: release spins forever on the same head '
                  '(nothing changes between iterations) and blocks the event loop', m.path, g.test.lineno)
        # the loop is left only through the test or the does-not-fit edge: no other break/return inside the body
        exits = [n for n in ast.walk(wl.stmt) if isinstance(n, (ast.Break, ast.Return, ast.Raise))]  # type: ignore[arg-type]
        in_other = list(ast.walk(ast.Module(body=(wl.fit.orelse if g.label == 'T' else wl.fit.body), type_ignores=[])))  # type: ignore[union-attr]
        stray = [e for e in exits if not any(e is x for x in in_other)]
        ctx.check(not stray, 'R3', cons + '::only exit', f'the wake loop can also be left by `{pf.nsrc(stray[0])}`: waiters that fit stay blocked'
                  if stray else '', m.path, stray[0].lineno if stray else 0)


def _ctx_manager(ctx: Ctx, m: pf.Module) -> None:
    cm = m.cls(CM)
    init = af.method(m, cm, '__init__')
    params = [a.arg for a in init.args.args]
    ctx.need(len(params) == 3, f'{CM}.__init__ parameters changed: {params}')
    fields = {}
    for st in init.body:
        if isinstance(st, ast.Assign) and len(st.targets) == 1 and isinstance(st.targets[0], ast.Attribute) and isinstance(st.value, ast.Name):
            fields[pf.nsrc(st.targets[0])] = st.value.id
    sem_f = [k for k, v in fields.items() if v == params[1]]
    w_f = [k for k, v in fields.items() if v == params[2]]
    ctx.need(len(sem_f) == 1 and len(w_f) == 1, f'{CM}.__init__ does not store (sem, weight) in two attributes')
    # attributes are not reassigned elsewhere
    for st in ast.walk(cm):
        if isinstance(st, ast.Attribute) and isinstance(st.ctx, ast.Store) and pf.nsrc(st) in (sem_f[0], w_f[0]):
            ctx.need(m.enclosing_func(st) is init, f'{CM}: {pf.nsrc(st)} reassigned outside __init__')
    en = af.method(m, cm, '__aenter__')
    ex = af.method(m, cm, '__aexit__')
    # enter: exactly one acquire of the stored weight, awaited, on every path
    cfg = pf.cfg(en)
    acq = af.stmt_nodes(cfg, lambda n: any(isinstance(x, ast.Await) and pf.call_name(x) == f'{sem_f[0]}.acquire' for x in ast.walk(n.ast)))
    cons = f'{F}::{CM}.__aenter__'
    ok = len(acq) == 1 and cfg.dominated_by(cfg.exit, lambda n: n is acq[0])
    if ok:
        c = af.node_is_call(acq[0], f'{sem_f[0]}.acquire')
        ok = c is not None and [pf.nsrc(a) for a in c.args] == [w_f[0]] and not c.keywords
    ctx.check(ok, 'R4', cons, f'__aenter__ does not `await {sem_f[0]}.acquire({w_f[0]})` exactly once on every path', m.path, en.lineno)
    cfg = pf.cfg(ex)
    rel = af.stmt_nodes(cfg, lambda n: af.node_is_call(n, f'{sem_f[0]}.release') is not None)
    cons = f'{F}::{CM}.__aexit__'
    ok = len(rel) == 1 and cfg.dominated_by(cfg.exit, lambda n: n is rel[0]) and not af.direct(cfg, rel[0], rel[0])
    if ok:
        c = af.node_is_call(rel[0], f'{sem_f[0]}.release')
        ok = c is not None and [pf.nsrc(a) for a in c.args] == [w_f[0]] and not c.keywords
        # nothing that can suspend (and be cancelled) before the release
        pre = [n for n in cfg.nodes if n.ast is not None and pf.node_has_await(n) and af.direct(cfg, n, rel[0])]
        ok = ok and not pre
    ctx.check(ok, 'R4', cons, f'__aexit__ does not release exactly the acquired weight `{w_f[0]}` once, unconditionally and before any suspension point '
              f'(found {[n.text() for n in rel]}): capacity leaks or is returned twice', m.path, ex.lineno)
    # __call__ builds the manager for this semaphore and the requested weight
    cls = m.cls(CLS)
    call = af.method(m, cls, '__call__')
    body = af.body_no_doc(call)
    p2 = [a.arg for a in call.args.args]
    ok = len(body) == 1 and isinstance(body[0], ast.Return) and isinstance(body[0].value, ast.Call) and pf.dotted(body[0].value.func) == CM \
        and [pf.nsrc(a) for a in body[0].value.args] == p2 and not body[0].value.keywords
    ctx.check(ok, 'R4', f'{F}::{CLS}.__call__', f'does not return {CM}(self, weight)', m.path, call.lineno)


def _strip_int(e: ast.AST) -> ast.AST:
    while isinstance(e, ast.Call) and isinstance(e.func, ast.Name) and e.func.id == 'int' and len(e.args) == 1 and not e.keywords:
        e = e.args[0]
    return e


def _weight_relation(fn: pf.FuncDef, a: ast.AST, r: ast.AST):
    """('same', None) | ('differs', (normal form acquired, normal form released, difference)) | ('unknown', why) for the weight acquired vs released.
    Decided by comparing linear normal forms (cf.weight_normal_form); nothing is evaluated."""
    a2, r2 = _strip_int(pf.expand_locals(fn, a)), _strip_int(pf.expand_locals(fn, r))
    na, nr = cf.weight_normal_form(a2), cf.weight_normal_form(r2)
    if pf.nsrc(a2) == pf.nsrc(r2) or (na is not None and na == nr):
        # the same value only if the atoms are not rebound between the two evaluations
        params = {x.arg for x in fn.args.posonlyargs + fn.args.args + fn.args.kwonlyargs}
        asg = pf.assignments(fn)
        for nme in pf.names_in(a2) | pf.names_in(r2):
            if nme in asg and not (nme in params and len(asg[nme]) == 1):
                return 'unknown', f'`{nme}` is assigned more than once in the function'
        attrs = {pf.nsrc(x) for e in (a2, r2) for x in ast.walk(e) if isinstance(x, ast.Attribute)}
        for x in pf.walk_shallow(fn):
            if isinstance(x, ast.Attribute) and isinstance(x.ctx, (ast.Store, ast.Del)) and pf.nsrc(x) in attrs:
                return 'unknown', f'`{pf.nsrc(x)}` is reassigned inside the function'
        return 'same', None
    if na is None or nr is None:
        bad_ = a2 if na is None else r2
        return 'unknown', f'`{pf.nsrc(bad_)}` is outside the linear fragment (+, -, * const, // const, % const over names)'
    diff = {k: v for k, v in ((k, nr.get(k, 0) - na.get(k, 0)) for k in set(na) | set(nr)) if v != 0}
    return 'differs', (na, nr, diff)


def _manual_site(ctx: Ctx, m: pf.Module, fn: pf.FuncDef, q: str, S: str, orig: pf.Module) -> Tuple[int, int]:
    """Manual `await S.acquire(w)` ... `S.release(w)` in one function: on EVERY exit reached after the acquire completed (normal, exception,
    cancellation at any later await) exactly one release of the same weight; no release unless an acquire completed."""
    cfg = pf.cfg(fn)
    base = f'{m.rel}::{q}::manual {S}.acquire/release'

    def acq_call(n: pf.Node) -> Optional[ast.Call]:
        a = n.ast
        if n.kind == 'stmt' and isinstance(a, ast.Expr) and isinstance(a.value, ast.Await) and isinstance(a.value.value, ast.Call) \
                and pf.dotted(a.value.value.func) == f'{S}.acquire':
            return a.value.value
        return None

    def rel_call(n: pf.Node) -> Optional[ast.Call]:
        a = n.ast
        if n.kind == 'stmt' and isinstance(a, ast.Expr) and isinstance(a.value, ast.Call) and pf.dotted(a.value.func) == f'{S}.release':
            return a.value
        return None
    # every textual acquire/release of S in the function must be one of these two statement forms
    for c in pf.calls_in(fn):
        d = pf.dotted(c.func)
        if d in (f'{S}.acquire', f'{S}.release'):
            holders = [n for n in cfg.nodes if n.ast is not None and (acq_call(n) is c or rel_call(n) is c)]
            if not holders and d.endswith('.acquire'):
                par = m.parents()
                if not isinstance(par.get(c), ast.Await):
                    ctx.bad('R4', base + '::awaited', f'`{pf.nsrc(c)}` is not awaited: the coroutine never runs, nothing is acquired and the job runs outside the '
                            f'semaphore (more than the capacity can run at once)', m.path, c.lineno)
                    continue
            ctx.need(holders, f'{base}: `{pf.nsrc(c)}` is not a plain `await {S}.acquire(w)` / `{S}.release(w)` statement')
    P = cf.pairing(cfg, lambda n: acq_call(n) is not None, lambda n: rel_call(n) is not None)
    if not P.acquires and not P.releases:
        return 0, 0
    if not P.acquires:
        # a manual release inside `async with S(w)`: the manager releases again on exit
        par = m.parents()
        for r in P.releases:
            cur = par.get(r.ast)
            while cur is not None and cur is not fn:
                if isinstance(cur, ast.AsyncWith) and any(isinstance(i.context_expr, ast.Call) and pf.nsrc(i.context_expr.func) == S for i in cur.items):
                    ctx.bad('R4', base + '::released once', f'`{r.text()}` inside `async with {S}(...)`: the context manager releases the same acquisition again on exit - '
                            'value exceeds the capacity and more CPU is granted than the worker has (safety)', m.path, r.lineno)
                    return 0, 1
                cur = par.get(cur)
    ctx.need(P.acquires, f'{base}: {S}.release(...) in a function that never acquires (pairing across functions is not analysed)')
    a0 = acq_call(P.acquires[0])
    assert a0 is not None
    ctx.need(all(len(acq_call(a).args) == 1 and not acq_call(a).keywords for a in P.acquires), f'{base}: acquire is not called with exactly the weight')  # type: ignore[union-attr]
    wsrc = pf.nsrc(a0.args[0])
    line = P.acquires[0].lineno
    # (1) every exit after a completed acquire releases
    leaks: List[str] = []
    for a, p in P.leak_paths:
        labs = []
        for x, y in zip(p, p[1:]):
            lab = [l for mm, l in x.succ if mm is y]
            labs.append(lab[0] if lab else '')
        excs = [(x, y) for x, y, l in zip(p, p[1:], labs) if l == 'exc' and x.ast is not None]
        # the decisive raise: the first exceptional edge after which no release is reachable any more
        dec = [x for x, y in excs if not any(r.id in cfg.reachable_from(y) or r is y for r in P.releases)]
        how = 'the normal completion of the function' if not excs else f'the exit taken when `{cf.describe_path([(dec or [excs[-1][0]])[0]], 1).strip("`")}` raises (or is cancelled)'
        leaks.append(f'{how} does not pass `{S}.release(...)` (path: ... {cf.describe_path(p)})')
    esc = []
    for a, n in P.leak_escapes:
        t = n.text() if n.kind in ('with', 'loop', 'test') else pf.nsrc(n.ast)
        if t not in esc:
            esc.append(t)
    if esc:
        leaks.append(f'{len(esc)} statement(s) executed while the weight is held can raise outside any try/finally (e.g. `{short(esc[0], 70)}`'
                     + (', a cancellation point' if 'await' in esc[0] else '') + ') and leave the function without releasing')
    if not P.releases:
        leaks = [f'the function never calls `{S}.release(...)`']
    ctx.check(not leaks, 'R4', base + '::every exit releases',
              f'after `await {S}.acquire({wsrc})` completed, ' + '; '.join(leaks[:2]) + f': the job is over but the semaphore\'s value stays short by {wsrc} for good - '
              'a waiter at the head of the queue stays blocked although the capacity it needs is free (liveness)', m.path, line)
    # (2) release only after a completed acquire
    msg = ''
    if P.release_after_failed_acquire is not None:
        msg = (f'`{S}.release(...)` is reached when `await {S}.acquire({wsrc})` did NOT complete (the acquire sits inside the try whose finally/handler releases): a job cancelled '
               f'while queued releases {wsrc} it never held - value exceeds the capacity and later jobs are granted more CPU than the worker has (safety)')
    elif P.release_without_acquire is not None:
        msg = (f'`{S}.release(...)` is reachable without any acquire (path: ... {cf.describe_path(P.release_without_acquire)}): value exceeds the capacity and '
               'later jobs are granted more CPU than the worker has (safety)')
    elif P.reacquire is not None:
        msg = f'a second `await {S}.acquire(...)` is reached while the first weight is still held'
    if P.releases:
        ctx.check(not msg, 'R4', base + '::release only after a completed acquire', msg, m.path, P.releases[0].lineno)
        # (3) once
        ctx.check(P.double_release is None, 'R4', base + '::released once',
                  f'one exit releases twice (`{P.double_release[0].text()}` at line {P.double_release[0].lineno} and again at line {P.double_release[1].lineno}): '  # type: ignore[index]
                  'value exceeds the capacity (safety)' if P.double_release else '', m.path, P.releases[0].lineno)
        # (4) same weight
        seen = set()
        for r in P.releases:
            rc = rel_call(r)
            assert rc is not None
            if id(rc) in seen:
                continue
            seen.add(id(rc))
            ctx.need(len(rc.args) == 1 and not rc.keywords, f'{base}: release is not called with exactly the weight')
            for a in P.acquires[:1]:
                rel, wit = _weight_relation(fn, a0.args[0], rc.args[0])
                cons = base + f'::same weight `{pf.nsrc(rc.args[0])}`'
                if rel == 'same':
                    ctx.ok('R4', cons, wsrc)
                elif rel == 'differs':
                    na, nr, diff = wit
                    mods = [k for k in diff if ' mod ' in k]
                    ctx.bad('R4', cons, f'acquires `{wsrc}` but releases `{pf.nsrc(rc.args[0])}`: normal forms {cf.wlin_str(na)} vs {cf.wlin_str(nr)}, released - acquired = {cf.wlin_str(diff)}, '
                            'which is not identically zero'
                            + (f' (it is -{mods[0]}: every weight that is not a multiple of the divisor, e.g. 250 mcpu with divisor 1000, gives back less than it took)' if mods and diff[mods[0]] < 0 else '')
                            + ': the semaphore\'s value drifts with every such job - short: a head waiter that fits the idle worker stays blocked (liveness); over: more than the capacity is granted (safety)',
                            m.path, r.lineno, extra={'acquired': cf.wlin_str(na), 'released': cf.wlin_str(nr)})
                else:
                    raise AnalysisError(f'{cons}: cannot decide whether the released weight equals the acquired one ({wit})')
    return len(P.acquires), len({id(rel_call(r)) for r in P.releases})


def _handed_to(par: Dict[ast.AST, ast.AST], attr: ast.Attribute) -> Optional[Tuple[ast.AST, ast.Call]]:
    """`S.acquire` not awaited in place but passed on: (the handed expression, the call that receives it).  Either the bound method itself is an
    argument, or the coroutine object `S.acquire(w)` is."""
    up = par.get(attr)
    handed: ast.AST = attr
    if isinstance(up, ast.Call) and up.func is attr:
        handed, up = up, par.get(up)
    if isinstance(up, ast.keyword):
        kw, up = up, par.get(up)
        if isinstance(up, ast.Call) and any(k is kw for k in up.keywords):
            return handed, up
        return None
    if isinstance(up, ast.Call) and any(a is handed for a in up.args):
        return handed, up
    return None


_ABANDONED = ('FIFOWeightedSemaphore.acquire has no cancellation clean-up, so the abandoned waiter\'s (event, weight) entry stays in the queue; when it reaches the head, release() '
              '"grants" it (value -= weight, event.set()) although nobody is listening and nobody will ever release that weight. History with capacity 4000: J1(4000) runs; '
              'J2(2000), J3(2000) queue; J2\'s wait is cancelled; J1 and J3 finish; J4(4000) arrives at an idle worker, is the only waiter, and blocks forever '
              '(value == 2000): a waiter at the head of the queue is blocked while all capacity is free (liveness)')


def _r5_handed(ctx: Ctx, m: pf.Module, mf: 'cf.ModFuncs', exposed, q: str, handed: ast.AST, recv: ast.Call, cancel_safe: bool, what: str) -> None:
    verdict, how = cf.handover_verdict(mf, exposed, q, recv, handed)
    cons = f'{m.rel}::{q}::{short(pf.nsrc(recv), 90)}'
    if verdict == 'cancels':
        ctx.need(not cancel_safe, f'{cons}: {what} can be cancelled while queued ({how}) and acquire has a cancellation handler: whether that handler restores the queue/counter is not analysed')
        ctx.bad('R5', cons, f'{what} is handed to a caller that may cancel it while it is still QUEUED: {how}. {_ABANDONED}', m.path, recv.lineno)
        return
    raise AnalysisError(f'{cons}: {what} is handed over instead of being awaited in place ({how}); acquire/release pairing across that call is not analysed')


def _cm_users(ctx: Ctx, m: pf.Module, mf: 'cf.ModFuncs', q: str, fn: pf.FuncDef) -> List[Tuple[str, ast.AST]]:
    """`async with <recv>.<helper>():` statements entering the context-manager helper q; any other use of the helper is declined."""
    par = m.parents()
    out: List[Tuple[str, ast.AST]] = []
    same_name = [k for k in mf.by_q if k.split('.')[-1] == fn.name]
    for x in ast.walk(m.tree):
        if not ((isinstance(x, ast.Attribute) and x.attr == fn.name) or (isinstance(x, ast.Name) and x.id == fn.name and isinstance(x.ctx, ast.Load))):
            continue
        call = par.get(x)
        if not (isinstance(call, ast.Call) and call.func is x) and not (isinstance(x, ast.Attribute) and isinstance(x.value, ast.Name) and x.value.id in ('self', 'cls')):
            continue  # a data attribute / local of the same name (`instance_config.cores`), not the helper
        ctx.need(same_name == [q], f'{m.rel}: several functions are named {fn.name} ({same_name}); which one `{pf.nsrc(x)}` denotes is not analysed')
        item = par.get(call) if call is not None else None
        stmt = par.get(item) if item is not None else None
        ok = isinstance(call, ast.Call) and call.func is x and isinstance(item, ast.withitem) and item.context_expr is call and isinstance(stmt, ast.AsyncWith)
        ctx.need(ok, f'{m.rel}: the context-manager helper {q} is used other than as `async with ...{fn.name}()`: `{short(pf.nsrc(call if call is not None else x), 60)}`')
        user = m.enclosing_func(x)
        ctx.need(user is not None, f'{m.rel}: {q} entered at module level')
        out.append((m.qualname(user), stmt))  # type: ignore[arg-type]
    return out


def _r5_sites(ctx: Ctx, m: pf.Module, mf: 'cf.ModFuncs', exposed, sites: List[Tuple[str, ast.AST]], cancel_safe: bool) -> None:
    """A job that waits for the semaphore must not be abandoned while queued: the waiting statement is not inside a timeout block, and no function that
    (transitively, through awaited same-module calls) contains it is handed to a caller that cancels what it is given."""
    par = m.parents()
    # functions whose execution includes waiting for the semaphore
    waits: Dict[str, str] = {q: 'it waits for cpu_sem' for q, _ in sites}
    changed = True
    while changed:
        changed = False
        for q, fn in mf.by_q.items():
            if q in waits:
                continue
            for x in pf.walk_shallow(fn):
                if isinstance(x, ast.Await) and isinstance(x.value, ast.Call):
                    tg = mf.resolve(q, x.value.func)
                    if tg and all(t in waits for t in tg):
                        waits[q] = f'it awaits {tg[0]}, and {waits[tg[0]]}'
                        changed = True
                        break

    def timeout_blocks(node: ast.AST) -> List[ast.AsyncWith]:
        out = []
        cur = par.get(node)
        while cur is not None and not isinstance(cur, (ast.FunctionDef, ast.AsyncFunctionDef, ast.Lambda)):
            if isinstance(cur, ast.AsyncWith) and any(cf.is_timeout_cm(i.context_expr) for i in cur.items) and not any(node is i.context_expr for i in cur.items):
                out.append(cur)
            cur = par.get(cur)
        return out
    waiting_nodes: List[Tuple[str, ast.AST, str]] = [(q, node, 'the wait for cpu_sem') for q, node in sites]
    for q, fn in mf.by_q.items():
        for x in pf.walk_shallow(fn):
            if isinstance(x, ast.Await) and isinstance(x.value, ast.Call):
                tg = mf.resolve(q, x.value.func)
                if tg and all(t in waits for t in tg):
                    waiting_nodes.append((q, x, f'`{short(pf.nsrc(x), 50)}` ({waits[tg[0]]})'))
    for q, node, what in waiting_nodes:
        tb = timeout_blocks(node)
        cons = f'{m.rel}::{q}::{short(pf.nsrc(node).splitlines()[0] if not isinstance(node, ast.AsyncWith) else "async with " + pf.nsrc(node.items[0].context_expr), 70)}::not abandoned while queued'
        if tb:
            ctx.need(not cancel_safe, f'{cons}: under a timeout and acquire has a cancellation handler (not analysed)')
            ctx.bad('R5', cons, f'{what} runs inside `async with {pf.nsrc(tb[0].items[0].context_expr)}`: when the timeout expires while the job is still QUEUED its wait is cancelled. {_ABANDONED}',
                    m.path, getattr(node, 'lineno', 0))
        elif (q, node) in sites:
            ctx.ok('R5', cons, 'no enclosing timeout block')
    # functions that MAY wait for the semaphore: as above, but a call through a receiver other than self counts when SOME method of that name waits
    def by_name(attr: str) -> List[str]:
        return [k for k in mf.by_q if k.count('.') == 1 and k.split('.')[-1] == attr and mf.class_of(k) is not None]
    may: Dict[str, str] = dict(waits)
    changed = True
    while changed:
        changed = False
        for q, fn in mf.by_q.items():
            if q in may:
                continue
            for x in pf.walk_shallow(fn):
                if isinstance(x, ast.Await) and isinstance(x.value, ast.Call):
                    f_ = x.value.func
                    tg = mf.resolve(q, f_) or (by_name(f_.attr) if isinstance(f_, ast.Attribute) else [])
                    hit = [t for t in tg if t in may]
                    if hit:
                        may[q] = f'it awaits `{short(pf.nsrc(f_), 40)}`, which can be {hit[0]}, and {may[hit[0]]}'
                        changed = True
                        break
    # a waiting function handed (as bound method / coroutine object) to something that cancels what it is given
    for qh, fh in mf.by_q.items():
        for rc in pf.calls_in(fh):
            for a in list(rc.args) + [k.value for k in rc.keywords]:
                ref = a.func if isinstance(a, ast.Call) else a
                if not isinstance(ref, (ast.Name, ast.Attribute)):
                    continue
                tg = mf.resolve(qh, ref)
                if not tg and isinstance(ref, ast.Attribute):
                    tg = by_name(ref.attr)   # receiver other than self: every method of that name in the module
                if not tg or not any(t in may for t in tg):
                    continue
                verdict, how = cf.handover_verdict(mf, exposed, qh, rc, a)
                if verdict not in ('cancels', 'may-cancel'):
                    continue
                cons = f'{m.rel}::{qh}::{short(pf.nsrc(rc), 90)}'
                ctx.need(not cancel_safe, f'{cons}: a waiting function is cancellable and acquire has a cancellation handler (not analysed)')
                must = all(t in waits for t in tg) and verdict == 'cancels'
                ctx.need(must, f'{cons}: `{pf.nsrc(a)}` may be cancelled on its own ({how}) and may be waiting for cpu_sem at that moment '
                         f'({may[[t for t in tg if t in may][0]]}); which method the receiver denotes / who cancels the task is not decided statically')
                ctx.bad('R5', cons, f'`{pf.nsrc(a)}` is handed to a caller that may cancel it ({how}), and {waits[tg[0]]}: a job cancelled that way while it is still QUEUED '
                        f'abandons its wait. {_ABANDONED}', m.path, rc.lineno)


def _worker_uses(ctx: Ctx, cancel_safe: bool) -> None:
    roots = ['batch/batch/worker'] if ctx.tier != 'thorough' else ['batch/batch']
    files = [f for f in pf.walk_py(roots) if f != F]
    ctx.need(WK in files, f'{WK} not found')
    n_with = 0
    n_manual = 0
    n_ctor = 0
    n_cancellers = 0
    for rel in files:
        m = pf.load(rel)
        if 'cpu_sem' not in m.src:
            continue
        par = m.parents()
        manual: Dict[int, Tuple[pf.FuncDef, str, set]] = {}
        mf = cf.ModFuncs(m)
        exposed = cf.cancel_exposed(mf)
        n_cancellers += len(exposed)
        sites: List[Tuple[str, ast.AST]] = []   # (qualified function, statement / expression that waits for the semaphore)
        handed_fns: set = set()                  # functions in which the acquire was handed over (reported by R5; pairing not analysed there)
        for n in ast.walk(m.tree):
            if not (isinstance(n, ast.Attribute) and n.attr == 'cpu_sem'):
                continue
            fn = m.enclosing_func(n)
            q = m.qualname(fn) if fn is not None else '<module>'
            p = par.get(n)
            line = n.lineno
            if isinstance(n.ctx, ast.Store):
                val = getattr(p, 'value', None)
                cons = f'{rel}::{q}::{pf.nsrc(p)}'
                ctx.need(isinstance(val, ast.Call), f'{cons}: cpu_sem is not assigned from a constructor call')
                ctx.check(pf.dotted(val.func) == CLS and len(val.args) == 1, 'R4', cons,
                          f'cpu_sem is built by `{pf.nsrc(val)}`, not by {CLS}(capacity): the analysed semaphore is not the one in use', m.path, line)
                n_ctor += 1
            elif isinstance(p, ast.Call) and p.func is n:
                item = par.get(p)
                stmt = par.get(item) if item is not None else None
                cons = f'{rel}::{q}::{pf.nsrc(p)}'
                if isinstance(item, ast.withitem) and item.context_expr is p and isinstance(stmt, ast.AsyncWith):
                    ctx.check(len(p.args) == 1 and not p.keywords, 'R4', cons, 'cpu_sem(...) is not called with exactly the weight', m.path, line)
                    n_with += 1
                    sites.append((q, stmt))
                elif isinstance(item, ast.Expr) or (isinstance(item, ast.withitem) and isinstance(stmt, ast.With)):
                    ctx.bad('R4', cons, f'`{pf.nsrc(p)}` is not the context expression of an `async with`: nothing is acquired / the acquired CPU is not released on every exit',
                            m.path, line)
                else:
                    raise AnalysisError(f'{cons}: the context manager is not entered by `async with` directly (indirect entering is not analysed)')
            elif isinstance(p, ast.Attribute) and p.value is n and p.attr == 'value':
                cons = f'{rel}::{q}::{pf.nsrc(p)}'
                ctx.check(isinstance(p.ctx, ast.Load) and not isinstance(par.get(p), ast.AugAssign), 'R4', cons,
                          'the worker writes the semaphore counter directly: capacity is taken or returned behind the queue (a grant that overtakes the waiters / a value '
                          'no release accounts for)', m.path, line)
            elif isinstance(p, ast.Attribute) and p.value is n and p.attr == 'queue':
                up = par.get(p)
                cons = f'{rel}::{q}::{pf.nsrc(up) if up is not None else pf.nsrc(p)}'
                mutating = isinstance(p.ctx, (ast.Store, ast.Del)) or (isinstance(up, ast.Attribute) and up.value is p and isinstance(par.get(up), ast.Call)
                                                                      and up.attr not in ('copy', 'count', 'index', '__len__'))
                ctx.check(not mutating, 'R2', cons, 'the worker manipulates the waiter queue of the semaphore directly: waiters are dropped or reordered outside acquire/release',
                          m.path, line)
            elif isinstance(p, ast.Attribute) and p.value is n and p.attr == 'acquire' and _handed_to(par, p) is not None and fn is not None:
                # the bound method `S.acquire` (or the coroutine object `S.acquire(w)`) is an ARGUMENT of another call: who runs it, and may it be cancelled on its own?
                handed, recv = _handed_to(par, p)  # type: ignore[misc]
                _r5_handed(ctx, m, mf, exposed, q, handed, recv, cancel_safe, f'`{pf.nsrc(handed)}` (the semaphore\'s acquire)')
                handed_fns.add(id(fn))
            elif isinstance(p, ast.Attribute) and p.value is n and p.attr in ('acquire', 'release') and isinstance(par.get(p), ast.Call) and par[p].func is p:
                ctx.need(fn is not None, f'{rel}: {pf.nsrc(par[p])} at module level')
                manual.setdefault(id(fn), (fn, q, set()))[2].add(pf.nsrc(n))  # type: ignore[arg-type]
            elif isinstance(p, ast.Assign) and p.value is n and len(p.targets) == 1 and isinstance(p.targets[0], ast.Name) and fn is not None:
                # local alias `sem = <worker>.cpu_sem`: every use of the alias must be one of the analysed forms
                alias = p.targets[0].id
                ctx.need(pf.single_def(fn, alias) is n, f'{rel}::{q}: alias `{alias}` of cpu_sem is assigned more than once')
                for x in pf.walk_shallow(fn):
                    if not (isinstance(x, ast.Name) and x.id == alias and isinstance(x.ctx, ast.Load)):
                        continue
                    px = par.get(x)
                    if isinstance(px, ast.Attribute) and px.value is x and px.attr in ('acquire', 'release') and isinstance(par.get(px), ast.Call) and par[px].func is px:
                        manual.setdefault(id(fn), (fn, q, set()))[2].add(alias)
                    elif isinstance(px, ast.Call) and px.func is x and isinstance(par.get(px), ast.withitem) and isinstance(par.get(par[px]), ast.AsyncWith):
                        ctx.check(len(px.args) == 1 and not px.keywords, 'R4', f'{rel}::{q}::{pf.nsrc(px)}', 'cpu_sem(...) is not called with exactly the weight', m.path, x.lineno)
                        n_with += 1
                    else:
                        raise AnalysisError(f'{rel}::{q}: unrecognised use of the cpu_sem alias `{alias}`: `{pf.nsrc(px) if px is not None else alias}`')
            else:
                raise AnalysisError(f'{rel}::{q}: unrecognised use of cpu_sem: `{pf.nsrc(p) if p is not None else pf.nsrc(n)}` (handing over the semaphore is not analysed)')
        # manual acquisitions are waiting sites too; an @asynccontextmanager method that acquires around its `yield` moves the site to its `async with` users
        cm_uses: Dict[str, List[Tuple[str, ast.AST]]] = {}
        for fn, q, recvs in manual.values():
            if id(fn) in handed_fns:
                continue
            for x in pf.walk_shallow(fn):
                if isinstance(x, ast.Await) and isinstance(x.value, ast.Call) and isinstance(x.value.func, ast.Attribute) and x.value.func.attr == 'acquire' \
                        and pf.nsrc(x.value.func.value) in recvs:
                    sites.append((q, x))
            if any(d.split('.')[-1] == 'asynccontextmanager' for d in pf.decorator_names(fn)) and any(isinstance(x, ast.Yield) for x in pf.walk_shallow(fn)):
                cm_uses[q] = _cm_users(ctx, m, mf, q, fn)
                sites.extend(cm_uses[q])
        _r5_sites(ctx, m, mf, exposed, sites, cancel_safe)
        covered: set = set()
        replaced: set = set()  # callers analysed with an acquire-only helper inlined (their un-inlined form is not a pairing site)
        pending = []
        for fn, q, recvs in manual.values():
            if id(fn) in handed_fns:
                continue  # reported by R5: the acquire does not run in this function, so there is no pairing to analyse here
            ctx.need(len(recvs) == 1, f'{rel}::{q}: the semaphore is reached through several expressions {sorted(recvs)}')
            S = next(iter(recvs))
            # acquire and release not both in this function: analyse it with its same-class helpers inlined (a release moved into a helper method)
            fn2, m2 = fn, m
            names = {pf.dotted(c.func) for c in pf.calls_in(fn)}
            if not {f'{S}.acquire', f'{S}.release'} <= names and f'{S}.acquire' in names and '.' in q:
                cname = q.rsplit('.', 2)[-2]
                try:
                    m2, il = inline_methods(m, cname, fn.name)
                    fn2 = m2.func(q)
                    covered |= {f'{q.rsplit(".", 1)[0]}.{h}' for h, _ in il.inlined}
                except AnalysisError:
                    fn2, m2 = fn, m
                if not any(pf.dotted(c.func) == f'{S}.release' for c in pf.calls_in(fn2)):
                    # an acquire-only helper (`await self._take_cores()` ... release in the caller): the pairing is decided in the same-class callers, with the helper inlined
                    recv0 = fn.args.args[0].arg if fn.args.args else 'self'
                    callers = [(k, g) for k, g in mf.by_q.items() if mf.class_of(k) is not None and k.count('.') == 1 and g is not fn
                               and fn.name in {c.func.attr for c in pf.calls_in(g) if isinstance(c.func, ast.Attribute) and pf.nsrc(c.func.value) == recv0}
                               and mf.lookup_method(mf.class_of(k), fn.name) == q]  # type: ignore[arg-type]
                    ctx.need(callers, f'{rel}::{q}: acquires {S} but never releases it, and no same-class caller was found (pairing across classes/modules is not analysed)')
                    for k, g in callers:
                        try:
                            mk, ilk = inline_methods(m, k.split('.')[0], g.name)
                        except AnalysisError as e:
                            raise AnalysisError(f'{rel}::{k}: calls the acquire-only helper {q} and cannot be inlined ({e})')
                        ctx.need(any(h == fn.name for h, _ in ilk.inlined), f'{rel}::{k}: calls the acquire-only helper {q} in a form that is not inlined (pairing across that call is not analysed)')
                        pending.append((mk.func(k), mk, k, S))
                        replaced.add(k)
                    continue
            if q not in replaced:
                pending.append((fn2, m2, q, S))
        pending = [x for i, x in enumerate(pending) if not (x[2] in replaced and x[1] is m)]
        for fn2, m2, q, S in pending:
            has_acq = any(pf.dotted(c.func) == f'{S}.acquire' for c in pf.calls_in(fn2))
            if not has_acq and q in covered:
                continue  # a helper whose body was analysed inside its caller
            na, nr = _manual_site(ctx, m2, fn2, q, S, m)
            if q in cm_uses:
                # the pairing holds inside the context manager (release in the finally around the yield): each `async with self.<helper>()` is an acquisition site
                ctx.need(na == 1 and nr >= 1, f'{rel}::{q}: context-manager helper with {na} acquire(s) / {nr} release(s)')
                n_with += len(cm_uses[q])
                ctx.unit('context_manager_helpers', 1)
            else:
                n_manual += na
    ctx.unit('functions_that_cancel_what_they_are_given', n_cancellers)
    ctx.unit('worker_async_with_sites', n_with)
    if n_manual:
        ctx.unit('worker_manual_sites', n_manual)
    ctx.need(n_ctor >= 1, 'the construction of cpu_sem was not found')
    ctx.need(n_with + n_manual >= 2, f'only {n_with + n_manual} acquisition site(s) of cpu_sem found under {roots} (DockerJob.run and JVMJob.run expected)')


def _cancel_info(ctx: Ctx, m: pf.Module, cls: ast.ClassDef) -> bool:
    """Does acquire run ANY code touching the semaphore state when it is cancelled while waiting?  False = provably no clean-up: the queue entry of a
    cancelled waiter stays where it is (R5 then forbids abandoning a queued wait).  True = some handler exists; its correctness is not analysed."""
    fn = af.method(m, cls, 'acquire')
    safe = True
    for n in pf.walk_shallow(fn):
        if isinstance(n, ast.Await):
            blocks, _ = af.cancel_blocks(m, fn, n)
            cleans = any(any((isinstance(c, ast.Call) and pf.dotted(c.func) == 'self.release') or (isinstance(c, ast.Attribute) and pf.nsrc(c) in (Q, VAL))
                             for s_ in b for c in ast.walk(s_)) for _, b in blocks)
            if not cleans:
                safe = False
                ctx.info(f'{F}::{CLS}.acquire: `{pf.nsrc(n)}` has no cancellation clean-up; a waiter cancelled while queued stays in the queue and '
                         f'a later release charges its weight to nobody (capacity lost for good). R5 checks that no use site abandons a queued wait '
                         f'(timeout / race against another event); cancellation of the whole worker at shutdown is outside the property.')
    return safe


def _r5_control(ctx: Ctx) -> None:
    """Positive control: the canceller recognition must see through the idiom the worker uses (task + FIRST_COMPLETED + cancel in finally) and a thin wrapper."""
    src = ('import asyncio\n'
           'async def race(event, f, *args):\n'
           '    step = asyncio.create_task(f(*args))\n'
           '    other = asyncio.create_task(event.wait())\n'
           '    try:\n'
           '        await asyncio.wait([other, step], return_when=asyncio.FIRST_COMPLETED)\n'
           '    finally:\n'
           '        for t in (step, other):\n'
           '            if not t.done():\n'
           '                t.cancel()\n'
           'class J:\n'
           '    async def until_deleted(self, g, *a):\n'
           '        return await race(self.ev, g, *a)\n'
           '    async def plain(self, g):\n'
           '        return await g()\n')
    mm = pf.Module('<control>', '<control>', src, ast.parse(src))
    exp = cf.cancel_exposed(cf.ModFuncs(mm))
    ok = 'f' in exp.get('race', {}) and 'g' in exp.get('J.until_deleted', {}) and 'J.plain' not in exp
    ctx.need(ok, f'internal: canceller recognition failed its positive control ({exp})')
    ctx.ok('R5', 'control::task raced against an event and cancelled, through a wrapper method', sorted(exp), nontrivial=False)


def run(ctx: Ctx) -> None:
    ctx.explanation = ('CFG guard-dominance with await-atomicity for every decrement of the counter, exhaustive evaluation of the extracted guards over '
                       '{value<w, value==w, value>w} x {queue empty, non-empty}, closed set of deque operations, must-pass analysis of the wake loop, '
                       'pairing of acquire/release in the context manager and closure over all uses of cpu_sem under batch/batch/worker (manual pairing on the CFG with exception edges).')
    ctx.rule('R1', 'every `self.value -= w` is reached only through a test edge implying self.value >= w, with no await / write in between', 2)
    ctx.rule('R2', 'queue is a deque used only via append / [0] / popleft / emptiness tests; fast path requires an empty queue; tuple layout agrees', 7)
    ctx.rule('R3', 'acquire grants immediately iff queue empty and fits, else enqueues and waits; release gives back, then wakes heads while they fit '
                   '(set+popleft+decrement together) and stops only when the head does not fit', 13)
    ctx.rule('R4', 'context manager releases exactly what it acquired on exit; every worker acquisition of cpu_sem is `async with cpu_sem(w)` or a manual acquire '
                   'released exactly once with the same weight on every exit and never without a completed acquire; nobody writes .value / .queue', 7)
    ctx.rule('R5', 'no queued waiter is abandoned: acquire has no cancellation clean-up, so no worker acquisition of cpu_sem is raced against another event / a timeout '
                   '(acquire handed to a function that cancels what it is given, a timeout block around the wait, a waiting function handed to such a canceller)', 3)
    ctx.assume('asyncio runs one coroutine at a time and switches only at await; asyncio.Event.set wakes every waiter of that event')
    ctx.assume('requested weights do not exceed the capacity (quantifier of the property)')
    m = pf.load(F)
    ctx.unit('files', 2)
    cls = m.cls(CLS)
    guards = af.guarded_decrements(ctx, m, cls, 'R1', VAL, [Q])
    _r2_fifo(ctx, m, cls)
    layout = _acquire(ctx, m, cls, guards)
    _release(ctx, m, cls, guards, layout)
    _ctx_manager(ctx, m)
    cancel_safe = _cancel_info(ctx, m, cls)
    _r5_control(ctx)
    _worker_uses(ctx, cancel_safe)
    ctx.unit('functions', 7)
