"""C16 Worker CPU semaphore is safe, FIFO and live.

Decides from the syntax tree / CFG of batch/batch/semaphore.py and batch/batch/worker/worker.py (nothing is run):
  R1 safety    every `self.value -= w` is reached only through a test edge that implies `self.value >= w`, atomically
               (no await, no other write in between); the guard is evaluated exhaustively over {<,==,>} x {queue empty, not}
  R2 FIFO      the waiter queue is a deque that is only appended on the right, read at [0] and popleft'ed; the fast path of
               acquire is taken only when the queue is empty; the (event, weight) layout agrees between writer and reader.  `queue.remove(x)` is accepted only when x is
               provably the entry THIS invocation enqueued (same expression through single-definition locals, carries an object created by this call, the append dominates
               the removal): a waiter leaving on its own (abandon, timeout, cancellation) does not change the order of the others; any other removal is reported
  R3 liveness  acquire grants immediately iff (queue empty and value >= weight), otherwise enqueues and waits on the enqueued
               event; release adds the weight back, then loops while the queue is non-empty, wakes the head iff it fits
               (set + popleft + decrement together, atomically) and stops only when the head does not fit
  R4 pairing   the context manager releases exactly the weight it acquired; EVERY acquisition of `cpu_sem` under batch/batch/worker/ (all files; thorough tier:
               all of batch/batch) is either `async with <worker>.cpu_sem(w)` or a manual `await S.acquire(w)` that is followed on every exit of the function -
               normal, exception, cancellation at any later await; CFG with exception edges, statements outside any try escape directly - by exactly one
               `S.release(w')` with w' = w (linear normal forms with opaque `mod c` atoms compared, no evaluation), and no release is reachable unless an acquire
               COMPLETED (acquire inside the try whose finally releases; release inside `async with`).  Same-class helpers are inlined when the release lives in
               one.  No user writes `.value` or manipulates `.queue` of the semaphore.  At least two acquisition sites (DockerJob.run, JVMJob.run) must be found
  R5 no abandoned waiter   FIFOWeightedSemaphore.acquire runs no clean-up when it is cancelled (decided: no except/finally around its await touches queue / value / release),
               so a waiter that is cancelled while QUEUED leaves its entry behind, release later "grants" it and that weight is lost for good: the head waiter then blocks on an
               idle worker.  Hence no acquisition of cpu_sem may be cancellable on its own: the bound `acquire` (or the coroutine object) is not handed to a function that cancels
               what it is given (per module: parameters whose awaitable becomes a task that the function `.cancel()`s / is passed to wait_for / is awaited under a timeout block,
               closed under thin wrappers and resolved through the class hierarchy), the waiting statement is not inside `async with asyncio.timeout(...)`, and no function that
               (transitively, through awaited same-module calls) waits for the semaphore is handed to such a canceller.  Receivers other than self are decided only when every
               method of that name waits; otherwise the site is declined, never passed.  @asynccontextmanager helpers that acquire around their `yield` are followed to their users
  R6 head invariant   whenever other coroutines can run, a non-empty queue has a head that does NOT fit.  It is disturbed by every increase of `value` and every removal from the
               queue (in ANY method, including a waiter removing its own entry): from each such statement every CFG path to the next suspension point / return / raise must
               pass the wake loop (release's loop, a call of a synchronous method that runs it on every path; private helpers that return disturbed are judged at their call
               sites); otherwise the new head may fit and stay blocked.  A removal that is reached only inside `except CancelledError` is decided together with R5: it matters
               iff some acquisition can be cancelled on its own.  An own-entry removal must be guarded, atomically, by `not event.is_set()` / `entry in queue` (granted and
               abandoned in the same tick: the weight release() took on the waiter's behalf would be lost)
  R3/R4 conditional acquire   acquire may take optional parameters and may GIVE UP (own entry removed / nothing taken): every exit is classified granted / gave up from the CFG, the
               returned constants must tell the two apart, acquire's own calls of release give back exactly what the waiter holds (weight after a grant it abandons, 0 otherwise),
               the context manager keeps the result and releases iff granted, and every `async with cpu_sem(w, <enabling argument>) as x` runs its body only when x says granted
Does not decide: schedules as such; cancellation of the whole worker at shutdown (task manager) is outside the property; who cancels a task handle stored in an attribute.
"""
from __future__ import annotations

import ast
from typing import Dict, List, Optional, Tuple

from engines import asyncfacts as af
from engines import c1516facts as cf
from engines import pyfacts as pf
from engines.common import AnalysisError, Ctx, short
from engines.c16norm import normalise
from engines.inline import inline_methods

META = dict(
    category='other',
    text='Structural necessary conditions of safety/FIFO/liveness of the weighted semaphore decided on the CFG: guard dominance with '
         'atomicity between suspension points, exhaustive evaluation of the extracted guards over the order relation x queue emptiness, '
         'closed set of queue operations, acquire/release pairing on all exits of the context manager and at every use site in the worker '
         '(async with, or manual acquire/release checked on the CFG with exception edges: release on every exit, only after a completed acquire, once, same weight), '
         'a who-may-cancel analysis showing that no queued waiter can be abandoned (acquire has no cancellation clean-up), and the head invariant: after every increase of the counter / removal '
         'from the queue the wake loop runs before the next suspension point (must-pass on the CFG of every method); give-up capable acquires (abandon / timeout) are followed to the context manager and the worker. '
         'Not a proof over interleavings: the rules are the invariants an interleaving argument needs, checked statement by statement.',
    note='Trusted: CPython ast; engines/pyfacts CFG; asyncio runs one coroutine at a time and only switches at await. '
         'Not decided: weights above capacity; cancellation of the whole worker at shutdown; task handles kept in attributes (declined when they may hold a waiting job).',
    technique='static analysis: CFG guard dominance + await-atomicity + finite truth tables over extracted tests + use-site closure + who-may-cancel analysis of handed-over awaitables',
    design_ref='DESIGN.md §3 C16',
)

F = 'batch/batch/semaphore.py'
WK = 'batch/batch/worker/worker.py'
CLS = 'FIFOWeightedSemaphore'
CM = 'FIFOWeightedSemaphoreContextManager'
VAL = 'self.value'
Q = 'self.queue'

FIFO_OK = {'method:append', 'index:0', 'method:popleft', 'truth', 'len', 'contains'}
FIFO_BAD = {'method:appendleft': 'enqueues at the head', 'method:pop': 'removes the newest waiter', 'method:insert': 'enqueues out of order',
            'method:rotate': 'reorders waiters', 'method:reverse': 'reorders waiters',
            'method:extendleft': 'enqueues at the head', 'method:clear': 'drops waiters without waking them', 'method:sort': 'reorders waiters'}


_FRESH_CTORS = ('Event', 'Future', 'create_future', 'Condition', 'Lock', 'object')


def _entry_expr(fn: pf.FuncDef, e: ast.AST) -> ast.AST:
    """The queue element an expression denotes: a single-definition local is followed to its defining expression."""
    return pf.resolve_expr(fn, e) if isinstance(e, ast.Name) else e


def _own_entry(m: pf.Module, call: ast.AST) -> Tuple[str, str]:
    """`self.queue.remove(X)`: is X provably the entry that THIS invocation appended?  ('own', '') | ('other', why) | ('unknown', why).
    Own = the function appends exactly one element, X denotes the same expression (locals followed to their single definition), none of its
    names is rebound, one component is an object created by this invocation (so equality identifies exactly this entry) and the append
    dominates the removal."""
    fn = m.enclosing_func(call)
    if fn is None or not isinstance(call, ast.Call) or len(call.args) != 1 or call.keywords:
        return 'unknown', 'not a one-argument call inside a method'
    apps = [c for c in pf.calls_in(fn) if pf.dotted(c.func) == f'{Q}.append' and len(c.args) == 1]
    if not apps:
        return 'other', f'{fn.name} enqueues nothing itself, so the removed element is somebody else\'s entry'
    if len(apps) != 1:
        return 'unknown', f'{fn.name} enqueues at {len(apps)} places'
    a, r = _entry_expr(fn, apps[0].args[0]), _entry_expr(fn, call.args[0])
    if pf.nsrc(a) != pf.nsrc(r):
        return 'other', f'it removes `{pf.nsrc(call.args[0])}`, which is not the element this call enqueued (`{pf.nsrc(apps[0].args[0])}`)'
    names = pf.names_in(a) | pf.names_in(apps[0].args[0]) | pf.names_in(call.args[0])
    asg = pf.assignments(fn)
    multi = sorted(nm for nm in names if nm in asg and len(asg[nm]) != 1)
    if multi:
        return 'unknown', f'`{multi[0]}` is assigned more than once in {fn.name}'
    comps = a.elts if isinstance(a, ast.Tuple) else [a]
    fresh = False
    for c in comps:
        d = pf.single_def(fn, c.id) if isinstance(c, ast.Name) else c
        if isinstance(d, ast.Call) and (pf.dotted(d.func) or '').split('.')[-1] in _FRESH_CTORS:
            fresh = True
    if not fresh:
        return 'unknown', f'no component of `{pf.nsrc(a)}` is an object created by this call: equality may match another waiter\'s entry'
    cfg = pf.cfg(fn)
    A = [n for n in cfg.nodes if n.ast is not None and any(c is apps[0] for c in pf.node_calls(n))]
    R = [n for n in cfg.nodes if n.ast is not None and any(c is call for c in pf.node_calls(n))]
    if len(A) != 1 or not R or not all(cfg.dominated_by(x, lambda n: n is A[0]) for x in R):
        return 'unknown', 'the removal is not dominated by the enqueue'
    return 'own', ''


def _r2_fifo(ctx: Ctx, m: pf.Module, cls: ast.ClassDef) -> None:
    uses = af.container_uses(m, cls, Q)
    ctx.need(uses, f'{F}: no use of {Q}')
    for u in uses:
        cons = f'{F}::{u.func}::{u.detail}'
        line = getattr(u.node, 'lineno', 0)
        if u.kind == 'assign':
            p = m.parents().get(u.node)
            val = getattr(p, 'value', None)
            ctx.need(u.func.endswith('__init__'), f'{cons}: queue rebound outside __init__')
            ok = isinstance(val, ast.Call) and pf.dotted(val.func) in ('collections.deque', 'deque') and not val.args and not val.keywords
            ctx.need(ok, f'{cons}: queue is not initialised with an empty collections.deque()')
            ctx.ok('R2', cons, 'empty deque')
        elif u.kind in FIFO_OK:
            ctx.ok('R2', cons, u.kind)
        elif u.kind == 'method:remove':
            # a waiter taking ITS OWN entry out (cancellation, abandon, timeout) keeps the relative order of everybody else: FIFO concerns the order in which the
            # REMAINING waiters are granted.  Whether the new head is then served is R6's concern.
            verdict, why = _own_entry(m, u.node)
            ctx.need(verdict != 'unknown', f'{cons}: cannot decide whose entry is removed ({why})')
            ctx.check(verdict == 'own', 'R2', cons, f'`{u.detail}` can remove ANOTHER waiter\'s entry: {why}; that waiter is overtaken by everybody behind it (and never woken): '
                      'waiters are no longer granted in arrival order', m.path, line, detail='own entry removed: the order of the remaining waiters is unchanged')
        elif u.kind in FIFO_BAD:
            ctx.bad('R2', cons, f'`{u.detail}` {FIFO_BAD[u.kind]}: waiters are no longer granted in arrival order', m.path, line)
        elif u.kind.startswith('index:') or u.kind.startswith('setitem:') or u.kind.startswith('delitem:'):
            ctx.bad('R2', cons, f'`{u.detail}` touches a queue position other than the head [0]: a waiter other than the oldest is examined/changed',
                    m.path, line)
        else:
            raise AnalysisError(f'{cons}: unrecognised use of the waiter queue ({u.kind})')


class _Hole:
    """A removal that leaves the new head unserved but is reached only when a queued wait is cancelled: decided together with R5 (can a queued wait be cancelled on its own?)."""

    def __init__(self, cons: str, msg: str, path: str, line: int):
        self.cons, self.msg, self.path, self.line = cons, msg, path, line
        self.reported = False


def _in_cancel_only_handler(m: pf.Module, fn: pf.FuncDef, node: ast.AST) -> bool:
    """Inside an `except` clause that catches nothing but CancelledError (a timeout / abandon handler is ordinary control flow)."""
    par = m.parents()
    cur: Optional[ast.AST] = node
    while cur is not None and cur is not fn:
        if isinstance(cur, ast.ExceptHandler):
            types = cur.type.elts if isinstance(cur.type, ast.Tuple) else [cur.type] if cur.type is not None else []
            return bool(types) and all(pf.dotted(t) in ('asyncio.CancelledError', 'CancelledError', 'asyncio.exceptions.CancelledError') for t in types)
        cur = par.get(cur)
    return False


_R6_HISTORY = ('History with capacity 4000: J1(2000) runs; J2(3000) waits at the head, J3(2000) behind it; J2 leaves the queue; J3 is now the oldest waiter and 2000 are free, '
               'but nobody sets its event: it stays blocked until some unrelated job releases, and every newcomer queues up behind it (liveness)')


def _r6_liveness(ctx: Ctx, m: pf.Module, cls: ast.ClassDef) -> List[_Hole]:
    """Head invariant: whenever other coroutines can run (a suspension point, or after a method returned) a non-empty queue has a head that does NOT fit.
    release's wake loop establishes it; enqueueing at the tail preserves it; it is disturbed by (a) an increase of the counter and (b) any removal from the
    queue (the head may change).  After a disturbance the wake loop must run before the next suspension point / return, otherwise the (new) head may fit and stay blocked."""
    methods = [st for st in cls.body if isinstance(st, (ast.FunctionDef, ast.AsyncFunctionDef))]
    by_name = {f.name: f for f in methods}
    recv = {f.name: (f.args.args[0].arg if f.args.args else 'self') for f in methods}
    loops: Dict[str, af.WakeLoop] = {}
    for f in methods:
        if isinstance(f, ast.FunctionDef):
            try:
                loops[f.name] = af.wake_loop(m, cls, f.name, VAL, Q)
            except AnalysisError:
                continue
    ctx.need(loops, f'{F}::{CLS}: no method with a recognised wake loop over {Q}')

    def self_calls(n: pf.Node, fname: str) -> List[Tuple[str, ast.Call, bool]]:
        """(method name, call, awaited?) for calls `self.g(...)` evaluated at this node."""
        out = []
        par = m.parents()
        for c in pf.node_calls(n):
            if isinstance(c.func, ast.Attribute) and isinstance(c.func.value, ast.Name) and c.func.value.id == recv[fname] and c.func.attr in by_name:
                out.append((c.func.attr, c, isinstance(par.get(c), ast.Await)))
        return out

    def normal(a: pf.Node, b: pf.Node, lab: str) -> bool:
        return lab != 'exc' or a.kind == 'raise'

    # grant methods: synchronous methods every normal execution of which runs the wake loop (closed under calls on every path)
    grant: set = set()

    def grant_nodes(fname: str) -> List[pf.Node]:
        cfg = pf.cfg(by_name[fname])
        out = []
        if fname in loops:
            out.append(af.test_node(cfg, loops[fname].stmt.test))  # type: ignore[union-attr]
        for n in cfg.nodes:
            if n.ast is not None and any(g in grant and not aw for g, _, aw in self_calls(n, fname)):
                out.append(n)
        return out
    changed = True
    while changed:
        changed = False
        for f in methods:
            if f.name in grant or not isinstance(f, ast.FunctionDef):
                continue
            cfg = pf.cfg(f)
            gn = grant_nodes(f.name)
            if gn and cfg.path_avoiding(cfg.entry, lambda n: n is cfg.exit, lambda n: any(n is x for x in gn), edge_ok=normal) is None:
                grant.add(f.name)
                changed = True

    def removal(n: pf.Node) -> Optional[str]:
        for c in pf.node_calls(n):
            d = pf.dotted(c.func) or ''
            if d.startswith(Q + '.') and d[len(Q) + 1:] in ('remove', 'popleft', 'pop', 'clear'):
                return pf.nsrc(c)
        a = n.ast
        if n.kind == 'stmt' and isinstance(a, ast.Delete) and any(isinstance(t, ast.Subscript) and pf.nsrc(t.value) == Q for t in a.targets):
            return pf.nsrc(a)
        return None

    def increase(n: pf.Node) -> Optional[str]:
        a = n.ast
        if n.kind == 'stmt' and isinstance(a, ast.AugAssign) and isinstance(a.op, ast.Add) and pf.nsrc(a.target) == VAL:
            return pf.nsrc(a)
        return None
    called_inside = {g for f in methods for n in pf.cfg(f).nodes if n.ast is not None for g, _, _ in self_calls(n, f.name)}
    # methods that return with the invariant disturbed (private synchronous helpers): their call sites are disturbances of the caller
    disturbing: Dict[str, str] = {}
    holes: List[_Hole] = []
    verdicts: Dict[str, Tuple[bool, str, int]] = {}
    for _round in range(len(methods) + 1):
        verdicts = {}
        holes = []
        before = dict(disturbing)
        for f in methods:
            if f.name == '__init__':
                continue
            cfg = pf.cfg(f)
            q = f'{CLS}.{f.name}'
            reach = cfg.reachable_from(cfg.entry)
            normal_reach = cfg.reachable_from(cfg.entry, edge_ok=lambda a, b, lab: lab != 'exc')
            gn = grant_nodes(f.name)
            for D in cfg.nodes:
                if D.ast is None or D.id not in reach or D.kind == 'except':
                    continue
                what = removal(D)
                kind = 'removal'
                if what is None:
                    what = increase(D)
                    kind = 'increase'
                if what is None:
                    ds = [(g, c) for g, c, aw in self_calls(D, f.name) if g in disturbing and g not in grant]
                    if ds:
                        what, kind = pf.nsrc(ds[0][1]), 'call'
                if what is None:
                    continue
                susp = lambda n: n is not D and n.ast is not None and (pf.node_has_await(n) or any(isinstance(x, (ast.Yield, ast.YieldFrom)) for e in pf.node_exprs(n) for x in pf.walk_shallow(e)))  # noqa: E731
                goal = lambda n: n is cfg.exit or n is cfg.raise_exit or susp(n)  # noqa: E731
                p = cfg.path_avoiding(D, goal, lambda n: any(n is x for x in gn), edge_ok=lambda a, b, lab: normal(a, b, lab) and not (a is D and lab == 'exc'))
                cons = f'{F}::{q}::{what}::wake loop runs before the next suspension'
                if p is None:
                    verdicts[cons] = (True, 'the wake loop runs on every path before the coroutine suspends or the method returns', D.lineno)
                    continue
                end = p[-1]
                if end is cfg.exit and isinstance(f, ast.FunctionDef) and f.name in called_inside and f.name not in grant:
                    disturbing[f.name] = what   # decided at the call sites
                    continue
                where = ('the method returns' if end is cfg.exit else 'the exception leaves the method' if end is cfg.raise_exit else f'the coroutine suspends at `{short(end.text(), 60)}`')
                cause = {'removal': f'`{what}` takes an entry out of the waiter queue, so a different waiter may now be at the head',
                         'increase': f'`{what}` frees capacity',
                         'call': f'`{what}` returns with the queue/counter changed ({disturbing.get(what.split("(")[0].split(".")[-1], "")})'}[kind]
                msg = (f'{cause}, but {where} (path: {cf.describe_path(p)}) without running the wake loop of {"/".join(sorted(loops))}: the head of the queue may fit into {VAL} '
                       f'and is not woken. {_R6_HISTORY}')
                if D.id not in normal_reach and kind == 'removal' and _in_cancel_only_handler(m, f, D.ast):
                    # reached only through an exception edge: clean-up of a wait that raised, i.e. was cancelled
                    holes.append(_Hole(cons, msg, m.path, D.lineno))
                    continue
                verdicts[cons] = (False, msg, D.lineno)
        if disturbing == before:
            break
    for cons, (ok, msg, line) in verdicts.items():
        ctx.check(ok, 'R6', cons, msg if not ok else '', m.path, line, detail=msg if ok else None)
    # an own-entry removal must happen only while the entry is still queued (not yet granted): otherwise the weight release() took on the waiter's behalf is lost
    for f in methods:
        cfg = pf.cfg(f)
        reach = cfg.reachable_from(cfg.entry)
        for D in cfg.nodes:
            if D.ast is None or D.id not in reach:
                continue
            for c in pf.node_calls(D):
                if pf.dotted(c.func) != f'{Q}.remove' or _own_entry(m, c)[0] != 'own':
                    continue
                ent = _entry_expr(f, c.args[0])
                evs = [x.id for x in (ent.elts if isinstance(ent, ast.Tuple) else [ent]) if isinstance(x, ast.Name)
                       and isinstance(pf.single_def(f, x.id), ast.Call) and (pf.dotted(pf.single_def(f, x.id).func) or '').split('.')[-1] == 'Event']  # type: ignore[union-attr]
                cons = f'{F}::{CLS}.{f.name}::{pf.nsrc(c)}::only while still queued'
                ctx.need(len(evs) == 1, f'{cons}: the entry carries no single asyncio.Event')
                ev = evs[0]
                guarded = False
                for t in cfg.nodes:
                    if t.kind != 'test':
                        continue
                    for lab in ('T', 'F'):
                        if not any(l_ == lab for _, l_ in t.succ) or not af.every_path_uses_edge(cfg, D, t, lab) or not af.direct(cfg, t, D, lab):
                            continue
                        still = af.implied_on_edge(t.ast, lab, f'{ev}.is_set()', False) or any(
                            af.implied_on_edge(t.ast, lab, f'{k} in {Q}', True) or af.implied_on_edge(t.ast, lab, f'{k} not in {Q}', False) for k in (pf.nsrc(c.args[0]), pf.nsrc(ent)))
                        if still and not any(pf.node_has_await(x) for x in af.between(cfg, t, D, lab)):
                            guarded = True
                if not guarded:
                    par = m.parents()
                    cur = par.get(c)
                    while cur is not None and cur is not f:
                        ctx.need(not (isinstance(cur, ast.Try) and any(h.type is not None and 'ValueError' in pf.nsrc(h.type) for h in cur.handlers)),
                                 f'{cons}: removal protected by `except ValueError` (not analysed)')
                        cur = par.get(cur)
                ctx.check(guarded, 'R6', cons,
                          f'`{pf.nsrc(c)}` is not guarded (atomically, no await in between) by `not {ev}.is_set()`: when release() granted this waiter in the same tick (it popped the entry, '
                          f'took the weight off {VAL} and set the event) the removal raises ValueError, acquire fails and nobody gives that weight back - {VAL} stays short for good and a head '
                          'waiter that fits the idle worker stays blocked (liveness)', m.path, D.lineno, detail=f'guarded by not {ev}.is_set()')
    return holes


class _AcqSpec:
    """What a caller of acquire has to know: can it return WITHOUT holding the weight (the waiter gave up), and how is that signalled."""

    def __init__(self) -> None:
        self.unknown = False                # a violation was reported on acquire's shape: the result convention is not established
        self.conditional = False            # some return is reached after the waiter took its own entry out / before it took anything
        self.granted_truthy = True          # truth value of the result when the weight is held (meaningful when conditional)
        self.extra_params: List[str] = []   # optional parameters after the weight
        self.giveup_needs: List[str] = []   # giving up happens only when one of these optional parameters is not None ([] = not established)


def _gives_up(spec: _AcqSpec, passed: set) -> Optional[bool]:
    """Can an acquisition that passes the optional acquire-parameters `passed` (non-None) return without holding the weight?  None = not established."""
    if not spec.conditional:
        return False
    if not spec.extra_params:
        return True
    if spec.giveup_needs:
        return any(p in passed for p in spec.giveup_needs)
    return None


def _ret_value(n: pf.Node) -> Optional[ast.AST]:
    return n.ast.value if n.kind == 'return' and isinstance(n.ast, ast.Return) else None


def _acquire(ctx: Ctx, m: pf.Module, cls: ast.ClassDef, guards: List[af.Guarded]) -> Tuple[Optional[List[str]], _AcqSpec]:
    """R2 fast path requires empty queue, R3 exact fast-path condition and slow path.  Returns the appended tuple layout and the result convention."""
    fn = af.method(m, cls, 'acquire')
    ctx.need(isinstance(fn, ast.AsyncFunctionDef), 'acquire is not a coroutine')
    cfg = pf.cfg(fn)
    params = [a.arg for a in fn.args.args]
    # (self, weight) plus optional parameters with defaults: `acquire(w)` must stay a valid call
    ctx.need(len(params) >= 2 and len(fn.args.defaults) >= len(params) - 2 and not fn.args.vararg and not fn.args.kwarg and not fn.args.posonlyargs
             and all(d is not None for d in fn.args.kw_defaults), f'acquire parameters changed: {params}')
    w = params[1]
    spec = _AcqSpec()
    spec.extra_params = params[2:] + [a.arg for a in fn.args.kwonlyargs]
    gs = [g for g in guards if g.fnname == 'acquire']
    qn = f'{CLS}.acquire'
    if len(gs) != 1:
        ctx.need(not gs, f'{qn}: {len(gs)} guarded decrements (expected one fast path)')
        af.blocked(ctx, 'R1', 'R2', 'R3')  # R1 already reported the unguarded decrement
        return None, spec
    g = gs[0]
    ctx.need(g.w == w, f'{qn}: fast path decrements `{g.w}`, not the requested weight `{w}`')
    cons = f'{F}::{qn}::fast path `{pf.nsrc(g.test.ast)}`'
    taken = g.label == 'T'
    # R2: fast path only when nobody is queued
    jump = [r for r in g.rows if r[2] == taken and r[1][Q]]
    ctx.check(not jump, 'R2', cons + '::requires empty queue',
              f'the fast path is taken with a non-empty queue (e.g. {VAL} {jump[0][0]} {w}, queue non-empty): a newcomer overtakes the waiters'
              if jump else '', m.path, g.test.lineno)
    # R3: taken iff queue empty and fits
    wrong = [r for r in g.rows if (r[2] == taken) != ((not r[1][Q]) and r[0] in ('==', '>'))]
    ctx.check(not wrong, 'R3', cons + '::exact',
              (f'with {VAL} {wrong[0][0]} {w} and the queue {"non-empty" if wrong[0][1][Q] else "empty"} acquire '
               f'{"grants" if wrong[0][2] == taken else "does not grant"} immediately; it must grant iff the queue is empty and {VAL} >= {w} '
               f'(otherwise the newcomer waits at the head although enough capacity is free, and no release may ever come)') if wrong else '',
              m.path, g.test.lineno)
    # fast path returns without waiting
    aw = [n for n in cfg.reachable_from(g.dec) if pf.node_has_await(cfg.nodes[n])]
    ctx.check(not aw, 'R3', f'{F}::{qn}::fast path returns', 'the granted fast path suspends before returning', m.path, g.dec.lineno)

    # slow path: enqueue (event, weight) then wait on that event
    other = 'F' if g.label == 'T' else 'T'
    apps = af.stmt_nodes(cfg, lambda n: af.node_is_call(n, f'{Q}.append') is not None)
    waits = af.stmt_nodes(cfg, lambda n: pf.node_has_await(n))
    cons2 = f'{F}::{qn}::slow path'
    if len(apps) != 1:
        ctx.need(len(apps) == 0, f'{qn}: {len(apps)} enqueue statements')
        ctx.bad('R3', cons2, 'a request that cannot be granted immediately is never enqueued', m.path, fn.lineno)
        af.blocked(ctx, 'R3', 'R2', 'R3')
        return None, spec
    A = apps[0]
    call = af.node_is_call(A, f'{Q}.append')
    ent = _entry_expr(fn, call.args[0]) if call is not None and len(call.args) == 1 else None
    ctx.need(isinstance(ent, ast.Tuple) and all(isinstance(e, ast.Name) for e in ent.elts), f'{qn}: enqueued element is not a tuple of names')
    if ent is not call.args[0]:  # type: ignore[union-attr]
        ctx.need(all(len(pf.assignments(fn).get(nm, [])) == 1 for nm in pf.names_in(call.args[0])), f'{qn}: the enqueued local is assigned more than once')  # type: ignore[union-attr]
    layout = [e.id for e in ent.elts]  # type: ignore[union-attr,attr-defined]
    ctx.need(w in layout and len(layout) == 2, f'{qn}: enqueued tuple {layout} does not carry the weight `{w}`')
    evname = [x for x in layout if x != w][0]
    edef = pf.single_def(fn, evname)
    ctx.need(isinstance(edef, ast.Call) and pf.dotted(edef.func) in ('asyncio.Event', 'Event'), f'{qn}: `{evname}` is not a fresh asyncio.Event()')
    # every path from the not-granted edge to the exit enqueues, and then either waits on the event (directly), or learns from `event.is_set()` that it was granted,
    # or takes its own entry out again (gives up: it holds nothing; the result convention is checked below and used by R4)
    miss = af.must_pass(cfg, g.test, lambda n: n is cfg.exit, lambda n: n is A, first_label=other)
    def waits_on_event(x: ast.AST) -> bool:
        """`await ev.wait()` or `await asyncio.wait_for(ev.wait(), t)`: normal completion means the event was set."""
        if not isinstance(x, ast.Await):
            return False
        if pf.call_name(x) == f'{evname}.wait':
            return True
        v = x.value
        return isinstance(v, ast.Call) and (pf.dotted(v.func) or '').split('.')[-1] == 'wait_for' and bool(v.args) and isinstance(v.args[0], ast.Call) \
            and pf.dotted(v.args[0].func) == f'{evname}.wait'
    wait_nodes = [n for n in waits if any(waits_on_event(x) for x in ast.walk(n.ast))]
    own_rm = [n for n in af.stmt_nodes(cfg, lambda n: af.node_is_call(n, f'{Q}.remove') is not None) if _own_entry(m, af.node_is_call(n, f'{Q}.remove'))[0] == 'own']
    set_edges = [(t, lab) for t in cfg.nodes if t.kind == 'test' for lab in ('T', 'F') if af.implied_on_edge(t.ast, lab, f'{evname}.is_set()', True)]
    thru = wait_nodes + own_rm

    def not_granted_edge(a: pf.Node, b: pf.Node, lab: str) -> bool:
        return not any(a is t and lab == l_ for t, l_ in set_edges)
    ok = miss is None and bool(wait_nodes or set_edges)
    if ok:
        ok = af.must_pass(cfg, A, lambda n: n is cfg.exit, lambda n: any(n is x for x in thru), edge_ok=not_granted_edge) is None
        if not ok:
            # a path that does suspend (e.g. on a task made from event.wait()) but learns the outcome in a way that is not recognised: not a verdict
            other_waits = [n for n in waits if not any(n is x for x in wait_nodes)]
            ctx.need(af.must_pass(cfg, A, lambda n: n is cfg.exit, lambda n: any(n is x for x in thru + other_waits), edge_ok=not_granted_edge) is not None,
                     f'{qn}: after `{short(other_waits[0].text(), 60) if other_waits else ""}` the waiter does not test `{evname}.is_set()`; how it learns that it was granted is not recognised')
        # nothing between enqueue and a wait may set the event
        for Wn in wait_nodes:
            ok = ok and not any(af.node_is_call(x, f'{evname}.set') for x in af.between(cfg, A, Wn))
        ok = ok and not any(af.node_is_call(x, f'{evname}.set') for x in cfg.nodes if x.ast is not None)
    ctx.check(ok, 'R3', cons2, 'a request that is not granted immediately does not (on every path) enqueue itself and then wait on the enqueued event (or take its own entry out again): '
              'it returns without holding capacity while its entry stays queued, or is never woken', m.path, A.lineno, detail={'layout': layout})
    # acquire must not touch the counter after being woken (release already decremented for it): covered by R1 (any decrement needs a guard)
    ctx.check(A.id not in {x.id for x in af.between(cfg, g.test, g.dec, g.label)} and not af.direct(cfg, g.dec, A),
              'R3', cons2 + '::exclusive', 'the fast path also enqueues the request (it would be granted twice)', m.path, A.lineno)
    # acquire calling release itself (to pass the baton / to give back a grant it abandons): only what this waiter actually holds may be given back
    unset_edges = [(t, lab) for t in cfg.nodes if t.kind == 'test' for lab in ('T', 'F') if af.implied_on_edge(t.ast, lab, f'{evname}.is_set()', False)]
    recv0 = fn.args.args[0].arg
    for n in af.stmt_nodes(cfg, lambda n: af.node_is_call(n, f'{recv0}.release') is not None):
        rc = af.node_is_call(n, f'{recv0}.release')
        cons3 = f'{F}::{qn}::{pf.nsrc(rc)}::gives back only what it holds'
        ctx.need(rc is not None and len(rc.args) == 1 and not rc.keywords, f'{cons3}: unrecognised call')
        arg = rc.args[0]  # type: ignore[union-attr]
        held = any(af.every_path_uses_edge(cfg, n, t, lab) for t, lab in set_edges)
        not_held = any(af.every_path_uses_edge(cfg, n, t, lab) for t, lab in unset_edges) or any(cfg.dominated_by(n, lambda y, u=u: y is u) for u in own_rm)
        ctx.need(held != not_held, f'{cons3}: cannot decide whether the waiter holds its weight at this point')
        zero = isinstance(arg, ast.Constant) and arg.value == 0 and not isinstance(arg.value, bool)
        if held:
            ctx.check(pf.nsrc(arg) == w, 'R4', cons3, f'the waiter was granted `{w}` (release() took it off {VAL} on its behalf) and abandons the grant, but gives back `{pf.nsrc(arg)}`: '
                      f'{VAL} stays short for good - a head waiter that fits the idle worker stays blocked (liveness)', m.path, n.lineno, detail='granted weight given back')
        else:
            ctx.check(zero, 'R4', cons3, f'the waiter was NOT granted anything on this path (its entry was still queued) but gives back `{pf.nsrc(arg)}`: {VAL} exceeds the capacity and later jobs are '
                      'granted more CPU than the worker has (safety); only `release(0)` (re-run the wake loop) is neutral', m.path, n.lineno, detail='release(0): wake loop only')
    spec.unknown = True
    if ok:
        _result_convention(ctx, m, fn, cfg, g, A, wait_nodes, own_rm, set_edges, spec)
    return [('event' if x == evname else 'weight') for x in layout], spec


def _result_convention(ctx: Ctx, m: pf.Module, fn: pf.FuncDef, cfg: pf.CFG, g: af.Guarded, A: pf.Node, wait_nodes: List[pf.Node], own_rm: List[pf.Node],
                       set_edges: List[Tuple[pf.Node, str]], spec: _AcqSpec) -> None:
    """Classify every normal exit of acquire as GRANTED (the weight is held: fast-path decrement, completed wait, `event.is_set()` seen true) or GAVE UP (own entry taken out
    again, or left before taking/enqueueing anything) and compare the returned constants: the caller must be able to tell the two apart (R4)."""
    qn = f'{CLS}.acquire'
    rets: List[Tuple[pf.Node, Optional[ast.AST]]] = [(p, _ret_value(p)) for p, _ in cfg.exit.pred if p.ast is not None or p is cfg.entry]
    granted_marks = [g.dec] + wait_nodes + [b for t, lab in set_edges for b, l_ in t.succ if l_ == lab]
    for t, lab in set_edges:
        for b, l_ in t.succ:
            ctx.need(l_ != lab or len(b.pred) == 1, f'{qn}: the branch taken when the event is set joins other paths immediately')
    is_g = lambda n: any(n is x for x in granted_marks)  # noqa: E731
    is_u = lambda n: any(n is x for x in own_rm)  # noqa: E731
    classes: Dict[str, List[Tuple[pf.Node, Optional[ast.AST]]]] = {'granted': [], 'gave up': [], 'early': []}
    for rn, val in rets:
        dom_g = is_g(rn) or cfg.dominated_by(rn, is_g)
        dom_u = is_u(rn) or cfg.dominated_by(rn, is_u)
        reach_u = is_u(rn) or any(rn.id in cfg.reachable_from(u) for u in own_rm)
        reach_g = is_g(rn) or any(rn.id in cfg.reachable_from(x) for x in granted_marks)
        regrant = any(x.id in cfg.reachable_from(u) and (rn is x or rn.id in cfg.reachable_from(x)) for u in own_rm for x in granted_marks)
        if dom_u and not regrant:
            classes['gave up'].append((rn, val))
        elif dom_g and not reach_u:
            classes['granted'].append((rn, val))
        elif not reach_g and not reach_u and rn.id not in cfg.reachable_from(A):
            classes['early'].append((rn, val))     # left before taking or enqueueing anything
        else:
            raise AnalysisError(f'{qn}: cannot classify the exit `{rn.text()}` as granted / gave up')

    def truth(v: Optional[ast.AST]) -> Optional[bool]:
        if v is None:
            return False
        if isinstance(v, ast.Constant):
            return bool(v.value)
        return None
    tg = {truth(v) for _, v in classes['granted']}
    for rn, v in classes['early']:
        # an exit before anything was taken or enqueued: a give-up when it is signalled differently from a grant; otherwise the caller proceeds (and later releases) although nothing is held
        ctx.need(truth(v) is not None and truth(v) not in tg, f'{qn}: `{rn.text()}` leaves before taking or enqueueing anything, yet signals like a grant (not analysed)')
        classes['gave up'].append((rn, v))
    spec.conditional = bool(classes['gave up'])
    if not spec.conditional:
        spec.unknown = False
        return
    tu = {truth(v) for _, v in classes['gave up']}
    ctx.need(None not in tg and None not in tu, f'{qn}: the result is not a constant on every exit (granted / gave-up convention not analysed)')
    cons = f'{F}::{qn}::result tells granted from gave up'
    clash = tg & tu
    if clash or len(tg) != 1:
        ex = [rn for rn, v in classes['gave up'] if truth(v) in tg] or [classes['gave up'][0][0]]
        ctx.bad('R4', cons, f'acquire can give up waiting (its own entry is taken out of the queue / it returns before taking anything) but then returns `{ex[0].text()}`, the same truth value as '
                'after a grant: the caller cannot tell that it holds nothing - it runs the job without its cores and releases weight it never took, so value exceeds the capacity (safety)',
                m.path, ex[0].lineno)
        return
    spec.granted_truthy = next(iter(tg))  # type: ignore[assignment]
    ctx.ok('R4', cons, {'granted': sorted({pf.nsrc(v) if v is not None else 'None' for _, v in classes['granted']}),
                        'gave up': sorted({pf.nsrc(v) if v is not None else 'None' for _, v in classes['gave up']})})
    # which optional parameter enables giving up?  every gave-up exit is dominated by a test edge implying `<p> is not None`
    opt = [p for p in spec.extra_params]
    needs = []
    for p in opt:
        allp = True
        for rn, _ in classes['gave up']:
            dom = False
            for t in cfg.nodes:
                if t.kind != 'test':
                    continue
                for lab in ('T', 'F'):
                    if any(l_ == lab for _, l_ in t.succ) and af.every_path_uses_edge(cfg, rn, t, lab) and (
                            af.implied_on_edge(t.ast, lab, f'{p} is not None', True) or af.implied_on_edge(t.ast, lab, f'{p} is None', False)):
                        dom = True
            allp = allp and dom
        if allp:
            needs.append(p)
    spec.giveup_needs = needs
    spec.unknown = False


def _release(ctx: Ctx, m: pf.Module, cls: ast.ClassDef, guards: List[af.Guarded], layout: Optional[List[str]]) -> None:
    qn = f'{CLS}.release'
    fn = af.method(m, cls, 'release')
    ctx.need(isinstance(fn, ast.FunctionDef), f'{qn} is a coroutine: its wake-up loop is no longer atomic')
    cfg = pf.cfg(fn)
    params = [a.arg for a in fn.args.args]
    ctx.need(len(params) == 2, f'release parameters changed: {params}')
    w = params[1]
    try:
        wl = af.wake_loop(m, cls, 'release', VAL, Q)
    except af.FitNotOnValue as e:
        ctx.bad('R3', f'{F}::{qn}::wake loop::fit test `{e.test_src}`', f'the head waiter is woken by comparing its weight with the amount being released (`{e.test_src}`), not with the total free '
                f'capacity {VAL}: capacity that was already free, or that is freed by several smaller releases, never wakes a heavier head - it stays blocked although enough capacity is free',
                m.path, e.lineno)
        af.blocked(ctx, 'R3', 'R1', 'R2', 'R3')
        return
    L = af.test_node(cfg, wl.stmt.test)  # type: ignore[union-attr]
    # give-back first
    incs = af.stmt_nodes(cfg, lambda n: isinstance(n.ast, ast.AugAssign) and isinstance(n.ast.op, ast.Add) and pf.nsrc(n.ast.target) == VAL)
    cons = f'{F}::{qn}::give back'
    okinc = len(incs) == 1 and pf.nsrc(incs[0].ast.value) == w and cfg.dominated_by(L, lambda n: n is incs[0]) \
        and cfg.dominated_by(cfg.exit, lambda n: n is incs[0])  # type: ignore[union-attr]
    ctx.check(okinc, 'R3', cons, f'release does not unconditionally add the released weight `{w}` back to {VAL} before waking waiters '
              f'(found {[n.text() for n in incs]})', m.path, fn.lineno)
    # the loop
    cons = f'{F}::{qn}::wake loop'
    ctx.check(wl.is_loop, 'R3', cons + '::repeats',
              f'`if {pf.nsrc(wl.stmt.test)}` wakes at most one waiter per release: after a large release the next head may fit and stays blocked',  # type: ignore[union-attr]
              m.path, wl.stmt.lineno)  # type: ignore[union-attr]
    if not wl.is_loop:
        af.blocked(ctx, 'R3', 'R3')  # the loop-shape instances below do not exist without a loop
    gs = [g for g in guards if g.fnname == 'release']
    if len(gs) != 1:
        ctx.need(not gs, f'{qn}: {len(gs)} guarded decrements')
        af.blocked(ctx, 'R1', 'R2', 'R3')  # R1 already reported the unguarded decrement
        return
    g = gs[0]
    ctx.need(g.test.ast is wl.fit.test, f'{qn}: the decrement is not guarded by the fit test of the wake loop')  # type: ignore[union-attr]
    ctx.need(g.w in wl.names, f'{qn}: decrements `{g.w}`, which is not read from the head of the queue')
    widx = wl.names.index(g.w)
    evname = wl.names[1 - widx] if len(wl.names) == 2 else None
    ctx.need(evname is not None, f'{qn}: head tuple has {len(wl.names)} fields')
    # names not rebound inside the loop
    for nme in wl.names:
        defs = pf.assignments(fn).get(nme, [])
        ctx.need(len(defs) == 1, f'{qn}: `{nme}` is rebound in release')
    # layout agreement writer/reader
    if layout is not None:
        reader = ['weight' if i == widx else 'event' for i in range(2)]
        ctx.check(reader == layout, 'R2', f'{F}::{CLS}::queue element layout',
                  f'acquire enqueues ({", ".join(layout)}) but release unpacks the head as ({", ".join(reader)})', m.path, wl.head.lineno)  # type: ignore[union-attr]
    # exact fit test: wake iff value >= head weight
    taken = g.label == 'T'
    wrong = [r for r in g.rows if (r[2] == taken) != (r[0] in ('==', '>'))]
    ctx.check(not wrong, 'R3', cons + f'::fit test `{pf.nsrc(g.test.ast)}`',
              (f'with {VAL} {wrong[0][0]} {g.w} the head is {"woken" if wrong[0][2] == taken else "not woken"}: '
               f'it must be woken iff {VAL} >= {g.w} (a head that exactly fits stays blocked while enough capacity is free)') if wrong else '',
              m.path, g.test.lineno)
    # wake = set + popleft + decrement, all on every path from the fit edge back to the loop head, atomically
    F_ = g.test
    setn = af.stmt_nodes(cfg, lambda n: af.node_is_call(n, f'{evname}.set') is not None)
    popn = af.stmt_nodes(cfg, lambda n: af.node_is_call(n, f'{Q}.popleft') is not None)
    parts = {'event.set()': setn, 'queue.popleft()': popn, 'value -= weight': [g.dec]}
    goal = (lambda n: n is L or n is cfg.exit or n is cfg.raise_exit)
    for what, nodes in parts.items():
        c2 = cons + f'::wake::{what}'
        if not nodes:
            ctx.bad('R3', c2, f'waking the head never performs {what}: ' + {
                'event.set()': 'the waiter is dequeued and charged but never resumed',
                'queue.popleft()': 'the same head is charged again on the next iteration',
                'value -= weight': 'the woken job runs without being charged (over-grant)'}[what], m.path, g.test.lineno)
            continue
        p = af.must_pass(cfg, F_, goal, lambda n, nodes=nodes: any(n is x for x in nodes), first_label=g.label)
        only = all(af.every_path_uses_edge(cfg, x, F_, g.label) for x in nodes)
        ctx.check(p is None and only, 'R3', c2,
                  f'{what} is not performed exactly on the paths where the head fits (set, popleft and the decrement must go together)',
                  m.path, nodes[0].lineno)
    # after waking, control returns to the loop test (keeps waking); when the head does not fit the loop is left
    other = 'F' if g.label == 'T' else 'T'
    if wl.is_loop:
        back = af.must_pass(cfg, F_, lambda n: n is cfg.exit or n is cfg.raise_exit, lambda n: n is L, first_label=g.label)
        ctx.check(back is None, 'R3', cons + '::continues', 'after waking one waiter release leaves the loop without re-examining the new head',
                  m.path, g.test.lineno)
        spins = af.direct(cfg, F_, L, other)
        ctx.check(not spins, 'R3', cons + '::stops', 'when the head does not fit the loop is not left: release spins forever on the same head '
                  '(nothing changes between iterations) and blocks the event loop', m.path, g.test.lineno)
        # the loop is left only through the test or the does-not-fit edge: no other break/return inside the body
        exits = [n for n in ast.walk(wl.stmt) if isinstance(n, (ast.Break, ast.Return, ast.Raise))]  # type: ignore[arg-type]
        in_other = list(ast.walk(ast.Module(body=(wl.fit.orelse if g.label == 'T' else wl.fit.body), type_ignores=[])))  # type: ignore[union-attr]
        stray = [e for e in exits if not any(e is x for x in in_other)]
        ctx.check(not stray, 'R3', cons + '::only exit', f'the wake loop can also be left by `{pf.nsrc(stray[0])}`: waiters that fit stay blocked'
                  if stray else '', m.path, stray[0].lineno if stray else 0)


class _CMSpec:
    def __init__(self) -> None:
        self.call_extra: List[str] = []        # optional parameters of FIFOWeightedSemaphore.__call__ after the weight
        self.extra_to_acquire: Dict[str, str] = {}  # __call__ parameter -> acquire parameter it ends up as
        self.yields_flag = False               # `async with sem(w) as x` binds the granted/gave-up result


def _ctx_manager(ctx: Ctx, m: pf.Module, spec: _AcqSpec) -> _CMSpec:
    out = _CMSpec()
    cm = m.cls(CM)
    cls = m.cls(CLS)
    acq = af.method(m, cls, 'acquire')
    acq_params = [a.arg for a in acq.args.args][1:] + [a.arg for a in acq.args.kwonlyargs]
    init = af.method(m, cm, '__init__')
    params = [a.arg for a in init.args.args]
    ctx.need(len(params) >= 3 and len(init.args.defaults) >= len(params) - 3 and not init.args.vararg and not init.args.kwarg, f'{CM}.__init__ parameters changed: {params}')
    fields = {}
    for st in init.body:
        if isinstance(st, ast.Assign) and len(st.targets) == 1 and isinstance(st.targets[0], ast.Attribute) and isinstance(st.value, ast.Name):
            fields[pf.nsrc(st.targets[0])] = st.value.id
    sem_f = [k for k, v in fields.items() if v == params[1]]
    w_f = [k for k, v in fields.items() if v == params[2]]
    ctx.need(len(sem_f) == 1 and len(w_f) == 1, f'{CM}.__init__ does not store (sem, weight) in two attributes')
    extra_f = {k: v for k, v in fields.items() if v in params[3:]}
    # attributes are not reassigned elsewhere
    for st in ast.walk(cm):
        if isinstance(st, ast.Attribute) and isinstance(st.ctx, ast.Store) and pf.nsrc(st) in [sem_f[0], w_f[0]] + list(extra_f):
            ctx.need(m.enclosing_func(st) is init, f'{CM}: {pf.nsrc(st)} reassigned outside __init__')
    en = af.method(m, cm, '__aenter__')
    ex = af.method(m, cm, '__aexit__')
    # enter: exactly one acquire of the stored weight, awaited, on every path
    cfg = pf.cfg(en)
    acqn = af.stmt_nodes(cfg, lambda n: any(isinstance(x, ast.Await) and pf.call_name(x) == f'{sem_f[0]}.acquire' for x in ast.walk(n.ast)))
    cons = f'{F}::{CM}.__aenter__'
    # positive evidence only: "no acquire found" is a verdict only when the method calls nothing at all; an indirection that is not seen through is declined
    ctx.need(acqn or not pf.calls_in(en), f'{cons}: no `await {sem_f[0]}.acquire(...)` statement recognised, but the method calls `{pf.nsrc(pf.calls_in(en)[0]) if pf.calls_in(en) else ""}` (not analysed)')
    ok = len(acqn) == 1 and cfg.dominated_by(cfg.exit, lambda n: n is acqn[0])
    flag_f: Optional[str] = None
    if ok:
        c = af.node_is_call(acqn[0], f'{sem_f[0]}.acquire')
        ok = c is not None and bool(c.args) and pf.nsrc(c.args[0]) == w_f[0]
        if ok:
            # further arguments: stored constructor arguments passed through to optional parameters of acquire
            bound: Dict[str, ast.AST] = {}
            for prm, a in zip(acq_params[1:], c.args[1:]):  # type: ignore[union-attr]
                bound[prm] = a
            for k in c.keywords:  # type: ignore[union-attr]
                ctx.need(k.arg is not None and k.arg in acq_params[1:], f'{cons}: `{pf.nsrc(c)}` passes an argument acquire does not take')
                bound[k.arg] = k.value  # type: ignore[index]
            ctx.need(len(c.args) <= len(acq_params), f'{cons}: `{pf.nsrc(c)}` passes more arguments than acquire takes')  # type: ignore[union-attr]
            for prm, a in bound.items():
                ctx.need(pf.nsrc(a) in extra_f, f'{cons}: `{pf.nsrc(a)}` passed as `{prm}` is not a stored constructor argument')
                out.extra_to_acquire[extra_f[pf.nsrc(a)]] = prm
    ctx.check(ok, 'R4', cons, f'__aenter__ does not `await {sem_f[0]}.acquire({w_f[0]})` exactly once on every path', m.path, en.lineno)
    if spec.unknown:
        plain = ok and isinstance(acqn[0].ast, ast.Expr) and not out.extra_to_acquire
        ctx.need(plain, f'{CM}: whether acquire can give up is not established (violation reported above); the context manager keeps its result / passes further arguments')
    # can this acquisition give up?  only when it passes an argument that enables giving up
    sure = _gives_up(spec, set(out.extra_to_acquire.values()))
    may_give_up = sure is not False
    if ok and may_give_up:
        st = acqn[0].ast
        cons2 = cons + '::keeps the result'
        if isinstance(st, ast.Assign) and len(st.targets) == 1 and isinstance(st.value, ast.Await) and isinstance(st.targets[0], ast.Attribute) \
                and isinstance(st.targets[0].value, ast.Name) and st.targets[0].value.id == en.args.args[0].arg:
            flag_f = pf.nsrc(st.targets[0])
            ctx.ok('R4', cons2, flag_f)
        elif isinstance(st, ast.Expr):
            ctx.need(sure is True, f'{cons2}: the result of acquire is dropped; whether this acquisition can give up (no optional argument is known to enable it) is not established')
            ctx.bad('R4', cons2, f'`{pf.nsrc(st)}` drops the result of acquire, which can give up waiting (it then holds nothing): __aexit__ cannot know whether there is anything to release, '
                    'and the body runs without its cores', m.path, st.lineno)
        else:
            raise AnalysisError(f'{cons2}: the result of acquire is kept in an unrecognised way (`{pf.nsrc(st)}`)')
        if flag_f is not None:
            # the flag is written only: constants in __init__ / __aexit__, the result in __aenter__
            for x in ast.walk(cm):
                if isinstance(x, ast.Attribute) and isinstance(x.ctx, ast.Store) and pf.nsrc(x) == flag_f and x is not st.targets[0]:  # type: ignore[union-attr]
                    pst = m.parents().get(x)
                    fnx = m.enclosing_func(x)
                    okw = isinstance(pst, ast.Assign) and isinstance(pst.value, ast.Constant) and bool(pst.value.value) != spec.granted_truthy and fnx in (init, ex)
                    ctx.need(okw, f'{CM}: `{flag_f}` is also written by `{pf.nsrc(pst) if pst is not None else flag_f}`')
            # what `as x` binds
            rets = [p for p, _ in cfg.exit.pred]
            vals = {pf.nsrc(_ret_value(p)) if _ret_value(p) is not None else None for p in rets}
            out.yields_flag = vals == {flag_f}
    cfg = pf.cfg(ex)
    rel = af.stmt_nodes(cfg, lambda n: af.node_is_call(n, f'{sem_f[0]}.release') is not None)
    cons = f'{F}::{CM}.__aexit__'
    ctx.need(rel or not pf.calls_in(ex), f'{cons}: no `{sem_f[0]}.release(...)` statement recognised, but the method calls `{pf.nsrc(pf.calls_in(ex)[0]) if pf.calls_in(ex) else ""}` (not analysed)')
    if flag_f is None and may_give_up:
        pass  # `keeps the result` reported that __aexit__ cannot know whether anything is held
    elif flag_f is None:
        ok = len(rel) == 1 and cfg.dominated_by(cfg.exit, lambda n: n is rel[0]) and not af.direct(cfg, rel[0], rel[0])
        if ok:
            c = af.node_is_call(rel[0], f'{sem_f[0]}.release')
            ok = c is not None and [pf.nsrc(a) for a in c.args] == [w_f[0]] and not c.keywords
            # nothing that can suspend (and be cancelled) before the release
            pre = [n for n in cfg.nodes if n.ast is not None and pf.node_has_await(n) and af.direct(cfg, n, rel[0])]
            ok = ok and not pre
        ctx.check(ok, 'R4', cons, f'__aexit__ does not release exactly the acquired weight `{w_f[0]}` once, unconditionally and before any suspension point '
                  f'(found {[n.text() for n in rel]}): capacity leaks or is returned twice', m.path, ex.lineno)
    else:
        # release exactly once iff the flag says "granted"
        ok = len(rel) == 1 and not af.direct(cfg, rel[0], rel[0])
        why = f'found {[n.text() for n in rel]}'
        if ok:
            c = af.node_is_call(rel[0], f'{sem_f[0]}.release')
            ok = c is not None and [pf.nsrc(a) for a in c.args] == [w_f[0]] and not c.keywords
            pre = [n for n in cfg.nodes if n.ast is not None and pf.node_has_await(n) and af.direct(cfg, n, rel[0])]
            ok = ok and not pre
        if ok:
            guards_ = [(t, lab) for t in cfg.nodes if t.kind == 'test' for lab in ('T', 'F') if any(l_ == lab for _, l_ in t.succ)
                       and af.implied_on_edge(t.ast, lab, flag_f, spec.granted_truthy) and af.every_path_uses_edge(cfg, rel[0], t, lab)]
            inverted = [(t, lab) for t in cfg.nodes if t.kind == 'test' for lab in ('T', 'F') if any(l_ == lab for _, l_ in t.succ)
                        and af.implied_on_edge(t.ast, lab, flag_f, not spec.granted_truthy) and af.every_path_uses_edge(cfg, rel[0], t, lab)]
            tests_flag = [t for t in cfg.nodes if t.kind == 'test' and af.mentions(t.ast, flag_f)]
            if guards_:
                t, lab = guards_[0]
                # ... and on every path where the flag says granted the release is reached, with the flag not rewritten before the test
                miss = af.must_pass(cfg, t, lambda n: n is cfg.exit, lambda n: n is rel[0], first_label=lab)
                other_lab = 'F' if lab == 'T' else 'T'
                exact = af.implied_on_edge(t.ast, other_lab, flag_f, not spec.granted_truthy)
                pre_w = [n for n in cfg.nodes if n.ast is not None and af.writes_attr(n, flag_f) and af.direct(cfg, n, t)]
                ok = miss is None and exact and not pre_w and cfg.dominated_by(cfg.exit, lambda n: n is t)
                why = 'some exit with the weight held skips the release' if not ok else ''
            elif inverted:
                ok = False
                why = f'the release is reached only when `{flag_f}` says that acquire gave up'
            elif not tests_flag:
                ok = False
                why = f'the release does not depend on `{flag_f}`: a waiter that gave up (it holds nothing) releases too'
            else:
                raise AnalysisError(f'{cons}: the test guarding the release is not recognised')
        ctx.check(ok, 'R4', cons, f'__aexit__ does not release the weight `{w_f[0]}` exactly once iff `{flag_f}` says it was granted ({why}): weight never taken is returned - value exceeds the '
                  'capacity and more CPU is granted than the worker has (safety) - or held weight is never returned (a head waiter that fits the idle worker stays blocked)', m.path, ex.lineno)
    # __call__ builds the manager for this semaphore and the requested weight (optional further parameters are passed through)
    call = af.method(m, cls, '__call__')
    body = af.body_no_doc(call)
    p2 = [a.arg for a in call.args.args]
    ctx.need(len(p2) >= 2 and len(call.args.defaults) >= len(p2) - 2 and not call.args.vararg and not call.args.kwarg, f'{CLS}.__call__ parameters changed: {p2}')
    # `return CM(...)`, possibly through a single-definition local (`manager = CM(...); return manager`), positional or keyword arguments
    rets = [n for n in pf.walk_shallow(call) if isinstance(n, ast.Return)]
    cc = pf.resolve_expr(call, rets[0].value) if len(rets) == 1 and rets[0].value is not None else None
    shape = isinstance(cc, ast.Call) and pf.dotted(cc.func) == CM and all(isinstance(s_, (ast.Return, ast.Assign, ast.AnnAssign)) for s_ in body) \
        and not any(isinstance(a_, ast.Starred) for a_ in cc.args) and all(k.arg is not None for k in cc.keywords)
    ctx.need(shape or len(rets) != 1 or not any(isinstance(x, ast.Call) and pf.dotted(x.func) == CM for x in ast.walk(call)),
             f'{CLS}.__call__ builds a {CM} in a way that is not recognised')
    ok = bool(shape)
    passed: Dict[str, str] = {}
    if ok:
        passed = dict(zip(params[1:], [pf.nsrc(a_) for a_ in cc.args]))     # constructor parameter -> __call__ expression
        for k in cc.keywords:
            ok = ok and k.arg in params[1:] and k.arg not in passed
            passed[k.arg] = pf.nsrc(k.value)
        ok = ok and passed.get(params[1]) == p2[0] and passed.get(params[2]) == p2[1] and set(passed.values()) <= set(p2) and len(set(passed.values())) == len(passed)
    if ok:
        by_call = {v: k for k, v in passed.items()}   # __call__ parameter -> constructor parameter
        out.call_extra = p2[2:]
        out.extra_to_acquire = {cp: out.extra_to_acquire[by_call[cp]] for cp in p2[2:] if by_call.get(cp) in out.extra_to_acquire}
    ctx.check(ok, 'R4', f'{F}::{CLS}.__call__', f'does not return {CM}(self, weight)', m.path, call.lineno)
    return out


def _strip_int(e: ast.AST) -> ast.AST:
    while isinstance(e, ast.Call) and isinstance(e.func, ast.Name) and e.func.id == 'int' and len(e.args) == 1 and not e.keywords:
        e = e.args[0]
    return e


def _weight_relation(fn: pf.FuncDef, a: ast.AST, r: ast.AST):
    """('same', None) | ('differs', (normal form acquired, normal form released, difference)) | ('unknown', why) for the weight acquired vs released.
    Decided by comparing linear normal forms (cf.weight_normal_form); nothing is evaluated."""
    a2, r2 = _strip_int(pf.expand_locals(fn, a)), _strip_int(pf.expand_locals(fn, r))
    na, nr = cf.weight_normal_form(a2), cf.weight_normal_form(r2)
    if pf.nsrc(a2) == pf.nsrc(r2) or (na is not None and na == nr):
        # the same value only if the atoms are not rebound between the two evaluations
        params = {x.arg for x in fn.args.posonlyargs + fn.args.args + fn.args.kwonlyargs}
        asg = pf.assignments(fn)
        for nme in pf.names_in(a2) | pf.names_in(r2):
            if nme in asg and not (nme in params and len(asg[nme]) == 1):
                return 'unknown', f'`{nme}` is assigned more than once in the function'
        attrs = {pf.nsrc(x) for e in (a2, r2) for x in ast.walk(e) if isinstance(x, ast.Attribute)}
        for x in pf.walk_shallow(fn):
            if isinstance(x, ast.Attribute) and isinstance(x.ctx, (ast.Store, ast.Del)) and pf.nsrc(x) in attrs:
                return 'unknown', f'`{pf.nsrc(x)}` is reassigned inside the function'
        return 'same', None
    if na is None or nr is None:
        bad_ = a2 if na is None else r2
        return 'unknown', f'`{pf.nsrc(bad_)}` is outside the linear fragment (+, -, * const, // const, % const over names)'
    diff = {k: v for k, v in ((k, nr.get(k, 0) - na.get(k, 0)) for k in set(na) | set(nr)) if v != 0}
    return 'differs', (na, nr, diff)


def _manual_site(ctx: Ctx, m: pf.Module, fn: pf.FuncDef, q: str, S: str, orig: pf.Module) -> Tuple[int, int]:
    """Manual `await S.acquire(w)` ... `S.release(w)` in one function: on EVERY exit reached after the acquire completed (normal, exception,
    cancellation at any later await) exactly one release of the same weight; no release unless an acquire completed."""
    cfg = pf.cfg(fn)
    base = f'{m.rel}::{q}::manual {S}.acquire/release'

    def acq_call(n: pf.Node) -> Optional[ast.Call]:
        a = n.ast
        if n.kind == 'stmt' and isinstance(a, ast.Expr) and isinstance(a.value, ast.Await) and isinstance(a.value.value, ast.Call) \
                and pf.dotted(a.value.value.func) == f'{S}.acquire':
            return a.value.value
        return None

    def rel_call(n: pf.Node) -> Optional[ast.Call]:
        a = n.ast
        if n.kind == 'stmt' and isinstance(a, ast.Expr) and isinstance(a.value, ast.Call) and pf.dotted(a.value.func) == f'{S}.release':
            return a.value
        return None
    # every textual acquire/release of S in the function must be one of these two statement forms
    for c in pf.calls_in(fn):
        d = pf.dotted(c.func)
        if d in (f'{S}.acquire', f'{S}.release'):
            holders = [n for n in cfg.nodes if n.ast is not None and (acq_call(n) is c or rel_call(n) is c)]
            if not holders and d.endswith('.acquire'):
                par = m.parents()
                if not isinstance(par.get(c), ast.Await):
                    ctx.bad('R4', base + '::awaited', f'`{pf.nsrc(c)}` is not awaited: the coroutine never runs, nothing is acquired and the job runs outside the '
                            f'semaphore (more than the capacity can run at once)', m.path, c.lineno)
                    continue
            ctx.need(holders, f'{base}: `{pf.nsrc(c)}` is not a plain `await {S}.acquire(w)` / `{S}.release(w)` statement')
    P = cf.pairing(cfg, lambda n: acq_call(n) is not None, lambda n: rel_call(n) is not None)
    if not P.acquires and not P.releases:
        return 0, 0
    if not P.acquires:
        # a manual release inside `async with S(w)`: the manager releases again on exit
        par = m.parents()
        for r in P.releases:
            cur = par.get(r.ast)
            while cur is not None and cur is not fn:
                if isinstance(cur, ast.AsyncWith) and any(isinstance(i.context_expr, ast.Call) and pf.nsrc(i.context_expr.func) == S for i in cur.items):
                    ctx.bad('R4', base + '::released once', f'`{r.text()}` inside `async with {S}(...)`: the context manager releases the same acquisition again on exit - '
                            'value exceeds the capacity and more CPU is granted than the worker has (safety)', m.path, r.lineno)
                    return 0, 1
                cur = par.get(cur)
    ctx.need(P.acquires, f'{base}: {S}.release(...) in a function that never acquires (pairing across functions is not analysed)')
    a0 = acq_call(P.acquires[0])
    assert a0 is not None
    ctx.need(all(len(acq_call(a).args) == 1 and not acq_call(a).keywords for a in P.acquires), f'{base}: acquire is not called with exactly the weight')  # type: ignore[union-attr]
    wsrc = pf.nsrc(a0.args[0])
    line = P.acquires[0].lineno
    # (1) every exit after a completed acquire releases
    leaks: List[str] = []
    for a, p in P.leak_paths:
        labs = []
        for x, y in zip(p, p[1:]):
            lab = [l for mm, l in x.succ if mm is y]
            labs.append(lab[0] if lab else '')
        excs = [(x, y) for x, y, l in zip(p, p[1:], labs) if l == 'exc' and x.ast is not None]
        # the decisive raise: the first exceptional edge after which no release is reachable any more
        dec = [x for x, y in excs if not any(r.id in cfg.reachable_from(y) or r is y for r in P.releases)]
        how = 'the normal completion of the function' if not excs else f'the exit taken when `{cf.describe_path([(dec or [excs[-1][0]])[0]], 1).strip("`")}` raises (or is cancelled)'
        leaks.append(f'{how} does not pass `{S}.release(...)` (path: ... {cf.describe_path(p)})')
    esc = []
    for a, n in P.leak_escapes:
        t = n.text() if n.kind in ('with', 'loop', 'test') else pf.nsrc(n.ast)
        if t not in esc:
            esc.append(t)
    if esc:
        leaks.append(f'{len(esc)} statement(s) executed while the weight is held can raise outside any try/finally (e.g. `{short(esc[0], 70)}`'
                     + (', a cancellation point' if 'await' in esc[0] else '') + ') and leave the function without releasing')
    if not P.releases:
        leaks = [f'the function never calls `{S}.release(...)`']
    ctx.check(not leaks, 'R4', base + '::every exit releases',
              f'after `await {S}.acquire({wsrc})` completed, ' + '; '.join(leaks[:2]) + f': the job is over but the semaphore\'s value stays short by {wsrc} for good - '
              'a waiter at the head of the queue stays blocked although the capacity it needs is free (liveness)', m.path, line)
    # (2) release only after a completed acquire
    msg = ''
    if P.release_after_failed_acquire is not None:
        msg = (f'`{S}.release(...)` is reached when `await {S}.acquire({wsrc})` did NOT complete (the acquire sits inside the try whose finally/handler releases): a job cancelled '
               f'while queued releases {wsrc} it never held - value exceeds the capacity and later jobs are granted more CPU than the worker has (safety)')
    elif P.release_without_acquire is not None:
        msg = (f'`{S}.release(...)` is reachable without any acquire (path: ... {cf.describe_path(P.release_without_acquire)}): value exceeds the capacity and '
               'later jobs are granted more CPU than the worker has (safety)')
    elif P.reacquire is not None:
        msg = f'a second `await {S}.acquire(...)` is reached while the first weight is still held'
    if P.releases:
        ctx.check(not msg, 'R4', base + '::release only after a completed acquire', msg, m.path, P.releases[0].lineno)
        # (3) once
        ctx.check(P.double_release is None, 'R4', base + '::released once',
                  f'one exit releases twice (`{P.double_release[0].text()}` at line {P.double_release[0].lineno} and again at line {P.double_release[1].lineno}): '  # type: ignore[index]
                  'value exceeds the capacity (safety)' if P.double_release else '', m.path, P.releases[0].lineno)
        # (4) same weight
        seen = set()
        for r in P.releases:
            rc = rel_call(r)
            assert rc is not None
            if id(rc) in seen:
                continue
            seen.add(id(rc))
            ctx.need(len(rc.args) == 1 and not rc.keywords, f'{base}: release is not called with exactly the weight')
            for a in P.acquires[:1]:
                rel, wit = _weight_relation(fn, a0.args[0], rc.args[0])
                cons = base + f'::same weight `{pf.nsrc(rc.args[0])}`'
                if rel == 'same':
                    ctx.ok('R4', cons, wsrc)
                elif rel == 'differs':
                    na, nr, diff = wit
                    mods = [k for k in diff if ' mod ' in k]
                    ctx.bad('R4', cons, f'acquires `{wsrc}` but releases `{pf.nsrc(rc.args[0])}`: normal forms {cf.wlin_str(na)} vs {cf.wlin_str(nr)}, released - acquired = {cf.wlin_str(diff)}, '
                            'which is not identically zero'
                            + (f' (it is -{mods[0]}: every weight that is not a multiple of the divisor, e.g. 250 mcpu with divisor 1000, gives back less than it took)' if mods and diff[mods[0]] < 0 else '')
                            + ': the semaphore\'s value drifts with every such job - short: a head waiter that fits the idle worker stays blocked (liveness); over: more than the capacity is granted (safety)',
                            m.path, r.lineno, extra={'acquired': cf.wlin_str(na), 'released': cf.wlin_str(nr)})
                else:
                    raise AnalysisError(f'{cons}: cannot decide whether the released weight equals the acquired one ({wit})')
    return len(P.acquires), len({id(rel_call(r)) for r in P.releases})


def _handed_to(par: Dict[ast.AST, ast.AST], attr: ast.Attribute) -> Optional[Tuple[ast.AST, ast.Call]]:
    """`S.acquire` not awaited in place but passed on: (the handed expression, the call that receives it).  Either the bound method itself is an
    argument, or the coroutine object `S.acquire(w)` is."""
    up = par.get(attr)
    handed: ast.AST = attr
    if isinstance(up, ast.Call) and up.func is attr:
        handed, up = up, par.get(up)
    if isinstance(up, ast.keyword):
        kw, up = up, par.get(up)
        if isinstance(up, ast.Call) and any(k is kw for k in up.keywords):
            return handed, up
        return None
    if isinstance(up, ast.Call) and any(a is handed for a in up.args):
        return handed, up
    return None


_ABANDONED = ('FIFOWeightedSemaphore.acquire has no cancellation clean-up, so the abandoned waiter\'s (event, weight) entry stays in the queue; when it reaches the head, release() '
              '"grants" it (value -= weight, event.set()) although nobody is listening and nobody will ever release that weight. History with capacity 4000: J1(4000) runs; '
              'J2(2000), J3(2000) queue; J2\'s wait is cancelled; J1 and J3 finish; J4(4000) arrives at an idle worker, is the only waiter, and blocks forever '
              '(value == 2000): a waiter at the head of the queue is blocked while all capacity is free (liveness)')


_HOLES: List[_Hole] = []


def _report_holes(ctx: Ctx, how: str) -> bool:
    """A queued wait CAN be cancelled on its own and acquire's cancellation clean-up removes the entry without serving the new head: liveness violation (R6)."""
    if not _HOLES:
        return False
    for h in _HOLES:
        if not h.reported:
            h.reported = True
            ctx.bad('R6', h.cons, f'{h.msg}. This clean-up does run: {how}', h.path, h.line)
    return True


def _r5_handed(ctx: Ctx, m: pf.Module, mf: 'cf.ModFuncs', exposed, q: str, handed: ast.AST, recv: ast.Call, cancel_safe: bool, what: str) -> None:
    verdict, how = cf.handover_verdict(mf, exposed, q, recv, handed)
    cons = f'{m.rel}::{q}::{short(pf.nsrc(recv), 90)}'
    if verdict == 'cancels':
        if cancel_safe and _report_holes(ctx, f'{what} is handed to a caller that may cancel it while it is still queued ({how})'):
            return
        ctx.need(not cancel_safe, f'{cons}: {what} can be cancelled while queued ({how}) and acquire has a cancellation handler: whether that handler restores the queue/counter is not analysed')
        ctx.bad('R5', cons, f'{what} is handed to a caller that may cancel it while it is still QUEUED: {how}. {_ABANDONED}', m.path, recv.lineno)
        return
    raise AnalysisError(f'{cons}: {what} is handed over instead of being awaited in place ({how}); acquire/release pairing across that call is not analysed')


def _cm_users(ctx: Ctx, m: pf.Module, mf: 'cf.ModFuncs', q: str, fn: pf.FuncDef) -> List[Tuple[str, ast.AST]]:
    """`async with <recv>.<helper>():` statements entering the context-manager helper q; any other use of the helper is declined."""
    par = m.parents()
    out: List[Tuple[str, ast.AST]] = []
    same_name = [k for k in mf.by_q if k.split('.')[-1] == fn.name]
    for x in ast.walk(m.tree):
        if not ((isinstance(x, ast.Attribute) and x.attr == fn.name) or (isinstance(x, ast.Name) and x.id == fn.name and isinstance(x.ctx, ast.Load))):
            continue
        call = par.get(x)
        if not (isinstance(call, ast.Call) and call.func is x) and not (isinstance(x, ast.Attribute) and isinstance(x.value, ast.Name) and x.value.id in ('self', 'cls')):
            continue  # a data attribute / local of the same name (`instance_config.cores`), not the helper
        ctx.need(same_name == [q], f'{m.rel}: several functions are named {fn.name} ({same_name}); which one `{pf.nsrc(x)}` denotes is not analysed')
        item = par.get(call) if call is not None else None
        stmt = par.get(item) if item is not None else None
        ok = isinstance(call, ast.Call) and call.func is x and isinstance(item, ast.withitem) and item.context_expr is call and isinstance(stmt, ast.AsyncWith)
        ctx.need(ok, f'{m.rel}: the context-manager helper {q} is used other than as `async with ...{fn.name}()`: `{short(pf.nsrc(call if call is not None else x), 60)}`')
        user = m.enclosing_func(x)
        ctx.need(user is not None, f'{m.rel}: {q} entered at module level')
        out.append((m.qualname(user), stmt))  # type: ignore[arg-type]
    return out


def _r5_sites(ctx: Ctx, m: pf.Module, mf: 'cf.ModFuncs', exposed, sites: List[Tuple[str, ast.AST]], cancel_safe: bool) -> None:
    """A job that waits for the semaphore must not be abandoned while queued: the waiting statement is not inside a timeout block, and no function that
    (transitively, through awaited same-module calls) contains it is handed to a caller that cancels what it is given."""
    par = m.parents()
    # functions whose execution includes waiting for the semaphore
    waits: Dict[str, str] = {q: 'it waits for cpu_sem' for q, _ in sites}
    changed = True
    while changed:
        changed = False
        for q, fn in mf.by_q.items():
            if q in waits:
                continue
            for x in pf.walk_shallow(fn):
                if isinstance(x, ast.Await) and isinstance(x.value, ast.Call):
                    tg = mf.resolve(q, x.value.func)
                    if tg and all(t in waits for t in tg):
                        waits[q] = f'it awaits {tg[0]}, and {waits[tg[0]]}'
                        changed = True
                        break

    def timeout_blocks(node: ast.AST) -> List[ast.AsyncWith]:
        out = []
        cur = par.get(node)
        while cur is not None and not isinstance(cur, (ast.FunctionDef, ast.AsyncFunctionDef, ast.Lambda)):
            if isinstance(cur, ast.AsyncWith) and any(cf.is_timeout_cm(i.context_expr) for i in cur.items) and not any(node is i.context_expr for i in cur.items):
                out.append(cur)
            cur = par.get(cur)
        return out
    waiting_nodes: List[Tuple[str, ast.AST, str]] = [(q, node, 'the wait for cpu_sem') for q, node in sites]
    for q, fn in mf.by_q.items():
        for x in pf.walk_shallow(fn):
            if isinstance(x, ast.Await) and isinstance(x.value, ast.Call):
                tg = mf.resolve(q, x.value.func)
                if tg and all(t in waits for t in tg):
                    waiting_nodes.append((q, x, f'`{short(pf.nsrc(x), 50)}` ({waits[tg[0]]})'))
    for q, node, what in waiting_nodes:
        tb = timeout_blocks(node)
        cons = f'{m.rel}::{q}::{short(pf.nsrc(node).splitlines()[0] if not isinstance(node, ast.AsyncWith) else "async with " + pf.nsrc(node.items[0].context_expr), 70)}::not abandoned while queued'
        if tb:
            if cancel_safe and _report_holes(ctx, f'{what} in {q} runs inside `async with {pf.nsrc(tb[0].items[0].context_expr)}`, which cancels the queued wait when the timeout expires'):
                continue
            ctx.need(not cancel_safe, f'{cons}: under a timeout and acquire has a cancellation handler (not analysed)')
            ctx.bad('R5', cons, f'{what} runs inside `async with {pf.nsrc(tb[0].items[0].context_expr)}`: when the timeout expires while the job is still QUEUED its wait is cancelled. {_ABANDONED}',
                    m.path, getattr(node, 'lineno', 0))
        elif (q, node) in sites:
            ctx.ok('R5', cons, 'no enclosing timeout block')
    # functions that MAY wait for the semaphore: as above, but a call through a receiver other than self counts when SOME method of that name waits
    def by_name(attr: str) -> List[str]:
        return [k for k in mf.by_q if k.count('.') == 1 and k.split('.')[-1] == attr and mf.class_of(k) is not None]
    may: Dict[str, str] = dict(waits)
    changed = True
    while changed:
        changed = False
        for q, fn in mf.by_q.items():
            if q in may:
                continue
            for x in pf.walk_shallow(fn):
                if isinstance(x, ast.Await) and isinstance(x.value, ast.Call):
                    f_ = x.value.func
                    tg = mf.resolve(q, f_) or (by_name(f_.attr) if isinstance(f_, ast.Attribute) else [])
                    hit = [t for t in tg if t in may]
                    if hit:
                        may[q] = f'it awaits `{short(pf.nsrc(f_), 40)}`, which can be {hit[0]}, and {may[hit[0]]}'
                        changed = True
                        break
    # a waiting function handed (as bound method / coroutine object) to something that cancels what it is given
    for qh, fh in mf.by_q.items():
        for rc in pf.calls_in(fh):
            for a in list(rc.args) + [k.value for k in rc.keywords]:
                ref = a.func if isinstance(a, ast.Call) else a
                if not isinstance(ref, (ast.Name, ast.Attribute)):
                    continue
                tg = mf.resolve(qh, ref)
                if not tg and isinstance(ref, ast.Attribute):
                    tg = by_name(ref.attr)   # receiver other than self: every method of that name in the module
                if not tg or not any(t in may for t in tg):
                    continue
                verdict, how = cf.handover_verdict(mf, exposed, qh, rc, a)
                if verdict not in ('cancels', 'may-cancel'):
                    continue
                cons = f'{m.rel}::{qh}::{short(pf.nsrc(rc), 90)}'
                must = all(t in waits for t in tg) and verdict == 'cancels'
                if cancel_safe and must and _report_holes(ctx, f'`{pf.nsrc(a)}` in {qh} is handed to a caller that may cancel it ({how}), and {waits[tg[0]]}'):
                    continue
                ctx.need(not cancel_safe, f'{cons}: a waiting function is cancellable and acquire has a cancellation handler (not analysed)')
                ctx.need(must, f'{cons}: `{pf.nsrc(a)}` may be cancelled on its own ({how}) and may be waiting for cpu_sem at that moment '
                         f'({may[[t for t in tg if t in may][0]]}); which method the receiver denotes / who cancels the task is not decided statically')
                ctx.bad('R5', cons, f'`{pf.nsrc(a)}` is handed to a caller that may cancel it ({how}), and {waits[tg[0]]}: a job cancelled that way while it is still QUEUED '
                        f'abandons its wait. {_ABANDONED}', m.path, rc.lineno)


def _always_leaves(stmts: List[ast.stmt]) -> bool:
    if not stmts:
        return False
    last = stmts[-1]
    if isinstance(last, (ast.Return, ast.Raise)):
        return True
    if isinstance(last, ast.If):
        return _always_leaves(last.body) and _always_leaves(last.orelse)
    return False


def _with_site(ctx: Ctx, m: pf.Module, fn: Optional[pf.FuncDef], cons: str, call: ast.Call, item: ast.withitem, stmt: ast.AsyncWith, spec: _AcqSpec, cms: _CMSpec) -> None:
    """`async with S(w, ...) [as x]:` - the call passes the weight (and only optional arguments the semaphore takes); when this acquisition can GIVE UP waiting (acquire returns
    without holding anything) the body must run only when the result says granted."""
    line = call.lineno
    extra: Dict[str, ast.AST] = {}
    okc = len(call.args) >= 1 and len(call.args) - 1 <= len(cms.call_extra) and not any(isinstance(a, ast.Starred) for a in call.args)
    if okc:
        for prm, a in zip(cms.call_extra, call.args[1:]):
            extra[prm] = a
        for k in call.keywords:
            okc = okc and k.arg is not None and k.arg in cms.call_extra and k.arg not in extra
            if k.arg is not None:
                extra[k.arg] = k.value
    ctx.check(okc, 'R4', cons, 'cpu_sem(...) is not called with exactly the weight (plus optional arguments the semaphore accepts)', m.path, line)
    if not okc or not spec.conditional or spec.unknown:
        return
    passed = {cms.extra_to_acquire[cp] for cp, a in extra.items() if cp in cms.extra_to_acquire and not (isinstance(a, ast.Constant) and a.value is None)}
    sure = _gives_up(spec, passed)
    if sure is False:
        return  # no argument that enables giving up is passed: this acquisition always ends up holding the weight
    c2 = cons + '::body runs only when granted'
    gave_up = ('the waiter can give up (acquire then returns without holding anything)')
    ov = item.optional_vars
    if ov is None:
        ctx.need(sure is True, f'{c2}: the result is not bound; whether this acquisition can give up is not established')
        ctx.bad('R4', c2, f'{gave_up}, but the result is not bound (`async with ... as x`) and the body runs regardless: the job runs without holding its cores - more CPU is in use than the '
                'worker has (safety)', m.path, line)
        return
    ctx.need(isinstance(ov, ast.Name) and cms.yields_flag and fn is not None, f'{c2}: what `as {pf.nsrc(ov)}` binds is not the granted/gave-up result of acquire (not analysed)')
    x = ov.id  # type: ignore[union-attr]
    ctx.need(len(pf.assignments(fn).get(x, [])) == 1, f'{c2}: `{x}` is assigned more than once')  # type: ignore[arg-type]
    body = stmt.body
    uses = [n for st_ in body for n in ast.walk(st_) if isinstance(n, ast.Name) and n.id == x]
    if not uses:
        ctx.need(sure is True, f'{c2}: the result is not looked at; whether this acquisition can give up is not established')
        ctx.bad('R4', c2, f'{gave_up}, but the body never looks at `{x}` and runs regardless: the job runs without holding its cores - more CPU is in use than the worker has (safety)',
                m.path, line)
        return
    first = body[0]
    ctx.need(isinstance(first, ast.If), f'{c2}: `{x}` is not tested by the first statement of the body (not analysed)')
    t = first.test  # type: ignore[union-attr]
    gt = spec.granted_truthy
    if af.implied_on_edge(t, 'T', x, not gt) and af.implied_on_edge(t, 'F', x, gt):
        # `if not acquired: ...leave...` then the real body
        okb = _always_leaves(first.body) and not first.orelse  # type: ignore[union-attr]
        ctx.check(okb or bool(first.orelse), 'R4', c2, f'{gave_up}; the body tests `{pf.nsrc(t)}` but does not leave (return / raise) in that case, so the job runs without holding its cores - '  # type: ignore[union-attr]
                  'more CPU is in use than the worker has (safety)', m.path, first.lineno, detail=f'guarded by `{pf.nsrc(t)}`')
        ctx.need(not first.orelse, f'{c2}: give-up branch with an else part (not analysed)')  # type: ignore[union-attr]
    elif af.implied_on_edge(t, 'T', x, gt) and af.implied_on_edge(t, 'F', x, not gt):
        if len(body) == 1 and not first.orelse:  # type: ignore[union-attr]
            ctx.ok('R4', c2, f'whole body under `if {pf.nsrc(t)}`')
        elif _always_leaves(first.body) and not first.orelse:  # type: ignore[union-attr]
            ctx.bad('R4', c2, f'{gave_up}; the body leaves when `{pf.nsrc(t)}` (granted) and carries on when the waiter gave up: the test is inverted - the job runs without holding its cores (safety)',
                    m.path, first.lineno)
        else:
            raise AnalysisError(f'{c2}: statements after `if {pf.nsrc(t)}:` in the body (not analysed)')
    else:
        raise AnalysisError(f'{c2}: the first test of the body `{pf.nsrc(t)}` does not decide on `{x}` alone')


def _worker_uses(ctx: Ctx, cancel_safe: bool, spec: _AcqSpec, cms: _CMSpec) -> None:
    roots = ['batch/batch/worker'] if ctx.tier != 'thorough' else ['batch/batch']
    files = [f for f in pf.walk_py(roots) if f != F]
    ctx.need(WK in files, f'{WK} not found')
    n_with = 0
    n_manual = 0
    n_ctor = 0
    n_cancellers = 0
    for rel in files:
        m = pf.load(rel)
        if 'cpu_sem' not in m.src:
            continue
        par = m.parents()
        manual: Dict[int, Tuple[pf.FuncDef, str, set]] = {}
        mf = cf.ModFuncs(m)
        exposed = cf.cancel_exposed(mf)
        n_cancellers += len(exposed)
        sites: List[Tuple[str, ast.AST]] = []   # (qualified function, statement / expression that waits for the semaphore)
        handed_fns: set = set()                  # functions in which the acquire was handed over (reported by R5; pairing not analysed there)
        for n in ast.walk(m.tree):
            if not (isinstance(n, ast.Attribute) and n.attr == 'cpu_sem'):
                continue
            fn = m.enclosing_func(n)
            q = m.qualname(fn) if fn is not None else '<module>'
            p = par.get(n)
            line = n.lineno
            if isinstance(n.ctx, ast.Store):
                val = getattr(p, 'value', None)
                cons = f'{rel}::{q}::{pf.nsrc(p)}'
                ctx.need(isinstance(val, ast.Call), f'{cons}: cpu_sem is not assigned from a constructor call')
                ctx.check(pf.dotted(val.func) == CLS and len(val.args) == 1, 'R4', cons,
                          f'cpu_sem is built by `{pf.nsrc(val)}`, not by {CLS}(capacity): the analysed semaphore is not the one in use', m.path, line)
                n_ctor += 1
            elif isinstance(p, ast.Call) and p.func is n:
                item = par.get(p)
                stmt = par.get(item) if item is not None else None
                cons = f'{rel}::{q}::{pf.nsrc(p)}'
                if isinstance(item, ast.withitem) and item.context_expr is p and isinstance(stmt, ast.AsyncWith):
                    _with_site(ctx, m, fn, cons, p, item, stmt, spec, cms)
                    n_with += 1
                    sites.append((q, stmt))
                elif isinstance(item, ast.Expr) or (isinstance(item, ast.withitem) and isinstance(stmt, ast.With)):
                    ctx.bad('R4', cons, f'`{pf.nsrc(p)}` is not the context expression of an `async with`: nothing is acquired / the acquired CPU is not released on every exit',
                            m.path, line)
                else:
                    raise AnalysisError(f'{cons}: the context manager is not entered by `async with` directly (indirect entering is not analysed)')
            elif isinstance(p, ast.Attribute) and p.value is n and p.attr == 'value':
                cons = f'{rel}::{q}::{pf.nsrc(p)}'
                ctx.check(isinstance(p.ctx, ast.Load) and not isinstance(par.get(p), ast.AugAssign), 'R4', cons,
                          'the worker writes the semaphore counter directly: capacity is taken or returned behind the queue (a grant that overtakes the waiters / a value '
                          'no release accounts for)', m.path, line)
            elif isinstance(p, ast.Attribute) and p.value is n and p.attr == 'queue':
                up = par.get(p)
                cons = f'{rel}::{q}::{pf.nsrc(up) if up is not None else pf.nsrc(p)}'
                mutating = isinstance(p.ctx, (ast.Store, ast.Del)) or (isinstance(up, ast.Attribute) and up.value is p and isinstance(par.get(up), ast.Call)
                                                                      and up.attr not in ('copy', 'count', 'index', '__len__'))
                ctx.check(not mutating, 'R2', cons, 'the worker manipulates the waiter queue of the semaphore directly: waiters are dropped or reordered outside acquire/release',
                          m.path, line)
            elif isinstance(p, ast.Attribute) and p.value is n and p.attr == 'acquire' and _handed_to(par, p) is not None and fn is not None:
                # the bound method `S.acquire` (or the coroutine object `S.acquire(w)`) is an ARGUMENT of another call: who runs it, and may it be cancelled on its own?
                handed, recv = _handed_to(par, p)  # type: ignore[misc]
                _r5_handed(ctx, m, mf, exposed, q, handed, recv, cancel_safe, f'`{pf.nsrc(handed)}` (the semaphore\'s acquire)')
                handed_fns.add(id(fn))
            elif isinstance(p, ast.Attribute) and p.value is n and p.attr in ('acquire', 'release') and isinstance(par.get(p), ast.Call) and par[p].func is p:
                ctx.need(fn is not None, f'{rel}: {pf.nsrc(par[p])} at module level')
                manual.setdefault(id(fn), (fn, q, set()))[2].add(pf.nsrc(n))  # type: ignore[arg-type]
            elif isinstance(p, ast.Assign) and p.value is n and len(p.targets) == 1 and isinstance(p.targets[0], ast.Name) and fn is not None:
                # local alias `sem = <worker>.cpu_sem`: every use of the alias must be one of the analysed forms
                alias = p.targets[0].id
                ctx.need(pf.single_def(fn, alias) is n, f'{rel}::{q}: alias `{alias}` of cpu_sem is assigned more than once')
                for x in pf.walk_shallow(fn):
                    if not (isinstance(x, ast.Name) and x.id == alias and isinstance(x.ctx, ast.Load)):
                        continue
                    px = par.get(x)
                    if isinstance(px, ast.Attribute) and px.value is x and px.attr in ('acquire', 'release') and isinstance(par.get(px), ast.Call) and par[px].func is px:
                        manual.setdefault(id(fn), (fn, q, set()))[2].add(alias)
                    elif isinstance(px, ast.Call) and px.func is x and isinstance(par.get(px), ast.withitem) and isinstance(par.get(par[px]), ast.AsyncWith):
                        _with_site(ctx, m, fn, f'{rel}::{q}::{pf.nsrc(px)}', px, par[px], par[par[px]], spec, cms)  # type: ignore[arg-type]
                        n_with += 1
                        sites.append((q, par[par[px]]))
                    else:
                        raise AnalysisError(f'{rel}::{q}: unrecognised use of the cpu_sem alias `{alias}`: `{pf.nsrc(px) if px is not None else alias}`')
            else:
                raise AnalysisError(f'{rel}::{q}: unrecognised use of cpu_sem: `{pf.nsrc(p) if p is not None else pf.nsrc(n)}` (handing over the semaphore is not analysed)')
        # manual acquisitions are waiting sites too; an @asynccontextmanager method that acquires around its `yield` moves the site to its `async with` users
        cm_uses: Dict[str, List[Tuple[str, ast.AST]]] = {}
        for fn, q, recvs in manual.values():
            if id(fn) in handed_fns:
                continue
            for x in pf.walk_shallow(fn):
                if isinstance(x, ast.Await) and isinstance(x.value, ast.Call) and isinstance(x.value.func, ast.Attribute) and x.value.func.attr == 'acquire' \
                        and pf.nsrc(x.value.func.value) in recvs:
                    sites.append((q, x))
            if any(d.split('.')[-1] == 'asynccontextmanager' for d in pf.decorator_names(fn)) and any(isinstance(x, ast.Yield) for x in pf.walk_shallow(fn)):
                cm_uses[q] = _cm_users(ctx, m, mf, q, fn)
                sites.extend(cm_uses[q])
        _r5_sites(ctx, m, mf, exposed, sites, cancel_safe)
        covered: set = set()
        replaced: set = set()  # callers analysed with an acquire-only helper inlined (their un-inlined form is not a pairing site)
        pending = []
        for fn, q, recvs in manual.values():
            if id(fn) in handed_fns:
                continue  # reported by R5: the acquire does not run in this function, so there is no pairing to analyse here
            ctx.need(len(recvs) == 1, f'{rel}::{q}: the semaphore is reached through several expressions {sorted(recvs)}')
            S = next(iter(recvs))
            # acquire and release not both in this function: analyse it with its same-class helpers inlined (a release moved into a helper method)
            fn2, m2 = fn, m
            names = {pf.dotted(c.func) for c in pf.calls_in(fn)}
            if not {f'{S}.acquire', f'{S}.release'} <= names and f'{S}.acquire' in names and '.' in q:
                cname = q.rsplit('.', 2)[-2]
                try:
                    m2, il = inline_methods(m, cname, fn.name)
                    fn2 = m2.func(q)
                    covered |= {f'{q.rsplit(".", 1)[0]}.{h}' for h, _ in il.inlined}
                except AnalysisError:
                    fn2, m2 = fn, m
                if not any(pf.dotted(c.func) == f'{S}.release' for c in pf.calls_in(fn2)):
                    # an acquire-only helper (`await self._take_cores()` ... release in the caller): the pairing is decided in the same-class callers, with the helper inlined
                    recv0 = fn.args.args[0].arg if fn.args.args else 'self'
                    callers = [(k, g) for k, g in mf.by_q.items() if mf.class_of(k) is not None and k.count('.') == 1 and g is not fn
                               and fn.name in {c.func.attr for c in pf.calls_in(g) if isinstance(c.func, ast.Attribute) and pf.nsrc(c.func.value) == recv0}
                               and mf.lookup_method(mf.class_of(k), fn.name) == q]  # type: ignore[arg-type]
                    ctx.need(callers, f'{rel}::{q}: acquires {S} but never releases it, and no same-class caller was found (pairing across classes/modules is not analysed)')
                    for k, g in callers:
                        try:
                            mk, ilk = inline_methods(m, k.split('.')[0], g.name)
                        except AnalysisError as e:
                            raise AnalysisError(f'{rel}::{k}: calls the acquire-only helper {q} and cannot be inlined ({e})')
                        ctx.need(any(h == fn.name for h, _ in ilk.inlined), f'{rel}::{k}: calls the acquire-only helper {q} in a form that is not inlined (pairing across that call is not analysed)')
                        pending.append((mk.func(k), mk, k, S))
                        replaced.add(k)
                    continue
            if q not in replaced:
                pending.append((fn2, m2, q, S))
        pending = [x for i, x in enumerate(pending) if not (x[2] in replaced and x[1] is m)]
        for fn2, m2, q, S in pending:
            has_acq = any(pf.dotted(c.func) == f'{S}.acquire' for c in pf.calls_in(fn2))
            if not has_acq and q in covered:
                continue  # a helper whose body was analysed inside its caller
            na, nr = _manual_site(ctx, m2, fn2, q, S, m)
            if q in cm_uses:
                # the pairing holds inside the context manager (release in the finally around the yield): each `async with self.<helper>()` is an acquisition site
                ctx.need(na == 1 and nr >= 1, f'{rel}::{q}: context-manager helper with {na} acquire(s) / {nr} release(s)')
                n_with += len(cm_uses[q])
                ctx.unit('context_manager_helpers', 1)
            else:
                n_manual += na
    ctx.unit('functions_that_cancel_what_they_are_given', n_cancellers)
    ctx.unit('worker_async_with_sites', n_with)
    if n_manual:
        ctx.unit('worker_manual_sites', n_manual)
    ctx.need(n_ctor >= 1, 'the construction of cpu_sem was not found')
    ctx.need(n_with + n_manual >= 2, f'only {n_with + n_manual} acquisition site(s) of cpu_sem found under {roots} (DockerJob.run and JVMJob.run expected)')


def _cancel_info(ctx: Ctx, m: pf.Module, cls: ast.ClassDef) -> bool:
    """Does acquire run ANY code touching the semaphore state when it is cancelled while waiting?  False = provably no clean-up: the queue entry of a
    cancelled waiter stays where it is (R5 then forbids abandoning a queued wait).  True = some handler exists; its correctness is not analysed."""
    fn = af.method(m, cls, 'acquire')
    safe = True
    for n in pf.walk_shallow(fn):
        if isinstance(n, ast.Await):
            blocks, _ = af.cancel_blocks(m, fn, n)
            cleans = any(any((isinstance(c, ast.Call) and pf.dotted(c.func) == 'self.release') or (isinstance(c, ast.Attribute) and pf.nsrc(c) in (Q, VAL))
                             for s_ in b for c in ast.walk(s_)) for _, b in blocks)
            if not cleans:
                safe = False
                ctx.info(f'{F}::{CLS}.acquire: `{pf.nsrc(n)}` has no cancellation clean-up; a waiter cancelled while queued stays in the queue and '
                         f'a later release charges its weight to nobody (capacity lost for good). R5 checks that no use site abandons a queued wait '
                         f'(timeout / race against another event); cancellation of the whole worker at shutdown is outside the property.')
    return safe


def _r5_control(ctx: Ctx) -> None:
    """Positive control: the canceller recognition must see through the idiom the worker uses (task + FIRST_COMPLETED + cancel in finally) and a thin wrapper."""
    src = ('import asyncio\n'
           'async def race(event, f, *args):\n'
           '    step = asyncio.create_task(f(*args))\n'
           '    other = asyncio.create_task(event.wait())\n'
           '    try:\n'
           '        await asyncio.wait([other, step], return_when=asyncio.FIRST_COMPLETED)\n'
           '    finally:\n'
           '        for t in (step, other):\n'
           '            if not t.done():\n'
           '                t.cancel()\n'
           'class J:\n'
           '    async def until_deleted(self, g, *a):\n'
           '        return await race(self.ev, g, *a)\n'
           '    async def plain(self, g):\n'
           '        return await g()\n')
    mm = pf.Module('<control>', '<control>', src, ast.parse(src))
    exp = cf.cancel_exposed(cf.ModFuncs(mm))
    ok = 'f' in exp.get('race', {}) and 'g' in exp.get('J.until_deleted', {}) and 'J.plain' not in exp
    ctx.need(ok, f'internal: canceller recognition failed its positive control ({exp})')
    ctx.ok('R5', 'control::task raced against an event and cancelled, through a wrapper method', sorted(exp), nontrivial=False)


def run(ctx: Ctx) -> None:
    ctx.explanation = ('CFG guard-dominance with await-atomicity for every decrement of the counter, exhaustive evaluation of the extracted guards over '
                       '{value<w, value==w, value>w} x {queue empty, non-empty}, closed set of deque operations, must-pass analysis of the wake loop, '
                       'pairing of acquire/release in the context manager and closure over all uses of cpu_sem under batch/batch/worker (manual pairing on the CFG with exception edges).')
    ctx.rule('R1', 'every `self.value -= w` is reached only through a test edge implying self.value >= w, with no await / write in between', 2)
    ctx.rule('R2', 'queue is a deque used only via append / [0] / popleft / emptiness tests (and removal of the caller\'s OWN entry); fast path requires an empty queue; tuple layout agrees', 7)
    ctx.rule('R3', 'acquire grants immediately iff queue empty and fits, else enqueues and waits; release gives back, then wakes heads while they fit '
                   '(set+popleft+decrement together) and stops only when the head does not fit', 13)
    ctx.rule('R4', 'context manager releases exactly what it acquired on exit; every worker acquisition of cpu_sem is `async with cpu_sem(w)` or a manual acquire '
                   'released exactly once with the same weight on every exit and never without a completed acquire; nobody writes .value / .queue', 7)
    ctx.rule('R5', 'no queued waiter is abandoned: acquire has no cancellation clean-up, so no worker acquisition of cpu_sem is raced against another event / a timeout '
                   '(acquire handed to a function that cancels what it is given, a timeout block around the wait, a waiting function handed to such a canceller)', 3)
    ctx.rule('R6', 'head invariant restored before any suspension: after every increase of value and every removal from the waiter queue (in any method, on any path) the wake loop '
                   'runs before the coroutine suspends / the method returns, and a waiter removes its own entry only while it is still queued (not yet granted)', 2)
    ctx.assume('asyncio runs one coroutine at a time and switches only at await; asyncio.Event.set wakes every waiter of that event')
    ctx.assume('requested weights do not exceed the capacity (quantifier of the property)')
    m = pf.load(F)
    ctx.unit('files', 2)
    cls = m.cls(CLS)
    # analyse the canonical form: private same-class helpers of acquire / release inlined (engines/inline.py), then the behaviour-preserving spellings of
    # engines/c16norm.py (predicate helper in a test, `x = x + w`, tuple assignment, boolean local in front of its `if`, local alias of a constructor-set attribute)
    public = ('acquire', 'release', '__call__', '__init__')
    try:
        inl: List[str] = []
        wakers = []   # helpers that hold the wake loop stay calls inside acquire (R6 recognises a call of a method that runs the loop); release gets them inlined
        for st in m.cls(CLS).body:
            if isinstance(st, ast.FunctionDef) and st.name not in public:
                try:
                    af.wake_loop(m, m.cls(CLS), st.name, VAL, Q)
                    wakers.append(st.name)
                except af.FitNotOnValue:
                    wakers.append(st.name)
                except AnalysisError:
                    pass
        for target in ('acquire', 'release'):
            m, il = inline_methods(m, CLS, target, exclude=tuple(x for x in public if x != target) + (tuple(wakers) if target == 'acquire' else ()))
            inl += [h for h, _ in il.inlined]
        if inl:
            ctx.info(f'{F}::{CLS}: analysed with the helper(s) {sorted(set(inl))} inlined')
    except AnalysisError:
        m = pf.load(F)
    m = normalise(m, [CLS, CM])
    cls = m.cls(CLS)
    guards = af.guarded_decrements(ctx, m, cls, 'R1', VAL, [Q])
    _r2_fifo(ctx, m, cls)
    # R6 is decided before the shape-specific rules (a liveness hole is reported even when acquire's new shape makes R3/R4 decline); when R6 itself cannot
    # recognise the wake loop, the rules that own that shape (R3) get the first word and R6's objection is raised afterwards
    deferred: Optional[AnalysisError] = None
    holes: List[_Hole] = []
    try:
        holes = _r6_liveness(ctx, m, cls)
    except AnalysisError as e:
        deferred = e
    layout, spec = _acquire(ctx, m, cls, guards)
    _release(ctx, m, cls, guards, layout)
    if deferred is not None:
        raise deferred
    cms = _ctx_manager(ctx, m, spec)
    cancel_safe = _cancel_info(ctx, m, cls)
    _r5_control(ctx)
    _HOLES[:] = holes
    _worker_uses(ctx, cancel_safe, spec, cms)
    for h in holes:
        if not h.reported:
            ctx.ok('R6', h.cons, 'the removal leaves the new head unserved, but it is reached only when a queued wait is cancelled on its own, and R5 shows that no acquisition of cpu_sem can be '
                   '(cancellation of the whole worker at shutdown is outside the property)')
    ctx.unit('functions', 7)
