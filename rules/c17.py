"""C17 Batch jobs run in dependency order with failure propagation.

Decides (from the syntax trees of hailtop/batch/{batch,backend,job}.py; nothing is run):
  R1  Batch._async_run numbers and hands over the jobs in an order in which every job follows its `_dependencies`, and rejects cycles first.
      The traversal is recognised in one of three families and its obligations are decided accordingly:
        * recursive DFS: the job is emitted after the recursion over its `_dependencies` (post-order) behind a visited guard;
        * explicit work stack visited twice per job (plain entries or (job, expanded) pairs): the lifecycle states of a job - valuations of
          its membership in the colour sets, the output list and the stack - are derived by abstract execution of the handling code and the
          finite table "what happens to a dependency found in state s" is enumerated: unvisited -> scheduled; pushed but not yet
          expanded -> scheduled again (never ignored, never taken for a cycle); being expanded -> rejected; emitted -> left alone; no job is
          emitted at its first visit or twice;
        * in-degree counting (Kahn): child table = inverse of `_dependencies` over every job, counter = number of parents, one decrement per
          finished parent, a job becomes ready exactly at zero (linear normal form of the tests), cycles rejected by comparing the lengths.
      Both: every job of the batch is started, ids are the positions in that order, a dependency that is still being expanded (= a cycle) is
      rejected either by the traversal itself or by the order check `index(dep) >= index(job) => raise` (linear normal form) over the finished
      list, the numbering/check loop and `self._jobs = ordered` dominate the call of the backend; LocalBackend executes `batch._jobs` in list order
  R2  LocalBackend keeps exactly the not-always-run dependents of failed or skipped jobs from running, in one of two styles:
        * push: child table = inverse of `_dependencies`; the cancelling helper adds exactly the not-always-run children; the decisions of the
          job loop are enumerated over (job in cancelled) x (always_run): a cancelled job reaches neither _compile nor run_code and cannot end
          its iteration - by whatever shortcut - without handing the cancellation on; a job that is not cancelled cannot miss run_code;
          a failed job cancels, a successful one does not;
        * pull: the skip test over `job._dependencies` is enumerated over always_run x {no parents, all succeeded, all failed/skipped, mixed}
          against the set it consults, whose maintenance is classified from the CFG (exactly the succeeded jobs / exactly the failed and
          skipped jobs); a set of succeeded jobs must be able to contain every possible parent (it cannot when it is per-run and the loop only
          iterates the unsubmitted jobs).
      Both: the result of run_code is tested on every path, the loop is never left early, run_code reports a failing command
  R3  resource-induced edges: both recording sites (Job._interpolate_command.handler, PythonJob.call.handle_arg) add the
      producing job to `self._dependencies` on every path with a foreign, non-None source and on no other; depends_on adds
      every argument to the same set
Does not decide: that the commands themselves fail when they should; the service back end's scheduling (server side); traversals of other
shapes (iterator frames, one dependency at a time, colour dictionaries) and skip decisions built from flags or state dictionaries are declined.
"""
from __future__ import annotations

import ast
from typing import Callable, Dict, List, Optional, Sequence, Set, Tuple

from engines import c17facts as cf, linform, pyfacts as pf
from engines.common import AnalysisError, Ctx

META = dict(
    category='other',
    text='Structural necessary conditions decided on the statement CFGs of the three anchors: post-order emission, dominance of the cycle '
         'check over the backend call, the linear normal form of the cycle test, the colour-set typestate table of an explicit-stack traversal, '
         'must-pass-through of the cancellation on every path a cancelled job can take, the truth table of a pull-style skip decision over '
         'always_run x classes of parents, and sibling agreement of the two sites that record resource-induced edges. Not a proof: the recursion, '
         'the LIFO discipline of the work stack and the set semantics are taken from the recognised idioms, not modelled for arbitrary code.',
    note='Trusted: CPython ast; engines/pyfacts CFG; engines/c17facts abstract executor; set/dict/list semantics of add/append/pop/in; '
         'subprocess.check_call raises on a non-zero status. '
         '"Transitively" is read as the recursive definition: skipped = not always-run and a direct parent failed or was skipped.',
    technique='static analysis: CFG dominance / must-pass-through, linear normal forms, typestate over a finite abstract domain, truth tables, sibling agreement',
    design_ref='DESIGN.md §3 C17',
)

FB = 'hail/python/hailtop/batch/batch.py'
FK = 'hail/python/hailtop/batch/backend.py'
FJ = 'hail/python/hailtop/batch/job.py'
DEPS = '_dependencies'


# ------------------------------------------------------------------------------------------------
# small helpers
# ------------------------------------------------------------------------------------------------

def _node(g: pf.CFG, a: ast.AST, what: str) -> pf.Node:
    ns = [n for n in g.nodes if n.ast is a]
    if not ns:
        raise AnalysisError(f'no CFG node for {what}')
    return ns[0]


def _is_attr(e: ast.AST, base: str, attr: str) -> bool:
    return isinstance(e, ast.Attribute) and e.attr == attr and isinstance(e.value, ast.Name) and e.value.id == base


def _method_call(st: ast.AST, meth: str) -> Optional[ast.Call]:
    """`<recv>.<meth>(...)` as an expression statement."""
    if isinstance(st, ast.Expr) and isinstance(st.value, ast.Call) and isinstance(st.value.func, ast.Attribute) and st.value.func.attr == meth:
        return st.value
    return None


def _inside(outer: ast.AST, inner: ast.AST) -> bool:
    return any(x is inner for x in ast.walk(outer)) and outer is not inner


def _nested_defs(fn: pf.FuncDef) -> List[pf.FuncDef]:
    return [n for n in pf.walk_shallow(fn, into_nested_defs=True) if isinstance(n, (ast.FunctionDef, ast.AsyncFunctionDef)) and n is not fn]


def _calls_to(node: ast.AST, name: str, into_nested: bool = False) -> List[ast.Call]:
    return [c for c in pf.calls_in(node, into_nested) if isinstance(c.func, ast.Name) and c.func.id == name]


def _deps_iter(ctx: Ctx, e: ast.AST, var: str, what: str) -> bool:
    """Does the loop range over every element of `<var>._dependencies`?  Order-only wrappers (sorted, list, tuple, reversed, set, frozenset) are
    seen through; another attribute of `var` is a recognised wrong edge set (False); anything else is not decided."""
    x = e
    while isinstance(x, ast.Call) and isinstance(x.func, ast.Name) and x.func.id in ('sorted', 'list', 'tuple', 'reversed', 'set', 'frozenset') and x.args \
            and not any(k.arg not in ('key', 'reverse') for k in x.keywords) and len(x.args) == 1:
        x = x.args[0]
    if _is_attr(x, var, DEPS):
        return True
    ctx.need(isinstance(x, ast.Attribute) and isinstance(x.value, ast.Name) and x.value.id == var, f'{what}: iterable `{pf.nsrc(e)}` not recognised')
    return False


def _table_lookup(e: ast.AST) -> Optional[Tuple[str, ast.AST]]:
    """`T[k]`, `T.get(k, <empty>)`, `T.setdefault(k, <empty>)`  ->  (T, k)."""
    if isinstance(e, ast.Subscript) and isinstance(e.value, ast.Name):
        return e.value.id, e.slice
    if isinstance(e, ast.Call) and isinstance(e.func, ast.Attribute) and e.func.attr in ('get', 'setdefault') and isinstance(e.func.value, ast.Name) \
            and 1 <= len(e.args) <= 2 and not e.keywords:
        if len(e.args) == 2 and pf.nsrc(e.args[1]) not in ('()', '[]', 'set()', 'frozenset()', 'list()', 'tuple()'):
            return None
        if len(e.args) == 1 and e.func.attr == 'setdefault':
            return None
        return e.func.value.id, e.args[0]
    return None


def _stmts(fn: ast.AST) -> List[ast.stmt]:
    return [n for n in pf.walk_shallow(fn) if isinstance(n, ast.stmt) and n is not fn]


# ------------------------------------------------------------------------------------------------
# R1
# ------------------------------------------------------------------------------------------------

def _colour_sets(fn: pf.FuncDef) -> List[str]:
    """Locals of fn bound (once) to an empty set."""
    out = []
    for name, vals in pf.assignments(fn).items():
        if len(vals) == 1 and isinstance(vals[0], ast.Call) and pf.nsrc(vals[0]) == 'set()':
            out.append(name)
    return sorted(out)


def _r1_recursive(ctx: Ctx, m: pf.Module, fn: pf.FuncDef, where: str, S: pf.FuncDef) -> dict:
    """Family A: a recursive nested scheduler (post-order DFS behind a visited guard)."""
    ctx.need(len(S.args.args) == 1 and not S.args.vararg and not S.args.kwarg, f'{where}.{S.name}: unexpected parameters')
    jv = S.args.args[0].arg
    sg = pf.cfg(S)
    swhere = f'{where}.{S.name}'

    # the recursion loop
    loops = [st for st in _stmts(S) if isinstance(st, ast.For) and isinstance(st.target, ast.Name)
             and any(len(c.args) == 1 and isinstance(c.args[0], ast.Name) and c.args[0].id == st.target.id for c in _calls_to(st, S.name))]
    ctx.need(len(loops) == 1, f'{swhere}: expected one loop recursing on its target, found {len(loops)}')
    loop = loops[0]
    ctx.need(len(_calls_to(S, S.name)) == 1, f'{swhere}: more than one recursive call')
    ctx.check(_deps_iter(ctx, loop.iter, jv, swhere), 'R1', f'{swhere}::recursion iterable',
              f'the DFS recurses over `{pf.nsrc(loop.iter)}`, not over `{jv}.{DEPS}`: a job can be numbered before a job it depends on',
              m.path, loop.lineno)
    L = _node(sg, loop, 'recursion loop')

    # the emission
    emits = [st for st in _stmts(S) if (c := _method_call(st, 'append')) is not None and isinstance(c.func.value, ast.Name)  # type: ignore[union-attr]
             and len(c.args) == 1 and isinstance(c.args[0], ast.Name) and c.args[0].id == jv]
    ctx.need(len(emits) == 1, f'{swhere}: expected exactly one `<list>.append({jv})`, found {len(emits)}')
    emit = emits[0]
    O = emit.value.func.value.id  # type: ignore[attr-defined]
    A = _node(sg, emit, 'emission')
    post = (not _inside(loop, emit)) and sg.dominated_by(A, lambda n: n is L)
    ctx.check(post, 'R1', f'{swhere}::post-order',
              f'`{pf.nsrc(emit)}` is not executed after the loop `for {pf.nsrc(loop.target)} in {pf.nsrc(loop.iter)}` has finished '
              f'(pre-order / in-loop emission): for b.depends_on(a) created in the order b, a the job b is numbered and run before a',
              m.path, emit.lineno)

    # visited guard
    tests = [st for st in _stmts(S) if isinstance(st, ast.If)]
    mem = [st for st in tests if isinstance(st.test, ast.Compare) and len(st.test.ops) == 1 and isinstance(st.test.ops[0], (ast.In, ast.NotIn))
           and isinstance(st.test.left, ast.Name) and st.test.left.id == jv and isinstance(st.test.comparators[0], ast.Name)]
    gcons = f'{swhere}::visited guard'
    colour = set(_colour_sets(fn))
    raising = [t for t in mem if any(isinstance(x, ast.Raise) for x in ast.walk(t))]
    mem = [t for t in mem if t not in raising]   # `if j in on_path: raise` is the cycle test, not the visited guard
    if not mem:
        ctx.need(not [t for t in tests if t not in raising], f'{swhere}: conditionals present but no `{jv} in <set>` test (unrecognised visited idiom)')
        ctx.bad('R1', gcons, f'no `{jv} in <visited>` test guards the recursion: a cyclic pipeline recurses without bound instead of being rejected, '
                             f'and a job reachable along two dependency paths is emitted (numbered, run) twice', m.path, S.lineno)
    else:
        ctx.need(len(mem) == 1, f'{swhere}: several membership tests')
        t = mem[0]
        V = t.test.comparators[0].id  # type: ignore[attr-defined]
        T = _node(sg, t.test, 'visited test')
        seen_lab = 'T' if isinstance(t.test.ops[0], ast.In) else 'F'  # type: ignore[attr-defined]
        # on the "already seen" edge neither the recursion nor the emission may be reached
        leak = sg.path_avoiding(T, lambda n: n is L or n is A, lambda n: False, edge_ok=lambda a, b, lab: a is not T or lab == seen_lab)
        marks = [st for st in _stmts(S) if (c := _method_call(st, 'add')) is not None and isinstance(c.func.value, ast.Name) and c.func.value.id == V  # type: ignore[union-attr]
                 and len(c.args) == 1 and isinstance(c.args[0], ast.Name) and c.args[0].id == jv]
        marked = bool(marks) and all(not _inside(loop, x) for x in marks) and \
            sg.dominated_by(L, lambda n: any(n.ast is x for x in marks)) and sg.dominated_by(L, lambda n: n is T)
        if leak is not None:
            ctx.bad('R1', gcons, f'an already visited job still reaches `{leak[-1].text()}`: it is emitted twice / the recursion does not stop on a cycle', m.path, t.lineno)
        elif not marked:
            ctx.bad('R1', gcons, f'`{V}.add({jv})` does not precede the recursion on every path: on a cyclic pipeline (a -> b -> a) schedule_job recurses '
                                 f'without bound instead of reaching the cycle check', m.path, t.lineno)
        else:
            ctx.ok('R1', gcons, {'visited': V})

    # every job of the batch is scheduled
    outer_calls = [c for c in pf.calls_in(fn) if isinstance(c.func, ast.Name) and c.func.id == S.name]
    ctx.need(len(outer_calls) == 1, f'{where}: expected one top-level call of {S.name}')
    drv = [st for st in _stmts(fn) if isinstance(st, ast.For) and _inside(st, outer_calls[0])]
    ctx.need(len(drv) == 1 and isinstance(drv[0].target, ast.Name), f'{where}: top-level call of {S.name} is not in a simple for loop')
    d0 = drv[0]
    arg_ok = len(outer_calls[0].args) == 1 and isinstance(outer_calls[0].args[0], ast.Name) and outer_calls[0].args[0].id == d0.target.id
    ctx.need(arg_ok, f'{where}: {S.name} is not called on the loop variable')
    ctx.check(_is_attr(d0.iter, 'self', '_jobs'), 'R1', f'{where}::all jobs scheduled',
              f'the scheduler is driven over `{pf.nsrc(d0.iter)}`, not over every job in `self._jobs`', m.path, d0.lineno)
    return dict(family='recursive', O=O, d0=d0, S=S, jv=jv, region=[S, d0], colour=sorted(colour), swhere=swhere)


def _cycles_recursive(ctx: Ctx, m: pf.Module, fn: pf.FuncDef, where: str, T: dict, has_post: bool) -> None:
    """Cycle obligation of family A.  The visited guard returns silently for a job that is still being expanded (it is on the recursion
    path: marked, not yet emitted) - that is a cycle.  It must be rejected either there or by the order check that follows."""
    S, jv, O = T['S'], T['jv'], T['O']
    cons = f'{where}::a dependency that is still being expanded is rejected'
    if has_post:
        ctx.ok('R1', cons, {'by': 'the order check over the finished list (dominates the back-end call)'})
        return
    trav = cf.Traversal(T['swhere'], T['colour'], O, None, DEPS)
    trav.self_call = S.name
    first = cf.unique(trav, trav.run(S.body, cf.St(), jv, 'visit'), 'first visit of a job')
    ctx.need(first.has('deps') and first.has('emit') and trav.at_deps is not None, f'{T["swhere"]}: the first visit of a job does not recurse and emit')
    G = trav.at_deps
    outs = trav.run(S.body, G, jv, 'visit')
    silent = [o for o in outs if o.term != 'raise']
    done = trav.run(S.body, first.st, jv, 'visit')
    if not silent and any(o.term == 'raise' for o in done):
        ctx.bad('R1', cons, f'`{S.name}` raises for a job that has already been emitted ({first.st.describe(trav.sets, O, None)}): the diamond a.depends_on(b, c); '
                            f'b.depends_on(x); c.depends_on(x) is acyclic but is rejected as cyclic', m.path, S.lineno)
        return
    ctx.check(not silent, 'R1', cons,
              f'no order check follows the traversal, and `{S.name}` does not raise when it reaches a job that is still being expanded '
              f'({G.describe(trav.sets, O, None)}): for a.depends_on(b); b.depends_on(a) the recursion returns silently at the second visit of a, '
              f'both jobs are numbered and the back end runs them - a cyclic pipeline is not rejected', m.path, S.lineno)


def _r1_worklist(ctx: Ctx, m: pf.Module, fn: pf.FuncDef, where: str) -> dict:
    """Family B: explicit work stack, every job visited twice (expand: push the dependencies; emit: append to the order)."""
    sets_ = [st for st in _stmts(fn) if isinstance(st, ast.Assign) and len(st.targets) == 1 and _is_attr(st.targets[0], 'self', '_jobs')]
    names = {st.value.id for st in sets_ if isinstance(st.value, ast.Name)}
    ctx.need(len(names) == 1, f'{where}: expected exactly one recursive nested scheduler, found []; and `self._jobs` is not rebound to one local list '
                              f'(traversal not recognised)')
    O = names.pop()
    whiles = [st for st in _stmts(fn) if isinstance(st, ast.While)]
    wls = [w for w in whiles if any((c := _method_call(x, 'append')) is not None and isinstance(c.func.value, ast.Name) and c.func.value.id == O  # type: ignore[union-attr]
                                    for x in pf.walk_shallow(w))]
    ctx.need(len(wls) == 1 and len(whiles) == 1, f'{where}: expected exactly one recursive nested scheduler, found []; and no single work-list loop '
                                                 f'emitting into `{O}` (traversal not recognised)')
    wl = wls[0]
    t = wl.test
    stack = t.id if isinstance(t, ast.Name) else (t.left.args[0].id if isinstance(t, ast.Compare) and isinstance(t.left, ast.Call) and pf.dotted(t.left.func) == 'len'
                                                  and len(t.left.args) == 1 and isinstance(t.left.args[0], ast.Name) else
                                                  (t.args[0].id if isinstance(t, ast.Call) and pf.dotted(t.func) == 'len' and len(t.args) == 1 and isinstance(t.args[0], ast.Name) else None))
    ctx.need(stack is not None, f'{where}: work-list loop condition `{pf.nsrc(t)}` not recognised')
    colour = [c for c in _colour_sets(fn) if c not in (stack, O)]
    twhere = f'{where}::work-list traversal'
    trav = cf.Traversal(twhere, colour, O, stack, DEPS)
    ctx.need(trav._is_stack_test(t), f'{where}: work-list loop condition `{pf.nsrc(t)}` not recognised')
    ctx.need(not wl.orelse, f'{where}: while/else not analysed')

    first = wl.body[0] if wl.body else None
    ok_first = isinstance(first, ast.Assign) and len(first.targets) == 1
    ctx.need(ok_first, f'{twhere}: the loop body does not start with `<job> = {stack}[-1]` / `{stack}.pop()`')
    tgt = first.targets[0]  # type: ignore[union-attr]
    if isinstance(tgt, ast.Name):
        jv = tgt.id
    else:
        # (job, expanded-flag) pairs on the stack
        ctx.need(isinstance(tgt, ast.Tuple) and len(tgt.elts) == 2 and all(isinstance(x, ast.Name) for x in tgt.elts),
                 f'{twhere}: `{pf.nsrc(first)}` does not bind the visited job (or a `job, flag` pair)')
        jv, trav.flagvar = tgt.elts[0].id, tgt.elts[1].id  # type: ignore[attr-defined,union-attr]
        ctx.need(len(pf.assignments(fn).get(trav.flagvar, [])) == 1, f'{twhere}: the entry flag `{trav.flagvar}` is reassigned')
    v = pf.nsrc(first.value)  # type: ignore[union-attr]
    ctx.need(v in (f'{stack}[-1]', f'{stack}.pop()', f'{stack}[len({stack}) - 1]'), f'{twhere}: `{pf.nsrc(first)}` does not take the top of the work stack '
             f'(a queue / arbitrary element is a different algorithm)')
    pop_first = v == f'{stack}.pop()'

    # the driver
    parents = [lp for lp in _stmts(fn) if isinstance(lp, ast.For) and _inside(lp, wl)]
    if parents:
        ctx.need(len(parents) == 1 and isinstance(parents[0].target, ast.Name) and not parents[0].orelse, f'{where}: work-list loop is nested in several loops')
        d0 = parents[0]
        mode = 'loop'
        ctx.check(_is_attr(d0.iter, 'self', '_jobs'), 'R1', f'{where}::all jobs scheduled',
                  f'the traversal is started from `{pf.nsrc(d0.iter)}`, not from every job in `self._jobs`', m.path, d0.lineno)
    else:
        d0 = None
        mode = 'all'
        inits = [st for st in fn.body if isinstance(st, (ast.Assign, ast.AnnAssign)) and isinstance(st.targets[0] if isinstance(st, ast.Assign) else st.target, ast.Name)
                 and (st.targets[0] if isinstance(st, ast.Assign) else st.target).id == stack]  # type: ignore[union-attr]
        ctx.need(len(inits) == 1 and inits[0].value is not None, f'{where}: initial value of the work stack `{stack}` not found')
        ival = inits[0].value
        iv = pf.nsrc(ival)  # type: ignore[arg-type]
        copies = ('list(self._jobs)', 'list(reversed(self._jobs))', 'self._jobs[:]', 'self._jobs.copy()', '[*self._jobs]', 'self._jobs[::-1]')
        if isinstance(ival, ast.ListComp) and len(ival.generators) == 1 and not ival.generators[0].ifs and isinstance(ival.generators[0].target, ast.Name) \
                and pf.nsrc(ival.generators[0].iter) in ('self._jobs', 'reversed(self._jobs)', 'self._jobs[::-1]'):
            ge = ival.generators[0].target.id
            elt_ok = (isinstance(ival.elt, ast.Name) and ival.elt.id == ge) if trav.flagvar is None else (cf.Traversal.entry(ival.elt) == (ge, False))
            ctx.need(elt_ok, f'{where}: initial work stack `{iv}` does not hold every job (unexpanded)')
        else:
            ctx.need(iv in copies and trav.flagvar is None, f'{where}: initial work stack `{iv}` is not a copy of self._jobs')
        ctx.ok('R1', f'{where}::all jobs scheduled', {'stack': iv})
    return dict(family='worklist', O=O, d0=d0, wl=wl, mode=mode, trav=trav, jv=jv, pop_first=pop_first, region=[d0 if d0 is not None else wl], twhere=twhere, stack=stack)


def _zero_test(t: ast.AST, sym: str, alt: Optional[str] = None) -> Optional[bool]:
    """Is `t` the test "the counter `sym` is zero" (for a counter that is never negative)?  True / False (a recognised different threshold) / None.
    `alt`: source text of a collection whose emptiness means the same (`j._dependencies`)."""
    if isinstance(t, ast.UnaryOp) and isinstance(t.op, ast.Not):
        if pf.nsrc(t.operand) in (sym, alt, f'len({alt})'):
            return True
        return None
    if isinstance(t, ast.Compare) and len(t.ops) == 1:
        env = {f'len({alt})': linform.sym(sym)} if alt else {}
        try:
            a, b = linform.lin(t.left, env), linform.lin(t.comparators[0], env)
        except AnalysisError:
            return None
        d = a - b
        if set(d.symbols()) != {sym} or abs(d.coef[sym]) != 1:
            return None
        k = d.const * d.coef[sym]          # test is about  sym + k  (sign normalised)
        op = t.ops[0]
        if d.coef[sym] == -1:
            op = {ast.Lt: ast.Gt, ast.LtE: ast.GtE, ast.Gt: ast.Lt, ast.GtE: ast.LtE}.get(type(op), type(op))()
        # sym + k OP 0
        if isinstance(op, ast.Eq):
            return k == 0
        if isinstance(op, ast.LtE):
            return k == 0
        if isinstance(op, ast.Lt):
            return k == -1
        if isinstance(op, (ast.NotEq, ast.Gt, ast.GtE)):
            return False
    return None


def _r1_kahn(ctx: Ctx, m: pf.Module, fn: pf.FuncDef, where: str) -> Optional[dict]:
    """Family C: in-degree counting (Kahn).  Recognised by a single while loop that decrements a per-job counter; None if that cue is absent."""
    whiles = [st for st in _stmts(fn) if isinstance(st, ast.While)]
    if len(whiles) != 1:
        return None
    wl = whiles[0]
    decs = [x for x in pf.walk_shallow(wl) if isinstance(x, ast.AugAssign) and isinstance(x.op, ast.Sub) and isinstance(x.target, ast.Subscript)
            and isinstance(x.target.value, ast.Name) and isinstance(x.target.slice, ast.Name)]
    if not decs:
        return None
    kw = f'{where}::in-degree traversal'
    ctx.need(len(decs) == 1 and not wl.orelse and any(wl is b for b in fn.body), f'{kw}: expected one counter decrement in a top-level work loop')
    dec = decs[0]
    D, cv = dec.target.value.id, dec.target.slice.id  # type: ignore[attr-defined]
    sets_ = [st for st in _stmts(fn) if isinstance(st, ast.Assign) and len(st.targets) == 1 and _is_attr(st.targets[0], 'self', '_jobs')]
    names = {st.value.id for st in sets_ if isinstance(st.value, ast.Name)}
    ctx.need(len(names) == 1, f'{kw}: `self._jobs` is not rebound to one local list')
    O = names.pop()
    t = wl.test
    R = t.id if isinstance(t, ast.Name) else None
    if R is None:
        tr = cf.Traversal(kw, [], O, None, DEPS)
        for cand in pf.names_in(t):
            tr.stack = cand
            if tr._is_stack_test(t):
                R = cand
    ctx.need(R is not None, f'{kw}: loop condition `{pf.nsrc(t)}` not recognised')
    first = wl.body[0] if wl.body else None
    ctx.need(isinstance(first, ast.Assign) and len(first.targets) == 1 and isinstance(first.targets[0], ast.Name)
             and pf.nsrc(first.value) in (f'{R}.pop()', f'{R}.popleft()', f'{R}.pop(0)'), f'{kw}: the loop body does not start with `<job> = {R}.pop()/popleft()`')
    jv = first.targets[0].id  # type: ignore[union-attr]
    rest = wl.body[1:]
    emits = [b for b in rest if (c := _method_call(b, 'append')) is not None and isinstance(c.func.value, ast.Name) and c.func.value.id == O]  # type: ignore[union-attr]
    ctx.need(len(emits) == 1 and pf.nsrc(emits[0]) == f'{O}.append({jv})', f'{kw}: expected the unconditional emission `{O}.append({jv})` in the loop body')
    cloops = [b for b in rest if isinstance(b, ast.For)]
    ctx.need(len(cloops) == 1 and all(b is emits[0] or b is cloops[0] or isinstance(b, (ast.Pass, ast.Assert)) or (isinstance(b, ast.Expr) and isinstance(b.value, ast.Constant))
                                      for b in rest), f'{kw}: loop body is not `emit; for child in <children>[{jv}]: ...`')
    cl = cloops[0]
    tl = _table_lookup(cl.iter)
    ctx.need(tl is not None and isinstance(tl[1], ast.Name) and tl[1].id == jv and isinstance(cl.target, ast.Name) and cl.target.id == cv and not cl.orelse,
             f'{kw}: child loop `for {pf.nsrc(cl.target)} in {pf.nsrc(cl.iter)}` not recognised')
    table = tl[0]  # type: ignore[index]
    body = [b for b in cl.body if not isinstance(b, ast.Pass)]
    ctx.need(len(body) == 2 and body[0] is dec and isinstance(body[1], ast.If) and not body[1].orelse and len(body[1].body) == 1
             and pf.nsrc(body[1].body[0]) == f'{R}.append({cv})', f'{kw}: child loop body is not `{D}[{cv}] -= 1; if <zero>: {R}.append({cv})`')
    try:
        step = linform.lin(dec.value)
    except AnalysisError:
        raise AnalysisError(f'{kw}: decrement `{pf.nsrc(dec)}` not recognised')
    ctx.need(step.is_const(), f'{kw}: decrement `{pf.nsrc(dec)}` not constant')
    ctx.check(step.const == 1, 'R1', f'{kw}::one edge, one decrement', f'`{pf.nsrc(dec)}` does not count one finished parent as one: a job with two parents becomes ready '
              + ('after the first one' if step.const > 1 else 'never') + '', m.path, dec.lineno)
    z = _zero_test(body[1].test, f'{D}[{cv}]')
    ctx.need(z is not None, f'{kw}: readiness test `{pf.nsrc(body[1].test)}` not recognised')
    ctx.check(z, 'R1', f'{kw}::ready exactly when no parent is left', f'`{pf.nsrc(body[1].test)}` is not "all parents have been emitted" (`{D}[{cv}] == 0` after the decrement): '
              f'c.depends_on(a, b) is put on `{R}` - and numbered - while one of its parents is still waiting, or never', m.path, body[1].lineno)

    # the child table
    fills = [st for st in _stmts(fn) if (c := _method_call(st, 'add') or _method_call(st, 'append')) is not None and (fl := _table_lookup(c.func.value)) is not None and fl[0] == table]
    ctx.need(len(fills) == 1, f'{kw}: expected one `{table}[...].append/add(...)`, found {len(fills)}')
    fill = fills[0]
    fc = fill.value  # type: ignore[attr-defined]
    encl = [lp for lp in _stmts(fn) if isinstance(lp, ast.For) and _inside(lp, fill)]
    ctx.need(len(encl) == 2 and all(isinstance(lp.target, ast.Name) for lp in encl) and not any(isinstance(x, (ast.If, ast.Break, ast.Continue)) for lp in encl for x in _stmts(lp)),
             f'{kw}: child table is not filled unconditionally in a doubly nested loop')
    outer, inn = (encl[0], encl[1]) if _inside(encl[0], encl[1]) else (encl[1], encl[0])
    ov, iv = outer.target.id, inn.target.id  # type: ignore[attr-defined]
    ctx.check(_deps_iter(ctx, inn.iter, ov, kw), 'R1', f'{kw}::edges are {DEPS}', f'the child table is filled from `{pf.nsrc(inn.iter)}`, not from `{ov}.{DEPS}`', m.path, inn.lineno)
    key, val = _table_lookup(fc.func.value)[1], (fc.args[0] if len(fc.args) == 1 else None)  # type: ignore[index]
    ctx.check(isinstance(key, ast.Name) and key.id == iv and isinstance(val, ast.Name) and val.id == ov, 'R1', f'{kw}::child table is the inverse of {DEPS}',
              f'`{pf.nsrc(fill)}` inside `for {ov} in ...: for {iv} in {ov}.{DEPS}` does not record `{ov}` as a child of `{iv}`: finishing a job releases the wrong jobs', m.path, fill.lineno)
    ctx.check(_is_attr(outer.iter, 'self', '_jobs'), 'R1', f'{where}::all jobs scheduled', f'the child table is built over `{pf.nsrc(outer.iter)}`, not over every job in `self._jobs`',
              m.path, outer.lineno)
    g = pf.cfg(fn)
    W = _node(g, wl.test, 'work loop')
    ctx.need(any(outer is b for b in fn.body) and g.dominated_by(W, lambda n: n.ast is outer), f'{kw}: child table is not complete before the work loop')
    tdefs = pf.assignments(fn).get(table, [])
    ctx.need(len(tdefs) == 1 and pf.nsrc(tdefs[0]) in ('collections.defaultdict(set)', 'defaultdict(set)', '{}', 'dict()', 'collections.defaultdict(list)', 'defaultdict(list)'),
             f'{kw}: `{table}` is not initialised once to an empty table')

    # the counters
    icons = f'{kw}::counter starts at the number of parents'
    ddefs = pf.assignments(fn).get(D, [])
    ctx.need(len(ddefs) == 1, f'{kw}: `{D}` is assigned {len(ddefs)} times')
    dd = ddefs[0]
    others_w = [x for x in pf.walk_shallow(fn) if isinstance(x, (ast.Assign, ast.AugAssign)) and x is not dec
                and any(isinstance(tg, ast.Subscript) and isinstance(tg.value, ast.Name) and tg.value.id == D for tg in (x.targets if isinstance(x, ast.Assign) else [x.target]))]
    if isinstance(dd, ast.DictComp):
        ctx.need(not others_w and len(dd.generators) == 1 and not dd.generators[0].ifs and isinstance(dd.generators[0].target, ast.Name) and isinstance(dd.key, ast.Name)
                 and dd.key.id == dd.generators[0].target.id, f'{kw}: counter table `{pf.nsrc(dd)[:80]}` not recognised')
        a = dd.generators[0].target.id
        ctx.need(_is_attr(dd.generators[0].iter, 'self', '_jobs'), f'{kw}: counters are not initialised for every job of self._jobs')
        ok_init = pf.nsrc(dd.value) == f'len({a}.{DEPS})'
        ctx.need(ok_init or 'len(' in pf.nsrc(dd.value), f'{kw}: initial counter `{pf.nsrc(dd.value)}` not recognised')
        ctx.check(ok_init, 'R1', icons, f'the counter of a job starts at `{pf.nsrc(dd.value)}`, not at `len({a}.{DEPS})`: it reaches zero before / never when all parents are emitted',
                  m.path, dd.lineno)
    else:
        ctx.need(pf.nsrc(dd) in ('{}', 'dict()', 'collections.defaultdict(int)', 'defaultdict(int)') and len(others_w) == 1, f'{kw}: counter table `{D}` not recognised')
        w = others_w[0]
        in_outer = any(w is b for b in outer.body)
        in_inner = any(w is b for b in inn.body)
        if isinstance(w, ast.Assign) and in_outer and pf.nsrc(w.targets[0]) == f'{D}[{ov}]':
            ok_init = pf.nsrc(w.value) == f'len({ov}.{DEPS})'
            ctx.need(ok_init or 'len(' in pf.nsrc(w.value), f'{kw}: initial counter `{pf.nsrc(w.value)}` not recognised')
            ctx.check(ok_init, 'R1', icons, f'the counter of a job starts at `{pf.nsrc(w.value)}`, not at `len({ov}.{DEPS})`', m.path, w.lineno)
        elif isinstance(w, ast.AugAssign) and isinstance(w.op, ast.Add) and in_inner and pf.nsrc(w.target) == f'{D}[{ov}]' and pf.nsrc(w.value) == '1' and 'defaultdict(int)' in pf.nsrc(dd):
            ctx.ok('R1', icons, {'by': 'one increment per edge'})
        else:
            raise AnalysisError(f'{kw}: counter initialisation `{pf.nsrc(w)}` not recognised')

    # the initial ready list
    rdefs = pf.assignments(fn).get(R, [])
    ctx.need(len(rdefs) == 1, f'{kw}: `{R}` is assigned {len(rdefs)} times')
    rd = rdefs[0]
    if isinstance(rd, ast.Call) and (pf.dotted(rd.func) or '').split('.')[-1] in ('deque', 'list') and len(rd.args) == 1:
        rd = rd.args[0]
    ctx.need(isinstance(rd, (ast.ListComp, ast.GeneratorExp)) and len(rd.generators) == 1 and isinstance(rd.generators[0].target, ast.Name)
             and isinstance(rd.elt, ast.Name) and rd.elt.id == rd.generators[0].target.id and len(rd.generators[0].ifs) == 1, f'{kw}: initial ready list `{pf.nsrc(rd)[:80]}` not recognised')
    a = rd.generators[0].target.id  # type: ignore[union-attr]
    ctx.need(_is_attr(rd.generators[0].iter, 'self', '_jobs'), f'{kw}: the initial ready list is not drawn from self._jobs')  # type: ignore[union-attr]
    z0 = _zero_test(rd.generators[0].ifs[0], f'{D}[{a}]', f'{a}.{DEPS}')  # type: ignore[union-attr]
    ctx.need(z0 is not None, f'{kw}: initial readiness test `{pf.nsrc(rd.generators[0].ifs[0])}` not recognised')  # type: ignore[union-attr]
    ctx.check(z0, 'R1', f'{kw}::initially ready = no parents', f'the initial ready list takes the jobs with `{pf.nsrc(rd.generators[0].ifs[0])}`, not the jobs without parents', m.path, wl.lineno)  # type: ignore[union-attr]
    other_pushes = [x for x in pf.walk_shallow(fn) if isinstance(x, ast.Call) and isinstance(x.func, ast.Attribute) and isinstance(x.func.value, ast.Name) and x.func.value.id == R
                    and x.func.attr in ('append', 'appendleft', 'extend', 'insert', 'extendleft') and x is not body[1].body[0].value]  # type: ignore[attr-defined]
    ctx.need(not other_pushes, f'{kw}: `{pf.nsrc(other_pushes[0]) if other_pushes else ""}` also feeds the ready list')

    # the rejection of cycles: len(O) against len(self._jobs)
    length_check = None
    for st in fn.body:
        if isinstance(st, ast.If) and any(isinstance(x, ast.Raise) for x in st.body) and not st.orelse:
            txt = pf.nsrc(st.test)
            lo, lj = f'len({O})', 'len(self._jobs)'
            if txt in (f'{lo} != {lj}', f'{lj} != {lo}', f'{lo} < {lj}', f'{lj} > {lo}'):
                ctx.need(g.dominated_by(_node(g, st.test, 'length check'), lambda n: n is W) and isinstance(st.body[0], ast.Raise), f'{kw}: length check does not follow the work loop')
                length_check = st
    return dict(family='kahn', O=O, d0=None, wl=wl, region=[wl, length_check], length_check=length_check)


def _typestate_worklist(ctx: Ctx, m: pf.Module, fn: pf.FuncDef, where: str, T: dict, has_post: bool) -> None:
    """Enumerate the lifecycle states of a job (derived from the code) and decide what the traversal does with a dependency found in
    each of them.  Every FAIL below names a resting state whose handling breaks the order / the cycle rejection; the example pipeline
    in the message is a history in which every step is one of the decided table entries."""
    trav: cf.Traversal = T['trav']
    wl, jv, O, stack, mode, d0 = T['wl'], T['jv'], T['O'], T['stack'], T['mode'], T['d0']
    tw = T['twhere']
    W = cf.St()
    line = wl.lineno

    def d(st: cf.St) -> str:
        return st.describe(trav.sets, O, stack)

    flagged = trav.flagvar is not None

    def net(o: cf.Outcome) -> int:
        """Net effect of one visit on the number of stack entries of the visited job."""
        return (-1 if T['pop_first'] else 0) + sum(1 for e in o.events if e in ('push', 'pushT')) - sum(1 for e in o.events if e == 'pop')

    def visit(st: cf.St, what: str, top: bool = False) -> Tuple[str, cf.Outcome]:
        """Abstract visit of the top entry, which denotes the tracked job (top = its expanded-flag when the stack holds pairs)."""
        ctx.need((st.nflag if (flagged and top) else st.nstack) > 0, f'{tw}: {what}: no such stack entry')
        trav.flag = top if flagged else None
        s0 = st
        if T['pop_first']:
            s0 = st.with_(flag=-1) if (flagged and top) else st.with_(stack=-1)
        outs = trav.run(wl.body[1:], s0, jv, 'visit')
        trav.flag = None
        o = cf.unique(trav, outs, what)
        if o.term == 'raise':
            return 'raise', o
        if o.term in ('break', 'return'):
            raise AnalysisError(f'{tw}: {what}: the visit leaves the work-list loop')
        delta = net(o)
        deps, emit = o.has('deps'), o.has('emit')
        if deps and emit:
            return 'expand+emit', o
        if deps and delta == 0 and (not flagged or (not top and o.has('pushT'))):
            return 'expand', o
        if emit and delta == -1:
            return 'emit', o
        if not deps and not emit and delta == -1:
            return 'discard', o
        raise AnalysisError(f'{tw}: {what} ({d(st)}): neither expands, emits nor discards the job (events {list(o.events)})')

    def after(st: cf.St, o: cf.Outcome, top: bool = False) -> cf.St:
        """State after a visit of the TOP entry (computed from the events, so that several entries of one job are accounted for)."""
        ns, nf = st.nstack, st.nflag
        gone = (1 if T['pop_first'] else 0) + sum(1 for e in o.events if e == 'pop')
        if flagged and top:
            nf -= gone
        else:
            ns -= gone
        ns += sum(1 for e in o.events if e == 'push')
        nf += sum(1 for e in o.events if e == 'pushT')
        return cf.St(o.st.bits, o.st.emitted, ns, nf)

    # -- roots ------------------------------------------------------------------------------------
    rcons = f'{tw}::an unvisited job is started'
    if mode == 'loop':
        rv = d0.target.id

        def root(st: cf.St, what: str) -> Tuple[str, cf.Outcome]:
            o = cf.unique(trav, trav.run(d0.body, st, rv, 'root'), what)
            if o.has('push') and o.has('loop') and o.events.index('push') < o.events.index('loop'):
                return 'start', o
            if not o.has('push') and o.term in ('continue', 'fall'):
                return 'skip', o
            raise AnalysisError(f'{tw}: {what}: handling of the root not recognised (events {list(o.events)})')
        c, o = root(W, 'an unvisited root')
        if c != 'start':
            ctx.bad('R1', rcons, f'a job that has not been visited ({d(W)}) is not put on `{stack}` by the driver loop: it is never numbered', m.path, d0.lineno)
            return
        ctx.ok('R1', rcons)
        P_root = o.st
    else:
        root = None  # type: ignore[assignment]
        P_root = cf.St(frozenset(), 0, 1)
        ctx.ok('R1', rcons, {'mode': 'all jobs pushed initially'})

    # -- two visits -------------------------------------------------------------------------------
    pcons = f'{tw}::post-order'

    def two_visits(P: cf.St, who: str) -> Optional[Tuple[cf.St, cf.St]]:
        c1, o1 = visit(P, f'first visit of {who}')
        if c1 in ('emit', 'expand+emit'):
            ctx.bad('R1', pcons, f'{who} ({d(P)}) is appended to `{O}` at its first visit'
                    + (' - its dependencies have only been pushed, none of them is in the list yet' if c1 == 'expand+emit' else ' without its dependencies being looked at')
                    + ': for b.depends_on(a) created in the order b, a the job b is numbered and run before a', m.path, o1.line or line)
            return None
        if c1 != 'expand':
            raise AnalysisError(f'{tw}: first visit of {who} ({d(P)}) is `{c1}`, not an expansion')
        G = after(P, o1)
        c2, o2 = visit(G, f'second visit of {who}', top=True)
        if c2 != 'emit':
            raise AnalysisError(f'{tw}: second visit of {who} ({d(G)}) is `{c2}`, not the emission')
        return G, after(G, o2, top=True)

    r = two_visits(P_root, 'a root job')
    if r is None:
        return
    G_root, B_root = r
    ctx.need(len(trav.dep_loops) == 1, f'{tw}: expected one loop over the dependencies of the visited job')
    dl = trav.dep_loops[0]
    pv = dl.target.id  # type: ignore[attr-defined]
    ctx.check(_is_attr(dl.iter, jv, DEPS), 'R1', f'{tw}::expansion iterable',
              f'the expansion pushes `{pf.nsrc(dl.iter)}`, not `{jv}.{DEPS}`: a job can be numbered before a job it depends on', m.path, dl.lineno)

    def dep(st: cf.St, what: str) -> Tuple[str, cf.Outcome]:
        o = cf.unique(trav, trav.run(dl.body, st, pv, 'dep'), what)
        if o.term == 'raise':
            return 'raise', o
        if o.term == 'return':
            raise AnalysisError(f'{tw}: {what}: the dependency loop returns')
        return ('push' if o.has('push') else 'ignore'), o

    ucons = f'{tw}::an unvisited dependency is scheduled'
    c, o = dep(W, 'an unvisited dependency')
    if c != 'push':
        ctx.bad('R1', ucons, f'a dependency that has not been visited ({d(W)}) is ' + ('rejected as a cycle' if c == 'raise' else f'not pushed on `{stack}`')
                + ': for b.depends_on(a) created in the order b, a ' + ('the acyclic pipeline is rejected' if c == 'raise' else 'b is numbered and run before a'), m.path, dl.lineno)
        return
    ctx.ok('R1', ucons)
    ctx.need(o.term in ('fall', 'continue'), f'{tw}: the expansion stops at the first unvisited dependency (one-at-a-time traversal is not analysed)')
    P_dep = cf.St(o.st.bits, o.st.emitted, 1)
    r = two_visits(P_dep, 'a job pushed as a dependency')
    if r is None:
        return
    G_dep, B_dep = r
    ctx.ok('R1', pcons, {'expanding': d(G_dep), 'emitted': d(B_dep)})

    # -- a dependency that is on the stack but has not been expanded yet ---------------------------
    # (resting state: the expansion pushes several dependencies, the one on top is expanded while the others wait)
    qcons = f'{tw}::a pushed, not yet expanded dependency is still ordered first'
    pend = [P_dep] + ([P_root] if mode == 'all' and P_root != P_dep else [])
    dup: Optional[cf.St] = None
    qbad = False
    for P in pend:
        c, o = dep(P, 'a pending dependency')
        if c == 'ignore':
            qbad = True
            ctx.bad('R1', qcons,
                    f'a dependency that was pushed by another job and is still waiting on `{stack}` ({d(P)}) is neither pushed again nor rejected, so the depending job is '
                    f'emitted first: top.depends_on(low, mid); mid.depends_on(low), top visited first and `top.{DEPS}` iterated low, mid  =>  low and mid are pushed, mid (on top) '
                    f'is expanded, finds low ({d(P)}), does nothing, and is appended to `{O}` before low'
                    + ('; the order check that follows then rejects this acyclic pipeline as cyclic' if has_post else
                       ' - mid is numbered and run before the job it depends on; the same hole hides the cycle x <-> y below top'), m.path, dl.lineno)
        elif c == 'raise':
            qbad = True
            ctx.bad('R1', qcons, f'a dependency that is merely waiting on `{stack}` ({d(P)}) is rejected as a cycle: the acyclic pipeline top.depends_on(low, mid); '
                                 f'mid.depends_on(low) fails with a cycle error', m.path, o.line or dl.lineno)
        else:
            dup = cf.St(o.st.bits, o.st.emitted, 2)
    if not qbad:
        ctx.ok('R1', qcons, {'handling': 'pushed again' if dup is not None else 'n/a'})

    # -- a dependency that is being expanded (on the DFS path): a cycle ---------------------------
    ccons = f'{where}::a dependency that is still being expanded is rejected'
    cbad = None
    for G in dict.fromkeys([G_root, G_dep]):
        c, o = dep(G, 'a dependency that is being expanded')
        if c != 'raise' and not has_post:
            cbad = (G, c)
    if cbad is not None:
        ctx.bad('R1', ccons, f'a dependency that is being expanded ({d(cbad[0])}) is {"pushed again" if cbad[1] == "push" else "ignored"} instead of raising, and no order check '
                             f'follows the traversal: for a.depends_on(b); b.depends_on(a) both jobs are numbered and run - a cyclic pipeline is not rejected', m.path, dl.lineno)
    else:
        ctx.ok('R1', ccons, {'by': 'the order check over the finished list' if has_post else 'raise in the expansion'})

    # -- a dependency that has been emitted / single emission -------------------------------------
    econs = f'{tw}::an emitted dependency is left alone'
    scons = f'{tw}::every job is emitted once'
    ebad = sbad = False

    def stale(B1: cf.St, how: str) -> None:
        """A stack entry of an already emitted job comes to the top: it must be discarded."""
        nonlocal sbad
        c3, o3 = visit(B1, 'visit of a stale stack entry')
        if c3 == 'expand':
            c4, _o4 = visit(after(B1, o3), 'second visit of a stale stack entry', top=True)
            ctx.need(c4 == 'emit', f'{tw}: a stale stack entry is expanded again but then `{c4}`')
        if c3 != 'discard':
            sbad = True
            ctx.bad('R1', scons, f'{how}; when that entry reaches the top the job ({d(B1)}) is {"expanded and emitted" if c3 == "expand" else c3} again: it is numbered twice and the '
                                 f'back end runs it twice', m.path, o3.line or line)

    for B in dict.fromkeys([B_root, B_dep]):
        c, o = dep(B, 'an emitted dependency')
        if c == 'raise':
            ebad = True
            ctx.bad('R1', econs, f'a dependency that is already in `{O}` ({d(B)}) is rejected as a cycle: the diamond a.depends_on(b, c); b.depends_on(x); c.depends_on(x) '
                                 f'is acyclic but fails with a cycle error', m.path, o.line or dl.lineno)
        elif c == 'push':
            stale(cf.St(o.st.bits, o.st.emitted, 1), f'a dependency that is already in `{O}` is pushed again')
    if dup is not None:
        c1, o1 = visit(dup, 'first visit of a job pushed twice')
        if c1 == 'expand':
            G2 = after(dup, o1)
            c2, o2 = visit(G2, 'second visit of a job pushed twice', top=True)
            if c2 == 'emit':
                stale(after(G2, o2, top=True), f'a waiting dependency is pushed a second time (top.depends_on(low, mid); mid.depends_on(low))')
            else:
                raise AnalysisError(f'{tw}: second visit of a job pushed twice is `{c2}`')
        else:
            raise AnalysisError(f'{tw}: first visit of a job pushed twice is `{c1}`')
    if mode == 'loop':
        for B in dict.fromkeys([B_root, B_dep]):
            c, o = root(B, 'an emitted root')
            if c == 'start':
                stale(cf.St(o.st.bits, o.st.emitted, 1), f'a job that was already emitted as a dependency of an earlier root is started again by the driver loop')
    if not ebad:
        ctx.ok('R1', econs)
    if not sbad:
        ctx.ok('R1', scons)


def _numbering(ctx: Ctx, m: pf.Module, fn: pf.FuncDef, where: str, O: str, region: List[ast.AST]) -> Tuple[List[ast.For], bool]:
    """ids = positions in O; the order check (post-check) if there is one.  Returns (numbering loop [+ separate check loop], has_post)."""
    ids = [st for st in _stmts(fn) if isinstance(st, ast.Assign) and len(st.targets) == 1 and isinstance(st.targets[0], ast.Attribute)
           and st.targets[0].attr == '_job_id']
    ctx.need(len(ids) == 1, f'{where}: expected one `<job>._job_id = ...`, found {len(ids)}')
    idst = ids[0]
    cl = [st for st in fn.body if isinstance(st, ast.For) and _inside(st, idst)]
    ctx.need(len(cl) == 1 and any(b is idst for b in cl[0].body), f'{where}: `{pf.nsrc(idst)}` is not directly inside one top-level loop')
    cloop = cl[0]

    def enum_of(it: ast.AST) -> Optional[Tuple[ast.AST, ast.AST]]:
        """enumerate(X[, start]) -> (X, start expr)"""
        if isinstance(it, ast.Call) and pf.dotted(it.func) == 'enumerate' and it.args and len(it.args) <= 2:
            start: ast.AST = ast.Constant(0)
            if len(it.args) == 2:
                start = it.args[1]
            for k in it.keywords:
                if k.arg == 'start':
                    start = k.value
                else:
                    return None
            return it.args[0], start
        return None

    # index table  {job: i for i, job in enumerate(O, ...)}
    idx_name, idx_start = None, None
    for st in fn.body:
        if isinstance(st, ast.Assign) and len(st.targets) == 1 and isinstance(st.targets[0], ast.Name) and isinstance(st.value, ast.DictComp):
            dc = st.value
            en = enum_of(dc.generators[0].iter) if len(dc.generators) == 1 else None
            tg = dc.generators[0].target if len(dc.generators) == 1 else None
            if en is not None and isinstance(en[0], ast.Name) and en[0].id == O and isinstance(tg, ast.Tuple) and len(tg.elts) == 2 \
                    and all(isinstance(x, ast.Name) for x in tg.elts) and not dc.generators[0].ifs:
                iv, ev = tg.elts[0].id, tg.elts[1].id  # type: ignore[attr-defined]
                ctx.need(isinstance(dc.key, ast.Name) and dc.key.id == ev and isinstance(dc.value, ast.Name) and dc.value.id == iv,
                         f'{where}: index dict does not map element -> position')
                idx_name, idx_start = st.targets[0].id, pf.nsrc(en[1])

    # the numbering loop ranges over O
    env: Dict[str, object] = {}
    en = enum_of(cloop.iter)
    if (isinstance(cloop.iter, ast.Name) or _is_attr(cloop.iter, 'self', '_jobs')) and isinstance(cloop.target, ast.Name):
        over, j2, counter = cloop.iter, cloop.target.id, None
    elif en is not None and isinstance(cloop.target, ast.Tuple) and len(cloop.target.elts) == 2 and all(isinstance(x, ast.Name) for x in cloop.target.elts):
        over, counter, j2 = en[0], cloop.target.elts[0].id, cloop.target.elts[1].id  # type: ignore[attr-defined]
    else:
        raise AnalysisError(f'{where}: numbering loop `for {pf.nsrc(cloop.target)} in {pf.nsrc(cloop.iter)}` not recognised')
    if _is_attr(over, 'self', '_jobs'):
        # `self._jobs` is the order once it has been rebound to it on every path to the loop
        g = pf.cfg(fn)
        rebinds = [st for st in _stmts(fn) if isinstance(st, ast.Assign) and len(st.targets) == 1 and _is_attr(st.targets[0], 'self', '_jobs')]
        if rebinds and all(isinstance(st.value, ast.Name) and st.value.id == O for st in rebinds) \
                and g.dominated_by(_node(g, cloop, 'numbering loop'), lambda n: any(n.ast is st for st in rebinds)):
            over = ast.Name(id=O, ctx=ast.Load())
        elif counter is None and idx_name is not None:
            over = ast.Name(id=O, ctx=ast.Load())     # same jobs; the ids come from the index table, not from the iteration order
    ctx.check(isinstance(over, ast.Name) and over.id == O, 'R1', f'{where}::numbering ranges over the order',
              f'the ids are assigned in a loop over `{pf.nsrc(over)}`, not over the dependency order `{O}`', m.path, cloop.lineno)
    for st in cloop.body:
        if isinstance(st, ast.Assign) and len(st.targets) == 1 and isinstance(st.targets[0], ast.Name):
            env[st.targets[0].id] = st.value
    if idx_name is not None:
        me = linform.sym(f'{idx_name}[{j2}]')
        if counter is not None:
            ctx.need(pf.nsrc(en[1]) == idx_start, f'{where}: the loop counter and `{idx_name}` count from different starts')  # type: ignore[index]
            env[counter] = me
    else:
        ctx.need(counter is not None, f'{where}: no `{{job: i for i, job in enumerate({O}, ...)}}` index table and no enumerate counter')
        me = linform.sym(counter)  # type: ignore[arg-type]
    try:
        id_ok = linform.lin(idst.value, env) == me  # type: ignore[arg-type]
    except AnalysisError:
        id_ok = False
    ctx.need(_is_attr(idst.targets[0], j2, '_job_id'), f'{where}: `{pf.nsrc(idst)}` does not number the loop variable')
    ctx.check(id_ok, 'R1', f'{where}::job id = position', f'`{pf.nsrc(idst)}` does not assign the position of the job in the dependency order '
              f'(`{me!r}`)', m.path, idst.lineno)

    # the order check: in the numbering loop, or in a loop of its own over the same list
    kloop, kj, kenv = cloop, j2, env
    others = [st for st in fn.body if isinstance(st, ast.For) and st is not cloop and not any(st is r or _inside(r, st) for r in region if r is not None)
              and any(isinstance(x, ast.Raise) for x in ast.walk(st))]
    if others and not any(isinstance(x, ast.Raise) for x in ast.walk(cloop)):
        ctx.need(len(others) == 1 and isinstance(others[0].iter, ast.Name) and others[0].iter.id == O and isinstance(others[0].target, ast.Name) and idx_name is not None,
                 f'{where}: raising loop `for {pf.nsrc(others[0].target)} in {pf.nsrc(others[0].iter)}` is not recognised as the order check')
        kloop, kj = others[0], others[0].target.id  # type: ignore[attr-defined]
        kenv = {st.targets[0].id: st.value for st in kloop.body if isinstance(st, ast.Assign) and len(st.targets) == 1 and isinstance(st.targets[0], ast.Name)}
        me = linform.sym(f'{idx_name}[{kj}]')
    inner = [st for st in kloop.body if isinstance(st, ast.For) and isinstance(st.target, ast.Name) and any(isinstance(x, ast.Raise) for x in ast.walk(st))]
    stray = [x for x in pf.walk_shallow(fn) if isinstance(x, ast.Raise) and not any(_inside(r, x) for r in region if r is not None) and not any(_inside(i, x) for i in inner)]
    ctx.need(not stray, f'{where}: `{pf.nsrc(stray[0]) if stray else ""}` outside the traversal and the order check is not recognised')
    ctx.need(len(inner) <= 1, f'{where}: several raising loops in the numbering loop')
    if not inner:
        ctx.need(not any(isinstance(x, ast.Raise) for x in ast.walk(cloop)), f'{where}: raise in the numbering loop is not in a loop over the dependencies')
        return [cloop], False
    j2, env = kj, kenv
    ctx.need(idx_name is not None, f'{where}: order check without a `{{job: i for i, job in enumerate({O}, ...)}}` index table')
    il = inner[0]
    dv = il.target.id  # type: ignore[attr-defined]
    ctx.check(_deps_iter(ctx, il.iter, j2, where), 'R1', f'{where}::cycle check iterable',
              f'the cycle check inspects `{pf.nsrc(il.iter)}`, not `{j2}.{DEPS}`', m.path, il.lineno)
    ifs = [st for st in il.body if isinstance(st, ast.If)]
    ctx.need(len(il.body) == 1 and len(ifs) == 1 and not ifs[0].orelse and len(ifs[0].body) == 1 and isinstance(ifs[0].body[0], ast.Raise),
             f'{where}: cycle check is not `if <test>: raise`')
    test = ifs[0].test
    want = me - linform.sym(f'{idx_name}[{dv}]')  # raise  <=>  index(job) - index(dep) <= 0
    try:
        got = linform.cmp_le0(test, env)  # type: ignore[arg-type]
    except AnalysisError as e:
        raise AnalysisError(f'{where}: cycle test `{pf.nsrc(test)}` not recognised ({e})')
    ctx.need(set(got.symbols()) == set(want.symbols()), f'{where}: cycle test `{pf.nsrc(test)}` is not over {want.symbols()}')
    ctx.check(got == want, 'R1', f'{where}::cycle test',
              f'the test `{pf.nsrc(test)}` means `{got!r} <= 0` but a cycle shows as index(dep) >= index(job), i.e. `{want!r} <= 0`: '
              + ('a job that depends on itself (j.depends_on(j)) has index(dep) == index(job) and is accepted' if (got - want).is_const() and (got - want).const > 0
                 else 'acyclic pipelines are rejected / cyclic ones accepted'), m.path, ifs[0].lineno)
    return ([cloop] if kloop is cloop else [cloop, kloop]), True


def _r1(ctx: Ctx) -> None:
    m = pf.load(FB)
    fn = m.func('Batch._async_run')
    g = pf.cfg(fn)
    where = f'{FB}::Batch._async_run'

    rec = [d for d in _nested_defs(fn) if _calls_to(d, d.name)]
    ctx.need(len(rec) <= 1, f'{where}: expected exactly one recursive nested scheduler, found {[d.name for d in rec]}')
    if rec:
        T = _r1_recursive(ctx, m, fn, where, rec[0])
    else:
        T = _r1_kahn(ctx, m, fn, where) or _r1_worklist(ctx, m, fn, where)
    O, d0 = T['O'], T['d0']
    # nothing but the traversal writes the order
    for x in pf.walk_shallow(fn, into_nested_defs=True):
        if isinstance(x, ast.Call) and isinstance(x.func, ast.Attribute) and isinstance(x.func.value, ast.Name) and x.func.value.id == O \
                and x.func.attr in ('insert', 'extend', 'reverse', 'sort', 'remove', 'pop', 'clear', '__setitem__'):
            raise AnalysisError(f'{where}: `{pf.nsrc(x)}` changes the order outside the recognised emission')
    odefs = pf.assignments(fn).get(O, [])
    ctx.need(len(odefs) == 1 and isinstance(odefs[0], (ast.List, ast.Call)) and pf.nsrc(odefs[0]) in ('[]', 'list()'), f'{where}: `{O}` is not initialised once to an empty list')

    cloops, has_post = _numbering(ctx, m, fn, where, O, T['region'])
    # frozen instance counts per recognised shape (clean tree: recursive + order check)
    ctx.rule('R1', R1_TEXT, {('recursive', True): 13, ('recursive', False): 11, ('worklist', True): 17, ('worklist', False): 15,
                             ('kahn', True): 16, ('kahn', False): 14}[(T['family'], has_post)])
    if T['family'] == 'recursive':
        _cycles_recursive(ctx, m, fn, where, T, has_post)
    elif T['family'] == 'kahn':
        ccons = f'{where}::a dependency that is still being expanded is rejected'
        ctx.check(has_post or T['length_check'] is not None, 'R1', ccons,
                  f'in-degree counting never emits a job that lies on a cycle, and nothing compares `len({O})` with `len(self._jobs)` (or re-checks the order) before the back end '
                  f'runs: for a.depends_on(b); b.depends_on(a) both jobs silently drop out of `self._jobs = {O}` and every other job is executed - a cyclic pipeline is not rejected',
                  m.path, T['wl'].lineno)
    else:
        _typestate_worklist(ctx, m, fn, where, T, has_post)

    # dominance over the backend call
    bcalls = [c for c in pf.calls_in(fn) if pf.dotted(c.func) == 'self._backend._async_run']
    ctx.need(len(bcalls) >= 1, f'{where}: no call of self._backend._async_run')
    CLs = [_node(g, c, 'numbering / cycle loop') for c in cloops]
    DL = _node(g, d0, 'driver loop') if d0 is not None else _node(g, T['wl'].test, 'work-list loop')
    for c, CL in zip(cloops, CLs):
        ctx.need(g.dominated_by(CL, lambda n: n is DL) and not _inside(d0 if d0 is not None else T['wl'], c), f'{where}: cycle check does not follow the scheduling loop')
    sets = [st for st in _stmts(fn) if isinstance(st, ast.Assign) and len(st.targets) == 1 and _is_attr(st.targets[0], 'self', '_jobs')]
    dom_bad, ord_bad = [], []
    for bc in bcalls:
        bn = g.node_of(bc)
        ctx.need(len(bn) == 1, f'{where}: backend call node not found')
        B = bn[0]
        ctx.need(bool(bc.args) and isinstance(bc.args[0], ast.Name) and bc.args[0].id == 'self', f'{where}: backend is not run on self')
        if any(_inside(c, bc) or not g.dominated_by(B, lambda n, CL=CL: n is CL) for c, CL in zip(cloops, CLs)):
            dom_bad.append(B)
        elif T.get('length_check') is not None and not has_post and not g.dominated_by(B, lambda n: n.ast is T['length_check'].test):
            dom_bad.append(B)
        good = [st for st in sets if isinstance(st.value, ast.Name) and st.value.id == O and g.dominated_by(B, lambda n, st=st: n.ast is st)]
        if not good or len(sets) != len([st for st in sets if isinstance(st.value, ast.Name) and st.value.id == O]):
            ord_bad.append(B)
    ctx.check(not dom_bad, 'R1', f'{where}::cycle check dominates backend run',
              f'there is a path to `self._backend._async_run(...)` (line {dom_bad[0].lineno if dom_bad else 0}) that does not first complete the '
              + ('cycle-check' if has_post else 'numbering') + ' loop: ' + ('a cyclic pipeline reaches the backend' if has_post else 'jobs reach the backend unnumbered'),
              m.path, dom_bad[0].lineno if dom_bad else 0)
    ctx.check(not ord_bad, 'R1', f'{where}::self._jobs = {O}',
              f'`self._jobs` is not rebound to the dependency order `{O}` on every path before the backend runs '
              f'(found {[pf.nsrc(s) for s in sets] or "no assignment"}): the back ends iterate `batch._jobs` and would run jobs in creation order',
              m.path, ord_bad[0].lineno if ord_bad else 0)
    ctx.unit('functions', 2)

    # the local back end consumes batch._jobs in list order
    uj = m.func('Batch._unsubmitted_jobs')
    rets = [st for st in _stmts(uj) if isinstance(st, ast.Return)]
    ctx.need(len(rets) == 1, f'{FB}::Batch._unsubmitted_jobs: expected a single return')
    rv = rets[0].value
    ok = isinstance(rv, ast.ListComp) and len(rv.generators) == 1 and _is_attr(rv.generators[0].iter, 'self', '_jobs') \
        and isinstance(rv.elt, ast.Name) and isinstance(rv.generators[0].target, ast.Name) and rv.elt.id == rv.generators[0].target.id
    ctx.check(ok, 'R1', f'{FB}::Batch._unsubmitted_jobs::order', f'`{pf.nsrc(rets[0])}` is not an order-preserving filter of `self._jobs`', m.path, rets[0].lineno)


# ------------------------------------------------------------------------------------------------
# R2
# ------------------------------------------------------------------------------------------------

def _failure_test(ctx: Ctx, g: pf.CFG, main: ast.For, excv: str, where: str) -> Tuple[Optional[pf.Node], Optional[str]]:
    """The test of the value returned by run_code and the label of its 'failed' edge."""
    ftests = []
    for n in g.nodes:
        if n.kind == 'test' and n.ast is not None and _inside(main, n.ast) and any(isinstance(x, ast.Name) and x.id == excv for x in ast.walk(n.ast)):
            ftests.append(n)
    if not ftests:
        return None, None
    fail_lab = None
    if len(ftests) == 1:
        t = ftests[0].ast
        if isinstance(t, ast.Compare) and len(t.ops) == 1 and isinstance(t.left, ast.Name) and t.left.id == excv \
                and isinstance(t.comparators[0], ast.Constant) and t.comparators[0].value is None:
            fail_lab = 'T' if isinstance(t.ops[0], (ast.IsNot, ast.NotEq)) else ('F' if isinstance(t.ops[0], (ast.Is, ast.Eq)) else None)
        elif isinstance(t, ast.Name):
            fail_lab = 'T'
        elif isinstance(t, ast.UnaryOp) and isinstance(t.op, ast.Not) and isinstance(t.operand, ast.Name):
            fail_lab = 'F'
    ctx.need(fail_lab is not None, f'{where}: test of `{excv}` not recognised')
    return ftests[0], fail_lab


def _expand_loop_locals(fn: pf.FuncDef, main: ast.For, e: ast.AST, depth: int = 2, keep: Tuple[str, ...] = ()) -> ast.AST:
    """Copy of e with the locals that are assigned exactly once, by a plain statement inside the job loop, replaced by their value
    (`ok = parents_succeeded(job)` ... `if not ok:`).  Containers and everything defined outside the loop stay names."""
    import copy
    inside = {}
    for st in _stmts(main):
        if isinstance(st, ast.Assign) and len(st.targets) == 1 and isinstance(st.targets[0], ast.Name):
            inside.setdefault(st.targets[0].id, []).append(st.value)

    class _S(ast.NodeTransformer):
        def __init__(self, d: int):
            self.d = d

        def visit_Name(self, node: ast.Name):
            if isinstance(node.ctx, ast.Load) and self.d > 0 and node.id not in keep and len(inside.get(node.id, [])) == 1 and pf.single_def(fn, node.id) is inside[node.id][0] \
                    and not isinstance(inside[node.id][0], (ast.Await, ast.Yield, ast.YieldFrom)):
                return _S(self.d - 1).visit(copy.deepcopy(inside[node.id][0]))
            return node
    return _S(depth).visit(copy.deepcopy(e))


def _loop_exits(H: pf.Node) -> List[pf.Node]:
    return [b for b, lab in H.succ if lab == 'F']


def _diverting(g: pf.CFG, path: List[pf.Node], H: pf.Node, RUN: pf.Node) -> Optional[pf.Node]:
    """The last node of `path` from which run_code can still be reached in the same iteration: the decision that made the job miss it."""
    can: Set[int] = set()
    stack = [RUN]
    while stack:
        n = stack.pop()
        for p, lab in n.pred:
            if lab == 'exc' or p.id in can or p is H:
                continue
            can.add(p.id)
            stack.append(p)
    last = None
    for n in path[1:]:
        if n.id in can:
            last = n
    return last


def _about_job_itself(dv: Optional[pf.Node], jobv: str, setname: str) -> bool:
    """Does the decision `dv` depend on something about the job other than `_always_run` and its membership in `setname`?  (Then whether missing
    run_code loses work - an empty job? - is not decided here.)  A decision that only mixes those atoms with job-independent state is decidable."""
    if dv is None or dv.ast is None:
        return False
    if dv.kind != 'test':
        return any(jobv in pf.names_in(e) for e in pf.node_exprs(dv))
    f = cf.parse_formula(dv.ast, jobv, DEPS, '_always_run')
    for a in f.atoms():
        if isinstance(a, tuple) and a[1] != setname:
            return True
    return any(jobv in pf.names_in(u) for u in f.unknowns())


def _r2(ctx: Ctx) -> None:
    m = pf.load(FK)
    fn = m.func('LocalBackend._async_run')
    g = pf.cfg(fn)
    where = f'{FK}::LocalBackend._async_run'
    ctx.need(len(fn.args.args) >= 2, f'{where}: parameters changed')
    bparam = fn.args.args[1].arg

    # the runner and the main loop
    runs = [st for st in _stmts(fn) if isinstance(st, ast.Assign) and len(st.targets) == 1 and isinstance(st.targets[0], ast.Name)
            and isinstance(st.value, ast.Call) and isinstance(st.value.func, ast.Name) and st.value.func.id == 'run_code']
    mains = [lp for lp in _stmts(fn) if isinstance(lp, ast.For) and isinstance(lp.target, ast.Name) and any(_inside(lp, r) for r in runs)]
    ctx.need(len(mains) == 1, f'{where}: expected one job loop containing `<x> = run_code(...)`, found {len(mains)}')
    main = mains[0]
    runs = [r for r in runs if _inside(main, r)]
    ctx.need(len(runs) == 1, f'{where}: expected one run_code call in the job loop')
    run = runs[0]
    jobv = main.target.id
    excv = run.targets[0].id  # type: ignore[attr-defined]
    H = _node(g, main, 'job loop')
    RUN = _node(g, run, 'run_code')

    jobs_full = pf.resolve_expr(fn, main.iter)
    jobs_expr = jobs_full
    while isinstance(jobs_expr, ast.Call) and isinstance(jobs_expr.func, ast.Name) and jobs_expr.func.id in ('list', 'tuple') and len(jobs_expr.args) == 1 and not jobs_expr.keywords:
        jobs_expr = pf.resolve_expr(fn, jobs_expr.args[0])      # order-preserving copies
    in_order = _is_attr(jobs_expr, bparam, '_unsubmitted_jobs') or _is_attr(jobs_expr, bparam, '_jobs')
    if not in_order:
        reordered = isinstance(jobs_expr, ast.Call) and isinstance(jobs_expr.func, ast.Name) and jobs_expr.func.id in ('sorted', 'reversed', 'set', 'frozenset')
        other_attr = isinstance(jobs_expr, ast.Attribute) and isinstance(jobs_expr.value, ast.Name) and jobs_expr.value.id == bparam
        ctx.need(reordered or other_attr, f'{where}: the list of jobs `{pf.nsrc(jobs_full)}` is not recognised')
    ctx.check(in_order, 'R1', f'{where}::iteration order',
              f'the job loop iterates `{pf.nsrc(jobs_full)}`, not the ordered list `{bparam}._unsubmitted_jobs`', m.path, main.lineno)

    cancel = [d for d in _nested_defs(fn) if len(d.args.args) == 1 and not isinstance(d, ast.AsyncFunctionDef)
              and any(isinstance(st, ast.For) and (tl := _table_lookup(st.iter)) is not None and isinstance(tl[1], ast.Name) and tl[1].id == d.args.args[0].arg
                      for st in d.body)]
    if len(cancel) == 1:
        _r2_push(ctx, m, fn, g, where, bparam, main, run, jobv, excv, H, RUN, jobs_expr, cancel[0])
    else:
        ctx.need(not cancel, f'{where}: several candidate child-cancelling helpers {[d.name for d in cancel]}')
        _r2_pull(ctx, m, fn, g, where, bparam, main, run, jobv, excv, H, RUN, jobs_expr)
    _never_left_early(ctx, m, g, where, main, H)
    _r2_run_code(ctx, m, fn, where)
    ctx.unit('functions', 3)


def _never_left_early(ctx: Ctx, m: pf.Module, g: pf.CFG, where: str, main: ast.For, H: pf.Node) -> None:
    """Every job of the list is considered: no normal path leaves the job loop other than by exhausting it."""
    exits = _loop_exits(H)
    inside = [n for n in g.nodes if n.ast is not None and n is not H and _inside(main, n.ast)]
    early = None
    for n in inside:
        for b, lab in n.succ:
            if lab != 'exc' and b is not H and (b.ast is None or not _inside(main, b.ast)) and isinstance(n.ast, (ast.Break, ast.Return)):
                early = n
    ctx.check(early is None, 'R2', f'{where}::every job of the list is considered',
              f'`{early.text() if early else ""}` leaves the job loop before the list is exhausted: the jobs behind it are never run - including always-run jobs and jobs '
              f'that do not depend on anything that failed', m.path, early.lineno if early else main.lineno)


def _r2_push(ctx: Ctx, m: pf.Module, fn: pf.FuncDef, g: pf.CFG, where: str, bparam: str, main: ast.For, run: ast.stmt, jobv: str, excv: str,
             H: pf.Node, RUN: pf.Node, jobs_expr: ast.AST, C: pf.FuncDef) -> None:
    """Push style: a failed or skipped job marks its children in a `cancelled` set through a child table."""
    jobs_name = main.iter.id if isinstance(main.iter, ast.Name) else None
    cj = C.args.args[0].arg
    cwhere = f'{where}.{C.name}'
    cloops = [st for st in C.body if isinstance(st, ast.For)]
    tl = _table_lookup(cloops[0].iter) if len(cloops) == 1 else None
    ctx.need(len(C.body) == 1 and len(cloops) == 1 and isinstance(cloops[0].target, ast.Name) and tl is not None and isinstance(tl[1], ast.Name) and tl[1].id == cj,
             f'{cwhere}: not a single loop over `<table>[{cj}]`')
    cl = cloops[0]
    table = tl[0]  # type: ignore[index]
    child = cl.target.id  # type: ignore[attr-defined]

    fills = []
    for st in _stmts(fn):
        c = _method_call(st, 'add')
        if c is not None and (fl := _table_lookup(c.func.value)) is not None and fl[0] == table:  # type: ignore[union-attr]
            fills.append(st)
    ctx.need(len(fills) == 1, f'{where}: expected one `{table}[...].add(...)`, found {len(fills)}')
    tdefs = pf.assignments(fn).get(table, [])
    ctx.need(len(tdefs) == 1 and pf.nsrc(tdefs[0]) in ('collections.defaultdict(set)', 'defaultdict(set)', '{}', 'dict()', 'collections.defaultdict(list)', 'defaultdict(list)'),
             f'{where}: `{table}` is not initialised once to an empty table')
    fill = fills[0]
    fc = fill.value  # type: ignore[attr-defined]
    encl = [lp for lp in _stmts(fn) if isinstance(lp, ast.For) and _inside(lp, fill)]
    ctx.need(len(encl) == 2 and all(isinstance(lp.target, ast.Name) for lp in encl), f'{where}: child table is not filled in a doubly nested loop')
    outer, inn = (encl[0], encl[1]) if _inside(encl[0], encl[1]) else (encl[1], encl[0])
    ov, iv = outer.target.id, inn.target.id  # type: ignore[attr-defined]
    ctx.check(_deps_iter(ctx, inn.iter, ov, where), 'R2', f'{where}::child table ranges over {DEPS}',
              f'the child table is filled from `{pf.nsrc(inn.iter)}`, not from `{ov}.{DEPS}`: resource-induced and explicit dependencies do not cancel', m.path, inn.lineno)
    key, val = _table_lookup(fc.func.value)[1], (fc.args[0] if len(fc.args) == 1 else None)  # type: ignore[index]
    inv = isinstance(key, ast.Name) and key.id == iv and isinstance(val, ast.Name) and val.id == ov
    ctx.check(inv, 'R2', f'{where}::child table is the inverse of {DEPS}',
              f'`{pf.nsrc(fill)}` inside `for {ov} in ...: for {iv} in {ov}.{DEPS}` does not record `{ov}` as a child of its parent `{iv}`: '
              f'a failing parent cancels the wrong jobs', m.path, fill.lineno)
    same_iter = (isinstance(outer.iter, ast.Name) and outer.iter.id == jobs_name) or pf.nsrc(pf.resolve_expr(fn, outer.iter)) == pf.nsrc(jobs_expr)
    ctx.check(same_iter, 'R2', f'{where}::child table covers every job',
              f'the child table is built over `{pf.nsrc(outer.iter)}` but the jobs executed are `{pf.nsrc(main.iter)}`', m.path, outer.lineno)
    FILL_OUT = _node(g, outer, 'child table loop')
    ctx.need(g.dominated_by(H, lambda n: n is FILL_OUT) and not _inside(main, outer), f'{where}: child table is not complete before the job loop')
    # nothing filters the table
    guards = [st for st in _stmts(outer) if isinstance(st, ast.If) and _inside(st, fill)] + [x for x in _stmts(outer) if isinstance(x, (ast.Break, ast.Continue, ast.Return))]
    ctx.need(not guards, f'{where}: the child table is filled conditionally (`{pf.nsrc(guards[0])[:60] if guards else ""}`)')

    # the helper's body: exactly the not-always-run children
    adds = [st for st in _stmts(C) if (c := _method_call(st, 'add')) is not None and isinstance(c.func.value, ast.Name)]  # type: ignore[union-attr]
    ctx.need(len(adds) == 1, f'{cwhere}: expected one `<set>.add(...)`')
    add = adds[0]
    cancelled = add.value.func.value.id  # type: ignore[attr-defined]
    body_ok = len(cl.body) == 1 and isinstance(cl.body[0], ast.If) and not cl.body[0].orelse and cl.body[0].body == [add]
    ccons = f'{cwhere}::adds exactly the not-always-run children'
    if not body_ok:
        if cl.body == [add]:
            ctx.bad('R2', ccons, f'every child is cancelled unconditionally: an always-run child of a failed job is skipped', m.path, add.lineno)
        else:
            raise AnalysisError(f'{cwhere}: loop body is not `if <test>: {cancelled}.add({child})`')
    else:
        t = cl.body[0].test
        arg = add.value.args[0] if len(add.value.args) == 1 else None  # type: ignore[attr-defined]
        neg = isinstance(t, ast.UnaryOp) and isinstance(t.op, ast.Not) and _is_attr(t.operand, child, '_always_run')
        pos = _is_attr(t, child, '_always_run')
        if not (isinstance(arg, ast.Name) and arg.id == child):
            ctx.bad('R2', ccons, f'`{pf.nsrc(add)}` does not add the child `{child}`', m.path, add.lineno)
        elif neg:
            ctx.ok('R2', ccons, {'test': pf.nsrc(t)})
        elif pos:
            ctx.bad('R2', ccons, f'the guard `{pf.nsrc(t)}` cancels the always-run children and keeps the others', m.path, add.lineno)
        else:
            raise AnalysisError(f'{cwhere}: guard `{pf.nsrc(t)}` not recognised')
    # nothing else writes the cancelled set
    others = []
    for n in pf.walk_shallow(fn, into_nested_defs=True):
        if isinstance(n, ast.Call) and isinstance(n.func, ast.Attribute) and isinstance(n.func.value, ast.Name) and n.func.value.id == cancelled \
                and n.func.attr in ('add', 'update', 'discard', 'remove', 'clear', 'pop', 'difference_update', 'intersection_update', 'symmetric_difference_update'):
            if n is not add.value:  # type: ignore[attr-defined]
                others.append(n)
    cdefs = [st for st in _stmts(fn) if isinstance(st, (ast.Assign, ast.AugAssign, ast.AnnAssign))
             and any(isinstance(x, ast.Name) and x.id == cancelled and isinstance(x.ctx, ast.Store) for x in ast.walk(st))]
    init_ok = len(cdefs) == 1 and isinstance(cdefs[0], (ast.Assign, ast.AnnAssign)) and cdefs[0].value is not None and pf.nsrc(cdefs[0].value) in ('set()',) \
        and not _inside(main, cdefs[0])
    ctx.check(not others and init_ok, 'R2', f'{where}::{cancelled} written only by {C.name}',
              f'the cancelled set is also modified by {[pf.nsrc(x) for x in others] + [pf.nsrc(x) for x in cdefs[1:]]} or is not initialised once to set() before the loop',
              m.path, (others[0].lineno if others else fn.lineno))

    def calls_cancel(n: pf.Node) -> bool:
        return any(isinstance(c.func, ast.Name) and c.func.id == C.name and len(c.args) == 1 and isinstance(c.args[0], ast.Name) and c.args[0].id == jobv
                   for c in pf.node_calls(n))

    exits = _loop_exits(H)

    def leaves(n: pf.Node) -> bool:
        return n is H or any(n is x for x in exits) or n is g.exit

    # ---- the decision for the job that is reached, enumerated over (job in cancelled) x (always_run) -----------------------------------------
    # A test whose Boolean structure is decided by these two atoms has one live edge; every other test is free.
    forms: Dict[int, cf.Formula] = {}
    for n in g.nodes:
        if n.kind == 'test' and n.ast is not None and _inside(main, n.ast):
            forms[n.id] = cf.parse_formula(_expand_loop_locals(fn, main, n.ast, keep=(excv,)), jobv, DEPS, '_always_run', extra=cf.none_test_atom(excv, 'E'))
    tested = [nid for nid, f in forms.items() if ('self_in', cancelled) in f.atoms()]
    raw = [n for n in pf.walk_shallow(main) if isinstance(n, ast.Name) and n.id == cancelled]
    scons = f'{where}::skipped job'

    def live_under(val: Dict[object, bool]) -> Callable[[pf.Node, pf.Node, str], bool]:
        live: Dict[int, str] = {}
        for nid, f in forms.items():
            v = cf.ev3(f, val)
            if v is not None:
                live[nid] = 'T' if v else 'F'
        return lambda a, b, lab: a.id not in live or lab == live[a.id]

    def is_work(n: pf.Node) -> bool:
        return n is RUN or any(isinstance(c.func, ast.Attribute) and c.func.attr == '_compile' for c in pf.node_calls(n))

    body = lambda lab: lab == 'T'  # noqa: E731
    if not tested:
        ctx.need(not raw, f'{where}: `{cancelled}` is tested in an unrecognised way')
        ctx.bad('R2', scons, f'the job loop never tests `{jobv} in {cancelled}`: jobs whose parent failed are run anyway', m.path, main.lineno)
    else:
        ctx.need(len(raw) == len(tested), f'{where}: `{cancelled}` is also used in an unrecognised way inside the job loop')
        # a job in the set is not always-run (only not-always-run children are ever added - checked above)
        is_cancelled = live_under({'A': False, ('self_in', cancelled): True})
        p = cf.search(g, H, is_work, lambda n: n is H, edge_ok=is_cancelled, first=body)
        if p is not None:
            ctx.bad('R2', scons + '::not run', f'a job found in `{cancelled}` still reaches `{p[-1].text()}` in the same iteration: it is executed although a parent failed',
                    m.path, p[-1].lineno)
        else:
            ctx.ok('R2', scons + '::not run')
        # ... and never gets to the next job without handing the cancellation on, whatever else the loop tests first
        p = cf.search(g, H, leaves, calls_cancel, edge_ok=is_cancelled, first=body)
        if p is not None:
            via = [n for n in p[1:-1] if n.kind in ('test', 'loop')]
            ctx.bad('R2', scons + '::propagates', f'a job that is in `{cancelled}` (a parent failed or was skipped) can end its iteration'
                    + (f' through `{via[-1].text()}`' if via else '') + f' without `{C.name}({jobv})`: its own children are never cancelled.  a fails -> b (skipped on this '
                    f'path) -> c: c is not always-run, depends on the skipped job b, and is run', m.path, (via[-1].lineno if via else main.lineno))
        else:
            ctx.ok('R2', scons + '::propagates')

    # nothing else skips a job, and a job that is not cancelled does not cancel before it ran
    ocons = f'{where}::only cancelled jobs are skipped'
    obad = nbad = False
    for A in (False, True):
        free = live_under({'A': A, ('self_in', cancelled): False})
        p = cf.search(g, H, leaves, lambda n: n is RUN, edge_ok=free, first=body)
        if p is not None and not obad:
            dv = _diverting(g, p, H, RUN)
            if _about_job_itself(dv, jobv, cancelled):
                msg = (f'{where}: a job that is not in `{cancelled}` can miss run_code through `{dv.text()}`; whether that skips work is a property of the job itself '
                       f'and is not decided')
                if msg not in _DEFERRED:
                    _DEFERRED.append(msg)
            else:
                obad = True
                ctx.bad('R2', ocons, f'a job that is not in `{cancelled}` (always_run={A}) can reach the next iteration / leave the loop without `run_code` (via '
                        f'`{(dv or p[-2]).text()}`): jobs other than the dependents of failed/skipped jobs are skipped', m.path, (dv or p[-2]).lineno)
        if cf.search(g, H, calls_cancel, lambda n: n is RUN or n is H, edge_ok=free, first=body) is not None:
            nbad = True
    if not obad:
        ctx.ok('R2', ocons)
    ctx.check(not nbad, 'R2', f'{where}::no cancellation before the job ran', f'`{C.name}({jobv})` is reachable before `run_code` for a job that is not cancelled', m.path, main.lineno)

    # ---- after run_code, enumerated over (command failed) x (always_run) ---------------------------------------------------------------------
    fcons = f'{where}::failed job propagates'
    etests = [n for n in g.nodes if n.kind == 'test' and n.ast is not None and _inside(main, n.ast) and excv in pf.names_in(n.ast)]
    if not etests:
        ctx.bad('R2', fcons, f'the result of `run_code` (`{excv}`) is never tested: a failing job does not cancel its children', m.path, run.lineno)
        return
    for n in etests:
        ctx.need('E' in forms[n.id].atoms() and not any(excv in pf.names_in(u) for u in forms[n.id].unknowns()), f'{where}: test `{pf.nsrc(n.ast)}` of `{excv}` not recognised')
        ctx.need(g.dominated_by(n, lambda x: x is RUN), f'{where}: failure test does not follow run_code')
    untested = cf.search(g, RUN, leaves, lambda n: any(n is e for e in etests))
    fbad = False
    if untested is not None:
        fbad = True
        ctx.bad('R2', fcons, f'after `{pf.nsrc(run)}` the iteration can end (via `{untested[-2].text()}`) before `{excv}` is tested: a job that failed on that path '
                f'does not cancel its children', m.path, untested[-2].lineno)
    for A in (False, True):
        if fbad:
            break
        p = cf.search(g, RUN, leaves, calls_cancel, edge_ok=live_under({'E': True, 'A': A, ('self_in', cancelled): False}))
        if p is not None:
            fbad = True
            via = [n for n in p[1:-1] if n.kind == 'test']
            ctx.bad('R2', fcons, f'after a failing command of a job with always_run={A} the next iteration is reached'
                    + (f' (through `{via[-1].text()}`)' if via else '') + f' without `{C.name}({jobv})`: the children of a failed job are run', m.path, (via[-1] if via else etests[0]).lineno)
    if not fbad:
        ctx.ok('R2', fcons)
    # a successful job must not cancel
    p = cf.search(g, RUN, calls_cancel, leaves, edge_ok=live_under({'E': False, ('self_in', cancelled): False}))
    ctx.check(p is None, 'R2', f'{where}::successful job does not cancel', f'`{C.name}({jobv})` is reached after a successful command: children of successful jobs are skipped',
              m.path, etests[0].lineno)


PARENT_CLASSES = [(False, False), (True, False), (False, True), (True, True)]   # (has a succeeded parent, has a failed-or-skipped parent)


def _r2_pull(ctx: Ctx, m: pf.Module, fn: pf.FuncDef, g: pf.CFG, where: str, bparam: str, main: ast.For, run: ast.stmt, jobv: str, excv: str,
             H: pf.Node, RUN: pf.Node, jobs_expr: ast.AST) -> None:
    """Pull style: when a job is reached, the outcome of its parents is looked up in a set filled by the loop itself."""
    helpers = cf.simple_helpers(fn)
    exits = _loop_exits(H)

    def leaves(n: pf.Node) -> bool:
        return n is H or any(n is x for x in exits) or n is g.exit

    # tests between the loop head and run_code
    fwd = g.reachable_from(H, avoid=lambda n: n is RUN, edge_ok=lambda a, b, lab: lab != 'exc' and not (a is H and lab != 'T'))
    forms: Dict[int, cf.Formula] = {}
    for n in g.nodes:
        if n.kind == 'test' and n.ast is not None and n.id in fwd and _inside(main, n.ast) and n is not RUN:
            e = cf.inline_expr(_expand_loop_locals(fn, main, n.ast, keep=(excv,)), helpers)
            f = cf.parse_formula(e, jobv, DEPS, '_always_run')
            if f.atoms():
                forms[n.id] = f
    dep_atoms = {a for f in forms.values() for a in f.atoms() if isinstance(a, tuple) and a[0] in ('all_in', 'none_in')}
    ctx.need(bool(dep_atoms), f'{where}: no child-cancelling helper over a child table and no skip test over `{jobv}.{DEPS}` found (failure propagation not recognised)')
    names = {a[1] for a in dep_atoms}
    ctx.need(len(names) == 1, f'{where}: the skip decision consults several sets {sorted(names)}')
    ctx.need(not any(isinstance(a, tuple) and a[0] == 'self_in' for f in forms.values() for a in f.atoms()), f'{where}: mixed push/pull skip decision not analysed')
    S = names.pop()

    # ---- how S is maintained -------------------------------------------------------------------
    sdefs = [st for st in pf.walk_shallow(fn, into_nested_defs=True) if isinstance(st, (ast.Assign, ast.AugAssign, ast.AnnAssign))
             and any(isinstance(x, ast.Name) and x.id == S and isinstance(x.ctx, ast.Store) for x in ast.walk(st))]
    ctx.need(len(sdefs) == 1 and isinstance(sdefs[0], (ast.Assign, ast.AnnAssign)) and sdefs[0].value is not None and pf.nsrc(sdefs[0].value) == 'set()'
             and not _inside(main, sdefs[0]) and m.enclosing_func(sdefs[0]) is fn,
             f'{where}: `{S}` is not initialised exactly once, to set(), in this function before the job loop')
    is_add = call_pred(lambda e: isinstance(e, ast.Name) and e.id == S, 'add', jobv)
    for n in pf.walk_shallow(fn, into_nested_defs=True):
        if isinstance(n, ast.Call) and isinstance(n.func, ast.Attribute) and isinstance(n.func.value, ast.Name) and n.func.value.id == S \
                and n.func.attr in ('add', 'update', 'discard', 'remove', 'clear', 'pop', 'difference_update', 'intersection_update', 'symmetric_difference_update'):
            ok = n.func.attr == 'add' and len(n.args) == 1 and isinstance(n.args[0], ast.Name) and n.args[0].id == jobv and _inside(main, n) and m.enclosing_func(n) is fn
            ctx.need(ok, f'{where}: `{pf.nsrc(n)}` writes `{S}` in an unrecognised way')
    ctx.need(any(is_add(n) for n in g.nodes), f'{where}: nothing is ever added to `{S}`')

    FT, fail_lab = _failure_test(ctx, g, main, excv, where)
    fcons = f'{where}::failed job propagates'
    if FT is None:
        ctx.bad('R2', fcons, f'the result of `run_code` (`{excv}`) is never tested: a failing job is recorded like a successful one and its dependents are run', m.path, run.lineno)
        return
    ctx.need(g.dominated_by(FT, lambda n: n is RUN), f'{where}: failure test does not follow run_code')
    untested = cf.search(g, RUN, leaves, lambda n: n is FT)
    if untested is not None:
        ctx.bad('R2', fcons, f'after `{pf.nsrc(run)}` the iteration can end (via `{untested[-2].text()}`) before `{pf.nsrc(FT.ast)}` is tested: the outcome of the job is not '
                             f'recorded on that path', m.path, untested[-2].lineno)
        return
    ok_lab = 'F' if fail_lab == 'T' else 'T'
    pre_clear = cf.search(g, H, lambda n: n is RUN, lambda n: is_add(n) or n is H, first=lambda lab: lab == 'T') is not None
    add_nodes = [n for n in g.nodes if is_add(n)]
    before_run = [a for a in add_nodes if cf.search(g, H, lambda n, a=a: n is a, lambda n: n is RUN or n is H, first=lambda lab: lab == 'T') is not None]
    pre_may_runs = any(cf.search(g, a, lambda n: n is RUN, lambda n: n is H) is not None for a in before_run)

    def after(lab: str) -> Tuple[bool, bool]:
        """(must, may) add on the paths through run_code that take the `lab` edge of the failure test."""
        post_clear = g.path_avoiding(FT, leaves, is_add, edge_ok=lambda a, b, l: l != 'exc' and (a is not FT or l == lab)) is not None
        post_may = g.path_avoiding(FT, is_add, leaves, edge_ok=lambda a, b, l: l != 'exc' and (a is not FT or l == lab)) is not None
        return (not (pre_clear and post_clear), pre_may_runs or post_may)

    ok_must, ok_may = after(ok_lab)
    fail_must, fail_may = after(fail_lab)  # type: ignore[arg-type]
    skip_path = cf.search(g, H, leaves, lambda n: n is RUN, first=lambda lab: lab == 'T')
    skip_clear = cf.search(g, H, leaves, lambda n: n is RUN or is_add(n), first=lambda lab: lab == 'T') is not None
    skip_may = any(cf.search(g, a, leaves, lambda n: n is RUN) is not None for a in before_run)
    skip_must = skip_path is not None and not skip_clear

    positive = ok_may
    ctx.rule('R2', R2_TEXT, 15 if positive else 14)   # frozen instance counts of the pull-style shapes
    mcons = f'{where}::{S} records exactly the ' + ('succeeded' if positive else 'failed and skipped') + ' jobs'
    if positive:
        ctx.need(ok_must, f'{where}: `{S}.add({jobv})` happens after some successful runs only')
        if fail_may:
            ctx.bad('R2', fcons, f'`{S}.add({jobv})` is also reached after a failing command: the skip decision takes `{S}` for the succeeded jobs, so the children of a failed '
                                 f'job are run', m.path, FT.lineno)
        else:
            ctx.ok('R2', fcons)
        ctx.check(not skip_may, 'R2', f'{where}::skipped job propagates', f'`{S}.add({jobv})` is reached for a job that was skipped: with a -> b -> c and a failing, b is skipped but '
                  f'counts as succeeded and c (not always-run) is run', m.path, main.lineno)
    else:
        if not fail_must:
            ctx.bad('R2', fcons, f'after a failing command the next iteration is reached without `{S}.add({jobv})`: the children of a failed job are run', m.path, FT.lineno)
        else:
            ctx.ok('R2', fcons)
        ctx.need(skip_path is not None, f'{where}: no path skips a job')
        ctx.check(skip_must, 'R2', f'{where}::skipped job propagates', f'a skipped job reaches the next iteration without `{S}.add({jobv})`: with a -> b -> c and a failing, '
                  f'b is skipped but c (not always-run) is run although it depends on a skipped job', m.path, main.lineno)
    ctx.ok('R2', mcons, {'ok': [ok_must, ok_may], 'failed': [fail_must, fail_may], 'skipped': [skip_must, skip_may]})

    # ---- the decision, enumerated over (always_run) x (classes of parents) ---------------------
    def atom_values(has_ok: bool, has_bad: bool) -> Dict[object, bool]:
        if positive:
            return {('all_in', S): not has_bad, ('none_in', S): not has_ok}
        return {('all_in', S): not has_ok, ('none_in', S): not has_bad}

    decision_nodes = set(forms)
    for A in (False, True):
        for has_ok, has_bad in PARENT_CLASSES:
            val: Dict[object, bool] = {'A': A}
            val.update(atom_values(has_ok, has_bad))
            fixed: Dict[int, str] = {}
            for nid, f in forms.items():
                v = cf.ev3(f, val)
                if v is not None:
                    fixed[nid] = 'T' if v else 'F'

            def eok(a, b, lab, fixed=fixed):
                return a.id not in fixed or lab == fixed[a.id]
            row = f'always_run={A}, ' + {(False, False): 'no parents', (True, False): 'all parents succeeded', (False, True): 'all parents failed or skipped',
                                         (True, True): 'one parent succeeded and one failed or was skipped'}[(has_ok, has_bad)]
            cons = f'{where}::skip decision::{row}'
            expect_skip = (not A) and has_bad
            if expect_skip:
                p = cf.search(g, H, lambda n: n is RUN, lambda n: n is H, edge_ok=eok, first=lambda lab: lab == 'T')
                ctx.check(p is None, 'R2', cons, f'a job with {row} reaches `run_code`: it depends on a failed or skipped job and must be skipped', m.path, main.lineno)
            else:
                p = cf.search(g, H, leaves, lambda n: n is RUN, edge_ok=eok, first=lambda lab: lab == 'T')
                if p is None:
                    ctx.ok('R2', cons)
                    continue
                dv = _diverting(g, p, H, RUN)
                if dv is not None and dv.id not in decision_nodes and _about_job_itself(dv, jobv, S):
                    _DEFERRED.append(f'{where}: a job with {row} can miss run_code through `{dv.text()}`; whether that skips work is a property of the job itself and is not decided')
                    ctx.ok('R2', cons, {'undecided': dv.text()})
                else:
                    ctx.bad('R2', cons, f'a job with {row} is not run (via `{(dv or p[-2]).text()}`): it does not depend on a failed or skipped job'
                            + (' / it is always-run' if A else '') + ' and must be executed', m.path, (dv or p[-2]).lineno)

    # ---- a set of succeeded jobs only knows the jobs this loop has executed ---------------------
    if positive:
        dcons = f'{where}::every possible parent can be in {S}'
        if _is_attr(jobs_expr, bparam, '_unsubmitted_jobs'):
            uj = pf.load(FB).func('Batch._unsubmitted_jobs')
            rets = [st for st in _stmts(uj) if isinstance(st, ast.Return)]
            ctx.need(len(rets) == 1 and isinstance(rets[0].value, ast.ListComp), f'{FB}::Batch._unsubmitted_jobs not recognised')
            filt = rets[0].value.generators[0].ifs  # type: ignore[union-attr]
            ctx.check(not filt, 'R2', dcons,
                      f'`{S}` starts empty in every run and only receives jobs of `{bparam}._unsubmitted_jobs` (= `{pf.nsrc(rets[0].value)}`), but a dependency may be a job that an '
                      f'earlier run() already executed: b.run(); second.depends_on(first); b.run()  =>  first is not iterated, is not in `{S}`, and `second` (and everything behind it) '
                      f'is skipped although no job failed or was skipped', m.path, main.lineno)
        elif _is_attr(jobs_expr, bparam, '_jobs'):
            ctx.ok('R2', dcons)
        else:
            raise AnalysisError(f'{where}: iteration domain `{pf.nsrc(jobs_expr)}` not recognised')


def _r2_run_code(ctx: Ctx, m: pf.Module, fn: pf.FuncDef, where: str) -> None:
    # run_code reports failure
    rc = [d for d in _nested_defs(fn) if d.name == 'run_code']
    ctx.need(len(rc) == 1, f'{where}: nested run_code not found')
    R = rc[0]
    rwhere = f'{where}.run_code'
    tries = [st for st in _stmts(R) if isinstance(st, ast.Try)]
    ctx.need(len(tries) == 1 and len(tries[0].handlers) == 1 and tries[0].handlers[0].name, f'{rwhere}: expected one try with one named handler')
    tr = tries[0]
    h = tr.handlers[0]
    ctx.need(pf.dotted(h.type) in ('sp.CalledProcessError', 'subprocess.CalledProcessError', 'CalledProcessError'), f'{rwhere}: handler type {pf.nsrc(h.type)} not recognised')
    calls = [c for st in tr.body for c in pf.calls_in(st)]
    spc = [c for c in calls if (pf.dotted(c.func) or '').split('.')[0] in ('sp', 'subprocess')]
    ctx.need(len(spc) == 1, f'{rwhere}: expected one subprocess call in the try body')
    fname = (pf.dotted(spc[0].func) or '').split('.')[-1]
    checked = fname in ('check_call', 'check_output') or (fname == 'run' and any(k.arg == 'check' and isinstance(k.value, ast.Constant) and k.value.value is True for k in spc[0].keywords))
    ctx.need(checked or fname in ('call', 'run', 'Popen', 'getoutput', 'getstatusoutput'), f'{rwhere}: subprocess function {fname} not recognised')
    ctx.check(checked, 'R2', f'{rwhere}::command failure raises', f'`{pf.nsrc(spc[0])}` does not raise on a non-zero exit status: a failing command is reported as success and '
              f'its dependents are run', m.path, spc[0].lineno)
    rg = pf.cfg(R)
    HN = _node(rg, h, 'handler')
    reach = rg.reachable_from(HN)
    hrets = [n for n in rg.nodes if n.kind == 'return' and n.id in reach and _inside(h, n.ast)]
    falls = rg.path_avoiding(HN, lambda n: n is rg.exit, lambda n: n.kind == 'return' and _inside(h, n.ast))
    good = bool(hrets) and all(isinstance(n.ast.value, ast.Name) and n.ast.value.id == h.name for n in hrets)
    # a fall-through out of the handler must not end in `return None`
    if falls is not None:
        last_ret = [n for n in falls if n.kind == 'return']
        good = good and bool(last_ret) and isinstance(last_ret[-1].ast.value, ast.Name)
    ctx.check(good, 'R2', f'{rwhere}::handler returns the error', f'the `except {pf.nsrc(h.type)}` handler does not return the caught error on every path '
              f'(returns {[pf.nsrc(n.ast) for n in hrets] or "nothing"}): the caller sees None = success and runs the dependents', m.path, h.lineno)


# ------------------------------------------------------------------------------------------------
# R3
# ------------------------------------------------------------------------------------------------

def _classify(t: ast.AST, S: str) -> Optional[Tuple[str, str]]:
    """(predicate, label on which it is true) for tests about the producing job `S`."""
    if isinstance(t, ast.Compare) and len(t.ops) == 1:
        a, b, op = t.left, t.comparators[0], t.ops[0]
        names = {x.id for x in (a, b) if isinstance(x, ast.Name)}
        if names == {S, 'self'}:
            if isinstance(op, (ast.NotEq, ast.IsNot)):
                return ('foreign', 'T')
            if isinstance(op, (ast.Eq, ast.Is)):
                return ('foreign', 'F')
        other = b if (isinstance(a, ast.Name) and a.id == S) else a if (isinstance(b, ast.Name) and b.id == S) else None
        if other is not None and isinstance(other, ast.Constant) and other.value is None:
            if isinstance(op, (ast.IsNot, ast.NotEq)):
                return ('notnone', 'T')
            if isinstance(op, (ast.Is, ast.Eq)):
                return ('notnone', 'F')
    if isinstance(t, ast.Name) and t.id == S:
        return ('notnone', 'T')
    if isinstance(t, ast.UnaryOp) and isinstance(t.op, ast.Not) and isinstance(t.operand, ast.Name) and t.operand.id == S:
        return ('notnone', 'F')
    return None


def _bare_use(t: ast.AST, S: str) -> bool:
    """S occurs in t as a value of its own (not merely as the base of `S.attr`): the test is about the identity of S."""
    attr_bases = {id(x.value) for x in ast.walk(t) if isinstance(x, ast.Attribute)}
    return any(isinstance(x, ast.Name) and x.id == S and id(x) not in attr_bases for x in ast.walk(t))


def _site_value(t: ast.AST, S: str, val: Dict[str, bool]) -> Optional[bool]:
    """Three-valued value of a test under a valuation of {'foreign', 'notnone'}: the Boolean structure (and / or / not) over the recognised atoms about
    the producing job `S`; atoms that do not look at the identity of `S` are unknown (None).  AnalysisError for an atom about `S` that is not recognised."""
    if isinstance(t, ast.UnaryOp) and isinstance(t.op, ast.Not) and not (isinstance(t.operand, ast.Name) and t.operand.id == S):
        v = _site_value(t.operand, S, val)
        return None if v is None else not v
    if isinstance(t, ast.BoolOp):
        vs = [_site_value(x, S, val) for x in t.values]
        if isinstance(t.op, ast.And):
            return False if any(v is False for v in vs) else (True if all(v is True for v in vs) else None)
        return True if any(v is True for v in vs) else (False if all(v is False for v in vs) else None)
    c = _classify(t, S)
    if c is not None:
        if c[0] not in val:
            return None
        return val[c[0]] == (c[1] == 'T')
    if _bare_use(t, S):
        raise AnalysisError(f'test `{pf.nsrc(t)}` on the producing job not recognised')
    return None


def _expand_flags(fn: pf.FuncDef, e: ast.AST, stop: Set[str], depth: int = 3) -> ast.AST:
    """Copy of the test e in which a local that is assigned exactly once, to a Boolean-valued expression (comparison, not / and / or, isinstance, another such
    local) over names that are themselves never re-assigned, is replaced by that expression: `is_foreign = source != self` ... `if is_foreign:`."""
    import copy
    asg = pf.assignments(fn)

    def stable(x: ast.AST) -> bool:
        return all(len(asg.get(n.id, [])) <= 1 for n in ast.walk(x) if isinstance(n, ast.Name))

    class _S(ast.NodeTransformer):
        def __init__(self, d: int):
            self.d = d

        def visit_Name(self, node: ast.Name):
            if isinstance(node.ctx, ast.Load) and node.id not in stop and self.d > 0:
                dd = pf.single_def(fn, node.id)
                if isinstance(dd, (ast.Compare, ast.BoolOp, ast.Name)) or (isinstance(dd, ast.UnaryOp) and isinstance(dd.op, ast.Not)) \
                        or (isinstance(dd, ast.Call) and pf.dotted(dd.func) == 'isinstance'):
                    if stable(dd):
                        return _S(self.d - 1).visit(copy.deepcopy(dd))
            return node

        def visit_Lambda(self, node):
            return node
    return _S(depth).visit(copy.deepcopy(e))


# calls that a recording site is known to make and that do not hide one of the recording effects
SITE_KNOWN_CALLS = {'_add_inputs', '_add_internal_outputs', '_add_resource_to_set', 'add', 'isinstance', 'str', 'repr', 'type', 'id', 'len', 'shq', 'quote',
                    'BatchException', 'warn', 'source', 'format', 'print', 'hasattr', 'getattr', '_get_path', 'group', 'groupdict', 'get'}
# never inlined into a recording site: the rules recognise these calls by name (their bodies are checked separately by rules/c18.py)
SITE_NO_INLINE = ('_add_inputs', '_add_internal_outputs', '_add_resource_to_set')


def _source_assignments(fn: pf.FuncDef) -> List[ast.Assign]:
    return [st for st in _stmts(fn) if isinstance(st, ast.Assign) and len(st.targets) == 1 and isinstance(st.targets[0], ast.Name)
            and isinstance(st.value, ast.Call) and isinstance(st.value.func, ast.Attribute) and st.value.func.attr == 'source' and not st.value.args
            and not st.value.keywords and isinstance(st.value.func.value, ast.Name)]


def locate_site(ctx: Ctx, m: pf.Module, qual: str) -> Tuple[pf.Module, pf.FuncDef, str, List[Tuple[str, int]]]:
    """The recording callback named by `qual` (`<outer>.<nested def>`), found by its name or - when it was renamed - by its role (the callback handed to re.sub /
    the only nested def that reads `<r>.source()`), with its statement-level helpers inlined.  Returns (module copy, function, actual qualified name, inlined)."""
    outer_q, name = qual.rsplit('.', 1)
    outer = m.func(outer_q)
    nested = [d for d in pf._body_defs(outer) if isinstance(d, (ast.FunctionDef, ast.AsyncFunctionDef))]
    actual = None
    if any(d.name == name for d in nested):
        actual = name
    else:
        cbs = set()
        for c in pf.calls_in(outer):
            if pf.dotted(c.func) == 're.sub':
                cb = c.args[1] if len(c.args) >= 2 else next((k.value for k in c.keywords if k.arg == 'repl'), None)
                if isinstance(cb, ast.Name):
                    cbs.add(cb.id)
        cands = [d.name for d in nested if d.name in cbs]
        if len(cands) != 1:
            cands = []
            for d in nested:
                try:
                    _m2, f2, _il = cf.inline_site(m, f'{outer_q}.{d.name}', exclude=SITE_NO_INLINE)
                except AnalysisError:
                    continue
                if _source_assignments(f2):
                    cands.append(d.name)
        ctx.need(len(cands) == 1, f'anchor vanished: {m.rel}::{qual} (no definition named {name!r}, and the recording callback could not be identified by its role: '
                                  f'candidates {cands})')
        actual = cands[0]
    m2, fn, inlined = cf.inline_site(m, f'{outer_q}.{actual}', exclude=SITE_NO_INLINE)
    return m2, fn, f'{outer_q}.{actual}', inlined


class RecordingSite:
    """One of the two places where a job records the resources it mentions:  `<S> = <R>.source()` followed by tests on S.
    The callback is analysed with its statement-level helpers inlined (module functions, sibling nested defs, methods of the class and its bases), so
    that an extracted "record the dependency" helper is seen through.  Keys name the anchor `qual` and roles, never local names.
    (Also used by rules/c18.py.)"""

    def __init__(self, ctx: Ctx, m: pf.Module, qual: str):
        self.qual = qual
        self.where = where = f'{m.rel}::{qual}'
        self.m, self.fn, self.actual, self.inlined = locate_site(ctx, m, qual)
        fn = self.fn
        self.g = g = pf.cfg(fn)
        srcs = _source_assignments(fn)
        ctx.need(len(srcs) == 1, f'{where}: expected one `<s> = <r>.source()`')
        self.src_stmt = srcs[0]
        self.S = S = srcs[0].targets[0].id  # type: ignore[attr-defined]
        self.R = srcs[0].value.func.value.id  # type: ignore[attr-defined]
        asg = pf.assignments(fn)
        ctx.need(len(asg.get(S, [])) == 1, f'{where}: `{S}` is reassigned')
        ctx.need(len(asg.get('self', [])) == 0, f'{where}: `self` is rebound')
        self.SRC = _node(g, srcs[0], 'source assignment')
        self.tests: Dict[int, ast.AST] = {}
        for n in g.nodes:
            if n.kind == 'test' and n.ast is not None:
                e = _expand_flags(fn, n.ast, {S, 'self'})
                if _bare_use(e, S):
                    try:
                        _site_value(e, S, {})
                    except AnalysisError as ex:
                        raise AnalysisError(f'{where}: {ex}') from ex
                    self.tests[n.id] = e
        # aliases of the producing job would escape the tests above
        for st in _stmts(fn):
            if st is not srcs[0] and isinstance(st, (ast.Assign, ast.AnnAssign)) and st.value is not None and isinstance(st.value, ast.Name) and st.value.id == S:
                raise AnalysisError(f'{where}: `{pf.nsrc(st)}` aliases the producing job (not analysed)')

    def opaque_calls(self, carriers: Sequence[str]) -> List[ast.Call]:
        """Calls that were not inlined and could hide a recording effect: they receive one of `carriers` (or `self`) as an argument, or are methods of `self`,
        and are not among the calls a recording site is known to make."""
        out = []
        for c in pf.calls_in(self.fn):
            fname = c.func.attr if isinstance(c.func, ast.Attribute) else c.func.id if isinstance(c.func, ast.Name) else None
            if fname in SITE_KNOWN_CALLS:
                continue
            args = list(c.args) + [k.value for k in c.keywords]
            direct = any(isinstance(a, ast.Starred) or (isinstance(a, ast.Name) and a.id in tuple(carriers) + ('self',)) for a in args) or any(k.arg is None for k in c.keywords)
            self_method = isinstance(c.func, ast.Attribute) and isinstance(c.func.value, ast.Name) and c.func.value.id == 'self'
            on_carrier = isinstance(c.func, ast.Attribute) and isinstance(c.func.value, ast.Name) and c.func.value.id in carriers
            if direct or self_method or on_carrier or fname is None:
                out.append(c)
        return out

    def under(self, val: Dict[str, bool]) -> Callable[[pf.Node, pf.Node, str], bool]:
        """Edge filter: only the branches consistent with the valuation of {'foreign', 'notnone'} (tests that do not look at the producing job are free)."""
        def ok(a: pf.Node, b: pf.Node, lab: str) -> bool:
            e = self.tests.get(a.id)
            if e is None or lab not in ('T', 'F'):
                return True
            v = _site_value(e, self.S, val)
            return v is None or v == (lab == 'T')
        return ok

    def effect(self, ctx: Ctx, rule: str, what: str, is_eff: Callable[[pf.Node], bool], required: Dict[str, bool],
               forbidden: List[Tuple[Dict[str, bool], str]], missing_msg: str, skip_msg: str, role: Optional[str] = None,
               carriers: Sequence[str] = ()) -> None:
        """`what` must be executed on every path SRC -> normal exit consistent with `required`, and must be unreachable under each `forbidden` valuation.
        A FAIL needs the whole callback to be visible: when a call that was not inlined could perform the effect, the rule declines."""
        g, SRC = self.g, self.SRC
        cons = f'{self.where}::{role or what}'
        line = self.src_stmt.lineno

        def visible() -> None:
            op = self.opaque_calls(carriers or (self.S, self.R))
            ctx.need(not op, f'{self.where}: `{what}` not found on every required path, but `{pf.nsrc(op[0])[:80] if op else ""}` is a call that is not seen through and may perform it')
        if not any(is_eff(n) for n in g.nodes):
            visible()
            ctx.bad(rule, cons, missing_msg, self.m.path, line)
        else:
            p = g.path_avoiding(SRC, lambda n: n is g.exit, is_eff, edge_ok=self.under(required))
            if p is not None:
                visible()
                ctx.bad(rule, cons, f'{skip_msg} (a path to the normal exit via `{p[-2].text() if len(p) > 1 else "?"}` skips `{what}`)', self.m.path, line)
            else:
                ctx.ok(rule, cons, {'tests': sorted(pf.nsrc(e) for e in self.tests.values()), 'inlined': sorted({n for n, _ in self.inlined})})
        wrong = None
        for val, why in forbidden:
            if g.path_avoiding(SRC, is_eff, lambda n: False, edge_ok=self.under(val)) is not None:
                wrong = why
        ctx.check(wrong is None, rule, cons + '::only when required', f'`{what}` is reachable when {wrong}', self.m.path, line)


def call_pred(recv: Callable[[ast.AST], bool], meth: str, arg: str) -> Callable[[pf.Node], bool]:
    """CFG-node predicate: the node evaluates `<recv>.<meth>(<arg>)`."""
    def pred(n: pf.Node) -> bool:
        for c in pf.node_calls(n):
            if isinstance(c.func, ast.Attribute) and c.func.attr == meth and recv(c.func.value) and len(c.args) == 1 \
                    and isinstance(c.args[0], ast.Name) and c.args[0].id == arg and not c.keywords:
                return True
        return False
    return pred


def _dep_site(ctx: Ctx, m: pf.Module, qual: str) -> None:
    site = RecordingSite(ctx, m, qual)
    S = site.S
    is_add = call_pred(lambda e: _is_attr(e, 'self', DEPS), 'add', S)
    other = [x for x in pf.walk_shallow(site.fn) if (isinstance(x, ast.Call) and isinstance(x.func, ast.Attribute) and _is_attr(x.func.value, 'self', DEPS)
                                                      and not (x.func.attr == 'add' and len(x.args) == 1 and isinstance(x.args[0], ast.Name) and x.args[0].id == S and not x.keywords))
             or (isinstance(x, (ast.Assign, ast.AugAssign, ast.AnnAssign)) and any(_is_attr(t, 'self', DEPS) for t in (x.targets if isinstance(x, ast.Assign) else [x.target])))
             or (isinstance(x, (ast.Assign, ast.AnnAssign)) and x.value is not None and _is_attr(x.value, 'self', DEPS))]
    ctx.need(not other, f'{site.where}: `self.{DEPS}` is used in an unrecognised way (`{pf.nsrc(other[0])[:80] if other else ""}`)')
    site.effect(ctx, 'R3', f'self.{DEPS}.add({S})', is_add, {'foreign': True, 'notnone': True},
                [({'foreign': False}, f'`{S}` is the job itself (a self-cycle: every job that mentions its own resource is rejected as cyclic)'),
                 ({'notnone': False}, f'`{S}` is None (an input file has no producing job)')],
                f'the producing job `{S} = {site.R}.source()` is never added to `self.{DEPS}`: a job that consumes another job\'s resource is not ordered after it '
                f'(b reads a.ofile, created in the order b, a => b is numbered and run first)',
                f'with a foreign, non-None source the consumer is not always ordered after the producer',
                role=f'self.{DEPS}.add(<producing job>)', carriers=(S,))


FR = 'hail/python/hailtop/batch/resource.py'
_BUILTIN_BASES = {'bool': ['int'], 'str': [], 'bytes': [], 'int': [], 'float': [], 'complex': [], 'list': [], 'tuple': [], 'dict': [], 'set': [], 'frozenset': [], 'NoneType': []}
CONTAINERS = ('list', 'tuple', 'dict')


def _value_classes(ctx: Ctx) -> Dict[str, Set[str]]:
    """The finite domain the argument walker is enumerated over: every class of resource.py that is a Resource (with ALL its ancestors, builtin
    ones included: ResourceFile is a str) and the three container types the walker is documented to descend into."""
    rm = pf.load(FR)
    bases: Dict[str, List[str]] = dict(_BUILTIN_BASES)
    for c in rm.tree.body:
        if isinstance(c, ast.ClassDef):
            bs = [(pf.dotted(b) or '').split('.')[-1] for b in c.bases]
            ctx.need(all(bs), f'{FR}::{c.name}: base class expression not recognised')
            bases[c.name] = bs

    def anc(c: str, seen: Optional[Set[str]] = None) -> Set[str]:
        seen = seen if seen is not None else set()
        if c in seen:
            return seen
        seen.add(c)
        for b in bases.get(c, []):
            anc(b, seen)
        return seen
    out = {c: anc(c) for c in bases if c not in _BUILTIN_BASES and 'Resource' in anc(c)}
    ctx.need(len(out) >= 2, f'{FR}: Resource class hierarchy not found')
    for c in CONTAINERS:
        out[c] = {c}
    return out


def _type_names(m: pf.Module, e: ast.AST, depth: int = 3) -> Optional[Set[str]]:
    """Class names of the second argument of isinstance (names, tuples, module-level tuple constants, type(None))."""
    if isinstance(e, ast.Tuple):
        out: Set[str] = set()
        for x in e.elts:
            r = _type_names(m, x, depth)
            if r is None:
                return None
            out |= r
        return out
    if isinstance(e, ast.Call) and pf.nsrc(e) == 'type(None)':
        return {'NoneType'}
    d = pf.dotted(e)
    if d is None:
        return None
    if isinstance(e, ast.Name) and depth > 0:
        try:
            v = m.global_assign(e.id)
        except AnalysisError:
            v = None
        if v is not None:
            return _type_names(m, v, depth - 1)
    return {d.split('.')[-1]}


def _walk_paths(m: pf.Module, stmts: List[ast.stmt], env: Dict[str, Set[str]], where: str) -> List[Tuple[Tuple[Tuple[str, object], ...], bool]]:
    """All paths through stmts for variables of known class (env: name -> set of ancestors): (events, all tests on the path decided).
    events: ('call', 'f(x)' text) for statement-level calls `f(<name>)`, ('for', <For node>)."""
    def ev(t: ast.AST) -> Optional[bool]:
        if isinstance(t, ast.UnaryOp) and isinstance(t.op, ast.Not):
            v = ev(t.operand)
            return None if v is None else not v
        if isinstance(t, ast.BoolOp):
            vs = [ev(x) for x in t.values]
            if isinstance(t.op, ast.And):
                return False if any(v is False for v in vs) else (True if all(v is True for v in vs) else None)
            return True if any(v is True for v in vs) else (False if all(v is False for v in vs) else None)
        if isinstance(t, ast.Call) and pf.dotted(t.func) == 'isinstance' and len(t.args) == 2 and isinstance(t.args[0], ast.Name) and t.args[0].id in env:
            names = _type_names(m, t.args[1])
            if names is None:
                return None
            return bool(env[t.args[0].id] & names)
        return None

    def run(block: List[ast.stmt]) -> List[Tuple[Tuple[Tuple[str, object], ...], bool, bool]]:
        outs: List[Tuple[Tuple[Tuple[str, object], ...], bool, bool]] = [((), True, False)]   # events, decided, terminated
        for st in block:
            nxt = []
            for evs, dec, term in outs:
                if term:
                    nxt.append((evs, dec, term))
                    continue
                if isinstance(st, ast.If):
                    v = ev(st.test)
                    for branch, take in ((st.body, v is not False), (st.orelse, v is not True)):
                        if take:
                            for e2, d2, t2 in run(branch):
                                nxt.append((evs + e2, dec and d2 and v is not None, t2))
                elif isinstance(st, ast.Expr) and isinstance(st.value, ast.Call) and isinstance(st.value.func, ast.Name) and len(st.value.args) == 1 \
                        and isinstance(st.value.args[0], ast.Name) and not st.value.keywords:
                    nxt.append((evs + (('call', f'{st.value.func.id}({st.value.args[0].id})'),), dec, False))
                elif isinstance(st, ast.For):
                    nxt.append((evs + (('for', st),), dec, False))
                elif isinstance(st, (ast.Return, ast.Raise, ast.Continue, ast.Break)):
                    nxt.append((evs, dec, True))
                elif isinstance(st, (ast.Pass, ast.Assert)) or (isinstance(st, ast.Expr) and isinstance(st.value, ast.Constant)):
                    nxt.append((evs, dec, False))
                else:
                    raise AnalysisError(f'{where}: statement `{pf.nsrc(st)[:60]}` in the argument walker not recognised')
            outs = nxt
        return outs
    return [(e, d) for e, d, _t in run(stmts)]


def _argument_walker(ctx: Ctx, m: pf.Module) -> None:
    """PythonJob.call: every Resource among the arguments - top level or nested in lists, tuples and dict values - reaches handle_arg.
    Enumerated over the classes of resource.py (with their builtin ancestors) and the three container types."""
    call = m.func('PythonJob.call')
    ha = m.func('PythonJob.call.handle_args')
    where = f'{FJ}::PythonJob.call'
    hwhere = f'{where}.handle_args'
    ctx.need(len(ha.args.args) == 1, f'{hwhere}: parameters changed')
    r = ha.args.args[0].arg
    classes = _value_classes(ctx)
    resources = [c for c in classes if c not in CONTAINERS]
    body = [b for b in ha.body if not (isinstance(b, ast.Expr) and isinstance(b.value, ast.Constant))]
    undecided: List[str] = []

    def every_path_calls(stmts: List[ast.stmt], env: Dict[str, Set[str]], wanted: str, w: str) -> Optional[bool]:
        """True: every path calls `wanted`; False: a path on which every test is decided does not; None: only undecided paths miss it."""
        res: Optional[bool] = True
        for evs, dec in _walk_paths(m, stmts, env, w):
            if ('call', wanted) not in evs:
                if dec:
                    return False
                res = None
        return res

    def elements_walked(stmts: List[ast.stmt], env: Dict[str, Set[str]], var: str, kind: str, w: str) -> Tuple[Optional[bool], str]:
        """Every element (list/tuple) or value (dict) of `var` is handed to handle_args, whatever its class."""
        verdict: Optional[bool] = True
        why = ''
        for evs, dec in _walk_paths(m, stmts, env, w):
            loops = [x for k, x in evs if k == 'for']
            ok_loop = None
            for lp in loops:
                it = lp.iter  # type: ignore[attr-defined]
                if kind == 'dict':
                    if isinstance(it, ast.Call) and isinstance(it.func, ast.Attribute) and isinstance(it.func.value, ast.Name) and it.func.value.id == var and not it.args:
                        if it.func.attr == 'values' and isinstance(lp.target, ast.Name):  # type: ignore[attr-defined]
                            ok_loop = (lp, lp.target.id)  # type: ignore[attr-defined]
                        elif it.func.attr == 'items' and isinstance(lp.target, ast.Tuple) and len(lp.target.elts) == 2 and isinstance(lp.target.elts[1], ast.Name):  # type: ignore[attr-defined]
                            ok_loop = (lp, lp.target.elts[1].id)  # type: ignore[attr-defined]
                elif isinstance(it, ast.Name) and it.id == var and isinstance(lp.target, ast.Name):  # type: ignore[attr-defined]
                    ok_loop = (lp, lp.target.id)  # type: ignore[attr-defined]
            if ok_loop is None:
                if dec:
                    return False, f'a {kind} is not iterated'
                verdict = None
                continue
            lp, ev_ = ok_loop
            ctx.need(not lp.orelse, f'{w}: for/else not analysed')  # type: ignore[attr-defined]
            for c, an in classes.items():
                got = every_path_calls(lp.body, {ev_: an}, f'handle_args({ev_})', w)  # type: ignore[attr-defined]
                if got is False:
                    strs = sorted(an & set(_BUILTIN_BASES))
                    return False, (f'an element of class {c}' + (f' (which is a {"/".join(strs)})' if strs and c not in CONTAINERS else '')
                                   + f' inside a {kind} is not handed to handle_args (`for {pf.nsrc(lp.target)} in {pf.nsrc(lp.iter)}`, line {lp.lineno})')  # type: ignore[attr-defined]
                if got is None:
                    verdict = None
        return verdict, why

    # the walker itself
    rcons = f'{hwhere}::every Resource reaches handle_arg'
    bad = None
    for c in resources:
        got = every_path_calls(body, {r: classes[c]}, f'handle_arg({r})', hwhere)
        if got is False:
            bad = c
        elif got is None:
            undecided.append(f'{hwhere}: whether a {c} reaches handle_arg depends on a test that is not decided')
    ctx.check(bad is None, 'R3', rcons, f'a `{bad}` passed to handle_args does not reach `handle_arg({r})` (classes and their ancestors: '
              f'{ {c: sorted(classes[c]) for c in resources} }): it induces no dependency on the job that produces it', m.path, ha.lineno)
    ccons = f'{hwhere}::containers are walked completely'
    cbad = None
    for kind in CONTAINERS:
        got, why = elements_walked(body, {r: classes[kind]}, r, kind, hwhere)
        if got is False:
            cbad = why
        elif got is None:
            undecided.append(f'{hwhere}: whether every element of a {kind} is walked depends on a test that is not decided')
    ctx.check(cbad is None, 'R3', ccons, f'{cbad}: consumer.call(f, [producer.ofile]) / consumer.call(f, {{"x": producer.ofile}}) records no dependency on producer, '
              f'so consumer can be numbered and run before it and is not skipped when it fails', m.path, ha.lineno)

    # ... and is applied to *args and **kwargs
    va, kw = (call.args.vararg.arg if call.args.vararg else None), (call.args.kwarg.arg if call.args.kwarg else None)
    ctx.need(va is not None and kw is not None, f'{where}: *args / **kwargs parameters not found')
    top = [b for b in call.body if (isinstance(b, ast.Expr) and isinstance(b.value, ast.Call) and isinstance(b.value.func, ast.Name) and b.value.func.id == 'handle_args')
           or (isinstance(b, ast.For) and _calls_to(b, 'handle_args'))]
    others = [c for c in _calls_to(call, 'handle_args') if not any(_inside(t, c) or (isinstance(t, ast.Expr) and t.value is c) for t in top)]
    ctx.need(not others, f'{where}: `{pf.nsrc(others[0]) if others else ""}` is applied conditionally / in an unrecognised position')
    tbad = None
    for var, kind in ((va, 'tuple'), (kw, 'dict')):
        whole = any(isinstance(t, ast.Expr) and isinstance(t.value.args[0] if t.value.args else None, ast.Name) and t.value.args[0].id == var for t in top)  # type: ignore[attr-defined]
        if whole:
            continue
        got, why = elements_walked([t for t in top if isinstance(t, ast.For)], {var: classes[kind]}, var, kind, where)  # type: ignore[arg-type]
        if got is False:
            tbad = f'`{"*" if kind == "tuple" else "**"}{var}`: {why}'
        elif got is None:
            undecided.append(f'{where}: whether every element of {var} is walked depends on a test that is not decided')
    ctx.check(tbad is None, 'R3', f'{where}::every argument is inspected',
              f'{tbad}: a resource passed that way induces no dependency', m.path, call.lineno)
    for u in undecided:
        if u not in _DEFERRED:
            _DEFERRED.append(u)


def _depends_on(ctx: Ctx, m: pf.Module) -> None:
    """Job.depends_on(*jobs) adds every argument to self._dependencies.  A write that is guarded is decided for a job that is not yet in the
    set and is not None; guards that look at anything else about the job (attributes, helper calls) are data-dependent filters."""
    dep = m.func('Job.depends_on')
    where = f'{FJ}::Job.depends_on'
    va = dep.args.vararg.arg if dep.args.vararg else None
    ctx.need(va is not None, f'{where}: no *jobs parameter')
    par = m.parents()

    def strip(e: ast.AST) -> ast.AST:
        while isinstance(e, ast.Call) and isinstance(e.func, ast.Name) and e.func.id in ('set', 'list', 'tuple', 'frozenset') and len(e.args) == 1 and not e.keywords:
            e = e.args[0]
        return e

    def guard_value(t: ast.AST, tv: str) -> Optional[bool]:
        """Value of a guard for a job `tv` that is not None and not yet a dependency (None: depends on something else)."""
        if isinstance(t, ast.UnaryOp) and isinstance(t.op, ast.Not):
            v = guard_value(t.operand, tv)
            return None if v is None else not v
        if isinstance(t, ast.BoolOp):
            vs = [guard_value(x, tv) for x in t.values]
            if isinstance(t.op, ast.And):
                return False if any(v is False for v in vs) else (True if all(v is True for v in vs) else None)
            return True if any(v is True for v in vs) else (False if all(v is False for v in vs) else None)
        if isinstance(t, ast.Compare) and len(t.ops) == 1 and isinstance(t.left, ast.Name) and t.left.id == tv:
            op, rhs = t.ops[0], t.comparators[0]
            if _is_attr(rhs, 'self', DEPS) and isinstance(op, (ast.In, ast.NotIn)):
                return isinstance(op, ast.NotIn)
            if isinstance(rhs, ast.Constant) and rhs.value is None and isinstance(op, (ast.Is, ast.IsNot, ast.Eq, ast.NotEq)):
                return isinstance(op, (ast.IsNot, ast.NotEq))
        if isinstance(t, ast.Call) and pf.dotted(t.func) == 'isinstance' and len(t.args) == 2 and isinstance(t.args[0], ast.Name) and t.args[0].id == tv \
                and pf.nsrc(t.args[1]) in ('Job', 'job.Job'):
            return True
        return None

    def data_dependent(t: ast.AST, tv: str) -> bool:
        """The guard reads the content of the job (attribute, helper call on it): a filter, not validation."""
        for x in ast.walk(t):
            if isinstance(x, ast.Call) and pf.dotted(x.func) != 'isinstance' and any(isinstance(y, ast.Name) and y.id == tv for a in x.args for y in ast.walk(a)):
                return True
            if isinstance(x, ast.Attribute) and isinstance(x.value, ast.Name) and x.value.id == tv:
                return True
        return False

    writes: List[Tuple[ast.AST, ast.AST]] = []   # (statement-level node, value written)
    for x in pf.walk_shallow(dep):
        if isinstance(x, ast.Call) and isinstance(x.func, ast.Attribute) and _is_attr(x.func.value, 'self', DEPS) and x.func.attr in ('add', 'update') and len(x.args) == 1:
            writes.append((x, x.args[0]))
        elif isinstance(x, ast.AugAssign) and _is_attr(x.target, 'self', DEPS) and isinstance(x.op, ast.BitOr):
            writes.append((x, x.value))
        elif isinstance(x, (ast.Assign, ast.AnnAssign)) and any(_is_attr(t, 'self', DEPS) for t in (x.targets if isinstance(x, ast.Assign) else [x.target])):
            raise AnalysisError(f'{where}: `{pf.nsrc(x)}` rebinds self.{DEPS}')
    cons = where
    if not writes:
        ctx.bad('R3', cons, f'never writes `self.{DEPS}`: explicit dependencies are lost', m.path, dep.lineno)
        return
    covered, lossy, unknown = False, None, None
    for node, val in writes:
        # enclosing statements up to the function
        chain: List[ast.AST] = []
        cur = par.get(node)
        while cur is not None and cur is not dep:
            chain.append(cur)
            cur = par.get(cur)
        loops = [c for c in chain if isinstance(c, (ast.For, ast.While))]
        ifs = [c for c in chain if isinstance(c, ast.If)]
        is_add = isinstance(node, ast.Call) and node.func.attr == 'add'  # type: ignore[attr-defined]
        if not is_add:
            v = strip(val)
            if isinstance(v, ast.Name) and v.id == va and not loops and not ifs:
                covered = True
            elif isinstance(v, (ast.GeneratorExp, ast.ListComp, ast.SetComp)) and any(g.ifs for g in v.generators):
                lossy = f'`{pf.nsrc(node)}` filters the jobs'
            elif isinstance(v, ast.Subscript) and isinstance(v.value, ast.Name) and v.value.id == va:
                lossy = f'`{pf.nsrc(node)}` takes only part of `*{va}`'
            else:
                unknown = f'`{pf.nsrc(node)}` not recognised'
            continue
        if isinstance(val, ast.Subscript) and isinstance(val.value, ast.Name) and val.value.id == va:
            lossy = f'`{pf.nsrc(node)}` adds only one element of `*{va}`'
            continue
        if not (len(loops) == 1 and isinstance(loops[0], ast.For) and isinstance(loops[0].iter, ast.Name) and loops[0].iter.id == va
                and isinstance(loops[0].target, ast.Name) and isinstance(val, ast.Name) and val.id == loops[0].target.id and not loops[0].orelse):
            unknown = f'`{pf.nsrc(node)}` is not inside `for <j> in {va}`'
            continue
        loop = loops[0]
        tv = loop.target.id  # type: ignore[attr-defined]
        if any(i for i in ifs if not _inside(loop, i)):
            unknown = f'the loop over `*{va}` is conditional'
            continue
        verdict: Optional[bool] = True
        reason = ''
        for i in ifs:
            in_body = any(x is node for b in i.body for x in ast.walk(b))
            v = guard_value(i.test, tv)
            sat = None if v is None else (v if in_body else not v)
            if sat is True:
                continue
            if sat is False or data_dependent(i.test, tv):
                verdict, reason = False, f'`{pf.nsrc(node)}` is guarded by `{pf.nsrc(i.test)}`' + ('' if in_body else ' (else branch)')
                break
            verdict, reason = None, f'guard `{pf.nsrc(i.test)}` of `{pf.nsrc(node)}` is not decided'
        # early exits from the loop body
        for x in pf.walk_shallow(loop):
            if isinstance(x, (ast.Continue, ast.Break, ast.Return)) and verdict is True:
                gs = []
                cur = par.get(x)
                while cur is not None and cur is not loop:
                    if isinstance(cur, ast.If):
                        gs.append((cur, any(y is x for b in cur.body for y in ast.walk(b))))
                    cur = par.get(cur)
                vals = []
                for gi, inb in gs:
                    v = guard_value(gi.test, tv)
                    vals.append(None if v is None else (v if inb else not v))
                if any(v is False for v in vals):
                    continue      # not taken for a new, non-None job
                if any(data_dependent(gi.test, tv) for gi, _ in gs):
                    verdict, reason = False, f'`{pf.nsrc(x)}` under `{pf.nsrc(gs[0][0].test)}` leaves the loop body before the job is added'
                else:
                    verdict, reason = None, f'`{pf.nsrc(x)}` in the loop over `*{va}` is not decided'
        if verdict is True:
            covered = True
        elif verdict is False:
            lossy = reason
        else:
            unknown = reason
    if lossy:
        ctx.bad('R3', cons, f'does not add every job in `*{va}` to `self.{DEPS}` ({lossy}): an explicit dependency is lost - the job can be numbered and run before it and is '
                            f'not skipped when it fails', m.path, dep.lineno)
    elif covered:
        ctx.ok('R3', cons)
    else:
        raise AnalysisError(f'{where}: {unknown}')


def _r3(ctx: Ctx) -> None:
    m = pf.load(FJ)
    _dep_site(ctx, m, 'Job._interpolate_command.handler')
    _dep_site(ctx, m, 'PythonJob.call.handle_arg')
    _argument_walker(ctx, m)

    _depends_on(ctx, m)
    # the set starts empty per job
    init = m.func('Job.__init__')
    inits = [st for st in _stmts(init) if isinstance(st, (ast.Assign, ast.AnnAssign)) and _is_attr(st.targets[0] if isinstance(st, ast.Assign) else st.target, 'self', DEPS)]
    ctx.need(len(inits) == 1 and inits[0].value is not None and pf.nsrc(inits[0].value) == 'set()', f'{FJ}::Job.__init__: `self.{DEPS}` is not initialised to set()')
    ctx.unit('functions', 5)


R1_TEXT = ('Batch._async_run: the traversal (recursive post-order DFS behind a visited guard, an explicit work stack whose colour-set lifecycle is '
           'enumerated, or in-degree counting) emits a job only after its dependencies, once; ids = positions; a dependency that is still being expanded is rejected '
           '(cycle test index(dep) >= index(job), or a raise in the traversal) before - dominating - the backend call; self._jobs rebound to that order; '
           'back end iterates it in order')
R2_TEXT = ('LocalBackend: a failed or skipped job keeps exactly its not-always-run dependents from running (push style: child table inverse of _dependencies, '
           'the cancelling helper is called on the skipped and failed branches and on every path a cancelled job can take; pull style: the skip decision is '
           'enumerated over always_run x classes of parents against a set that records exactly the succeeded / the failed-and-skipped jobs and can contain every '
           'possible parent); skipped jobs are not run, no other job is skipped, run_code reports failures')
_DEFERRED: List[str] = []


def run(ctx: Ctx) -> None:
    ctx.level = 'other'
    ctx.explanation = ('CFG dominance and must-pass-through queries on Batch._async_run, LocalBackend._async_run and the two resource-recording sites, '
                       'the cycle test compared in linear normal form, the colour-set lifecycle of an explicit-stack traversal and the truth table of a '
                       'pull-style skip decision enumerated over their finite abstract domains; no repository code is run.')
    ctx.rule('R1', R1_TEXT, 13)
    ctx.rule('R2', R2_TEXT, 14)
    ctx.rule('R3', 'both resource-recording sites add a foreign non-None producer to self._dependencies on every normal path and never otherwise; '
                   'the argument walker of PythonJob.call hands every Resource - of every class of resource.py, at top level or nested in list/tuple/dict - to the recording site; '
                   'depends_on adds every argument', 8)
    ctx.assume('"transitively depend on a failed or skipped job" is the recursive definition: a non-always-run job is skipped iff one of its direct parents failed or was skipped')
    ctx.assume('subprocess.check_call / run(check=True) raise CalledProcessError exactly when the command exits non-zero')
    del _DEFERRED[:]
    _r1(ctx)
    _r2(ctx)
    _r3(ctx)
    ctx.unit('files', 3)
    if _DEFERRED:
        raise AnalysisError('; '.join(_DEFERRED))
