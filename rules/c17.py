"""C17 Batch jobs run in dependency order with failure propagation.

Decides (from the syntax trees of hailtop/batch/{batch,backend,job}.py; nothing is run):
  R1  Batch._async_run: the DFS emits a job after the recursion over its `_dependencies` (post-order) behind a visited guard,
      every job of the batch is scheduled, ids are the positions in that order, the cycle test is
      `index(dep) >= index(job) => raise` (linear normal form), and the cycle loop and `self._jobs = ordered` dominate the
      call of the backend; LocalBackend executes `batch._jobs` in list order
  R2  LocalBackend: child table = inverse of `_dependencies`; cancel_child_jobs adds exactly the not-always-run children;
      it is called on the skipped branch and on the failed branch; a skipped job is `continue`d before anything is built and
      nothing else skips a job; run_code reports a failing command
  R3  resource-induced edges: both recording sites (Job._interpolate_command.handler, PythonJob.call.handle_arg) add the
      producing job to `self._dependencies` on every path with a foreign, non-None source and on no other; depends_on adds
      every argument to the same set
Does not decide: that the commands themselves fail when they should; the service back end's scheduling (server side).
"""
from __future__ import annotations

import ast
from typing import Callable, Dict, List, Optional, Tuple

from engines import linform, pyfacts as pf
from engines.common import AnalysisError, Ctx

META = dict(
    category='other',
    text='Structural necessary conditions decided on the statement CFGs of the three anchors: post-order emission, dominance of the cycle '
         'check over the backend call, the linear normal form of the cycle test, must-pass-through of the cancellation calls on the skipped '
         'and failed branches, and sibling agreement of the two sites that record resource-induced edges. Not a proof: the recursion and the '
         'set semantics are taken from the recognised idioms, not modelled for arbitrary code.',
    note='Trusted: CPython ast; engines/pyfacts CFG; set/dict/list semantics of add/append/in; subprocess.check_call raises on a non-zero status. '
         '"Transitively" is read as the recursive definition: skipped = not always-run and a direct parent failed or was skipped.',
    technique='static analysis: CFG dominance / must-pass-through, linear normal forms, sibling agreement',
    design_ref='DESIGN.md §3 C17',
)

FB = 'hail/python/hailtop/batch/batch.py'
FK = 'hail/python/hailtop/batch/backend.py'
FJ = 'hail/python/hailtop/batch/job.py'
DEPS = '_dependencies'


# ------------------------------------------------------------------------------------------------
# small helpers
# ------------------------------------------------------------------------------------------------

def _node(g: pf.CFG, a: ast.AST, what: str) -> pf.Node:
    ns = [n for n in g.nodes if n.ast is a]
    if not ns:
        raise AnalysisError(f'no CFG node for {what}')
    return ns[0]


def _is_attr(e: ast.AST, base: str, attr: str) -> bool:
    return isinstance(e, ast.Attribute) and e.attr == attr and isinstance(e.value, ast.Name) and e.value.id == base


def _method_call(st: ast.AST, meth: str) -> Optional[ast.Call]:
    """`<recv>.<meth>(...)` as an expression statement."""
    if isinstance(st, ast.Expr) and isinstance(st.value, ast.Call) and isinstance(st.value.func, ast.Attribute) and st.value.func.attr == meth:
        return st.value
    return None


def _inside(outer: ast.AST, inner: ast.AST) -> bool:
    return any(x is inner for x in ast.walk(outer)) and outer is not inner


def _nested_defs(fn: pf.FuncDef) -> List[pf.FuncDef]:
    return [n for n in pf.walk_shallow(fn, into_nested_defs=True) if isinstance(n, (ast.FunctionDef, ast.AsyncFunctionDef)) and n is not fn]


def _calls_to(node: ast.AST, name: str, into_nested: bool = False) -> List[ast.Call]:
    return [c for c in pf.calls_in(node, into_nested) if isinstance(c.func, ast.Name) and c.func.id == name]


def _stmts(fn: ast.AST) -> List[ast.stmt]:
    return [n for n in pf.walk_shallow(fn) if isinstance(n, ast.stmt) and n is not fn]


# ------------------------------------------------------------------------------------------------
# R1
# ------------------------------------------------------------------------------------------------

def _r1(ctx: Ctx) -> None:
    m = pf.load(FB)
    fn = m.func('Batch._async_run')
    g = pf.cfg(fn)
    where = f'{FB}::Batch._async_run'

    rec = [d for d in _nested_defs(fn) if _calls_to(d, d.name)]
    ctx.need(len(rec) == 1, f'{where}: expected exactly one recursive nested scheduler, found {[d.name for d in rec]}')
    S = rec[0]
    ctx.need(len(S.args.args) == 1 and not S.args.vararg and not S.args.kwarg, f'{where}.{S.name}: unexpected parameters')
    jv = S.args.args[0].arg
    sg = pf.cfg(S)
    swhere = f'{where}.{S.name}'

    # the recursion loop
    loops = [st for st in _stmts(S) if isinstance(st, ast.For) and isinstance(st.target, ast.Name)
             and any(len(c.args) == 1 and isinstance(c.args[0], ast.Name) and c.args[0].id == st.target.id for c in _calls_to(st, S.name))]
    ctx.need(len(loops) == 1, f'{swhere}: expected one loop recursing on its target, found {len(loops)}')
    loop = loops[0]
    ctx.need(len(_calls_to(S, S.name)) == 1, f'{swhere}: more than one recursive call')
    ctx.check(_is_attr(loop.iter, jv, DEPS), 'R1', f'{swhere}::recursion iterable',
              f'the DFS recurses over `{pf.nsrc(loop.iter)}`, not over `{jv}.{DEPS}`: a job can be numbered before a job it depends on',
              m.path, loop.lineno)
    L = _node(sg, loop, 'recursion loop')

    # the emission
    emits = [st for st in _stmts(S) if (c := _method_call(st, 'append')) is not None and isinstance(c.func.value, ast.Name)  # type: ignore[union-attr]
             and len(c.args) == 1 and isinstance(c.args[0], ast.Name) and c.args[0].id == jv]
    ctx.need(len(emits) == 1, f'{swhere}: expected exactly one `<list>.append({jv})`, found {len(emits)}')
    emit = emits[0]
    O = emit.value.func.value.id  # type: ignore[attr-defined]
    A = _node(sg, emit, 'emission')
    post = (not _inside(loop, emit)) and sg.dominated_by(A, lambda n: n is L)
    ctx.check(post, 'R1', f'{swhere}::post-order',
              f'`{pf.nsrc(emit)}` is not executed after the loop `for {pf.nsrc(loop.target)} in {pf.nsrc(loop.iter)}` has finished '
              f'(pre-order / in-loop emission): for b.depends_on(a) created in the order b, a the job b is numbered and run before a',
              m.path, emit.lineno)

    # visited guard
    tests = [st for st in _stmts(S) if isinstance(st, ast.If)]
    mem = [st for st in tests if isinstance(st.test, ast.Compare) and len(st.test.ops) == 1 and isinstance(st.test.ops[0], (ast.In, ast.NotIn))
           and isinstance(st.test.left, ast.Name) and st.test.left.id == jv and isinstance(st.test.comparators[0], ast.Name)]
    gcons = f'{swhere}::visited guard'
    if not mem:
        ctx.need(not tests, f'{swhere}: conditionals present but no `{jv} in <set>` test (unrecognised visited idiom)')
        ctx.bad('R1', gcons, f'no `{jv} in <visited>` test guards the recursion: a cyclic pipeline recurses without bound instead of being rejected, '
                             f'and a job reachable along two dependency paths is emitted (numbered, run) twice', m.path, S.lineno)
    else:
        ctx.need(len(mem) == 1, f'{swhere}: several membership tests')
        t = mem[0]
        V = t.test.comparators[0].id  # type: ignore[attr-defined]
        T = _node(sg, t.test, 'visited test')
        seen_lab = 'T' if isinstance(t.test.ops[0], ast.In) else 'F'  # type: ignore[attr-defined]
        # on the "already seen" edge neither the recursion nor the emission may be reached
        leak = sg.path_avoiding(T, lambda n: n is L or n is A, lambda n: False, edge_ok=lambda a, b, lab: a is not T or lab == seen_lab)
        marks = [st for st in _stmts(S) if (c := _method_call(st, 'add')) is not None and isinstance(c.func.value, ast.Name) and c.func.value.id == V  # type: ignore[union-attr]
                 and len(c.args) == 1 and isinstance(c.args[0], ast.Name) and c.args[0].id == jv]
        marked = bool(marks) and all(not _inside(loop, x) for x in marks) and \
            sg.dominated_by(L, lambda n: any(n.ast is x for x in marks)) and sg.dominated_by(L, lambda n: n is T)
        if leak is not None:
            ctx.bad('R1', gcons, f'an already visited job still reaches `{leak[-1].text()}`: it is emitted twice / the recursion does not stop on a cycle', m.path, t.lineno)
        elif not marked:
            ctx.bad('R1', gcons, f'`{V}.add({jv})` does not precede the recursion on every path: on a cyclic pipeline (a -> b -> a) schedule_job recurses '
                                 f'without bound instead of reaching the cycle check', m.path, t.lineno)
        else:
            ctx.ok('R1', gcons, {'visited': V})

    # every job of the batch is scheduled
    outer_calls = [c for c in pf.calls_in(fn) if isinstance(c.func, ast.Name) and c.func.id == S.name]
    ctx.need(len(outer_calls) == 1, f'{where}: expected one top-level call of {S.name}')
    drv = [st for st in _stmts(fn) if isinstance(st, ast.For) and _inside(st, outer_calls[0])]
    ctx.need(len(drv) == 1 and isinstance(drv[0].target, ast.Name), f'{where}: top-level call of {S.name} is not in a simple for loop')
    d0 = drv[0]
    arg_ok = len(outer_calls[0].args) == 1 and isinstance(outer_calls[0].args[0], ast.Name) and outer_calls[0].args[0].id == d0.target.id
    ctx.need(arg_ok, f'{where}: {S.name} is not called on the loop variable')
    ctx.check(_is_attr(d0.iter, 'self', '_jobs'), 'R1', f'{where}::all jobs scheduled',
              f'the scheduler is driven over `{pf.nsrc(d0.iter)}`, not over every job in `self._jobs`', m.path, d0.lineno)

    # numbering: index dict over enumerate(O, start=1)
    idx_name = None
    for st in fn.body:
        if isinstance(st, ast.Assign) and len(st.targets) == 1 and isinstance(st.targets[0], ast.Name) and isinstance(st.value, ast.DictComp):
            dc = st.value
            if len(dc.generators) == 1 and isinstance(dc.generators[0].iter, ast.Call) and pf.dotted(dc.generators[0].iter.func) == 'enumerate':
                en = dc.generators[0].iter
                tg = dc.generators[0].target
                if en.args and isinstance(en.args[0], ast.Name) and en.args[0].id == O and isinstance(tg, ast.Tuple) and len(tg.elts) == 2 \
                        and all(isinstance(x, ast.Name) for x in tg.elts) and not dc.generators[0].ifs:
                    iv, ev = tg.elts[0].id, tg.elts[1].id  # type: ignore[attr-defined]
                    ctx.need(isinstance(dc.key, ast.Name) and dc.key.id == ev and isinstance(dc.value, ast.Name) and dc.value.id == iv,
                             f'{where}: index dict does not map element -> position')
                    idx_name = st.targets[0].id
    ctx.need(idx_name is not None, f'{where}: no `{{job: i for i, job in enumerate({O}, ...)}}` index table')

    # the cycle-check loop
    cl = [st for st in fn.body if isinstance(st, ast.For) and isinstance(st.iter, ast.Name) and st.iter.id == O and isinstance(st.target, ast.Name)
          and any(isinstance(x, ast.Raise) for x in ast.walk(st))]
    ctx.need(len(cl) == 1, f'{where}: expected one loop over `{O}` containing the cycle check, found {len(cl)}')
    cloop = cl[0]
    j2 = cloop.target.id
    env: Dict[str, ast.AST] = {}
    for st in cloop.body:
        if isinstance(st, ast.Assign) and len(st.targets) == 1 and isinstance(st.targets[0], ast.Name):
            env[st.targets[0].id] = st.value
    me = linform.sym(f'{idx_name}[{j2}]')

    ids = [st for st in cloop.body if isinstance(st, ast.Assign) and len(st.targets) == 1 and _is_attr(st.targets[0], j2, '_job_id')]
    ctx.need(len(ids) == 1, f'{where}: expected one `{j2}._job_id = ...` in the numbering loop')
    try:
        id_ok = linform.lin(ids[0].value, env) == me
    except AnalysisError:
        id_ok = False
    ctx.check(id_ok, 'R1', f'{where}::job id = position', f'`{pf.nsrc(ids[0])}` does not assign the position of the job in the dependency order '
              f'(`{idx_name}[{j2}]`)', m.path, ids[0].lineno)

    inner = [st for st in cloop.body if isinstance(st, ast.For) and isinstance(st.target, ast.Name) and any(isinstance(x, ast.Raise) for x in ast.walk(st))]
    ctx.need(len(inner) == 1, f'{where}: cycle check is not in a loop over the dependencies')
    il = inner[0]
    dv = il.target.id
    ctx.check(_is_attr(il.iter, j2, DEPS), 'R1', f'{where}::cycle check iterable',
              f'the cycle check inspects `{pf.nsrc(il.iter)}`, not `{j2}.{DEPS}`', m.path, il.lineno)
    ifs = [st for st in il.body if isinstance(st, ast.If)]
    ctx.need(len(il.body) == 1 and len(ifs) == 1 and not ifs[0].orelse and len(ifs[0].body) == 1 and isinstance(ifs[0].body[0], ast.Raise),
             f'{where}: cycle check is not `if <test>: raise`')
    test = ifs[0].test
    want = me - linform.sym(f'{idx_name}[{dv}]')  # raise  <=>  index(job) - index(dep) <= 0
    try:
        got = linform.cmp_le0(test, env)
    except AnalysisError as e:
        raise AnalysisError(f'{where}: cycle test `{pf.nsrc(test)}` not recognised ({e})')
    ctx.need(set(got.symbols()) == set(want.symbols()), f'{where}: cycle test `{pf.nsrc(test)}` is not over {want.symbols()}')
    ctx.check(got == want, 'R1', f'{where}::cycle test',
              f'the test `{pf.nsrc(test)}` means `{got!r} <= 0` but a cycle shows as index(dep) >= index(job), i.e. `{want!r} <= 0`: '
              + ('a job that depends on itself (j.depends_on(j)) has index(dep) == index(job) and is accepted' if (got - want).is_const() and (got - want).const > 0
                 else 'acyclic pipelines are rejected / cyclic ones accepted'), m.path, ifs[0].lineno)

    # dominance over the backend call
    bcalls = [c for c in pf.calls_in(fn) if pf.dotted(c.func) == 'self._backend._async_run']
    ctx.need(len(bcalls) >= 1, f'{where}: no call of self._backend._async_run')
    CL = _node(g, cloop, 'cycle loop')
    DL = _node(g, d0, 'driver loop')
    ctx.need(g.dominated_by(CL, lambda n: n is DL), f'{where}: cycle check does not follow the scheduling loop')
    sets = [st for st in _stmts(fn) if isinstance(st, ast.Assign) and len(st.targets) == 1 and _is_attr(st.targets[0], 'self', '_jobs')]
    dom_bad, ord_bad = [], []
    for bc in bcalls:
        bn = g.node_of(bc)
        ctx.need(len(bn) == 1, f'{where}: backend call node not found')
        B = bn[0]
        ctx.need(bool(bc.args) and isinstance(bc.args[0], ast.Name) and bc.args[0].id == 'self', f'{where}: backend is not run on self')
        if _inside(cloop, bc) or not g.dominated_by(B, lambda n: n is CL):
            dom_bad.append(B)
        good = [st for st in sets if isinstance(st.value, ast.Name) and st.value.id == O and g.dominated_by(B, lambda n, st=st: n.ast is st)]
        if not good or len(sets) != len([st for st in sets if isinstance(st.value, ast.Name) and st.value.id == O]):
            ord_bad.append(B)
    ctx.check(not dom_bad, 'R1', f'{where}::cycle check dominates backend run',
              f'there is a path to `self._backend._async_run(...)` (line {dom_bad[0].lineno if dom_bad else 0}) that does not first complete the cycle-check loop: '
              f'a cyclic pipeline reaches the backend', m.path, dom_bad[0].lineno if dom_bad else 0)
    ctx.check(not ord_bad, 'R1', f'{where}::self._jobs = {O}',
              f'`self._jobs` is not rebound to the dependency order `{O}` on every path before the backend runs '
              f'(found {[pf.nsrc(s) for s in sets] or "no assignment"}): the back ends iterate `batch._jobs` and would run jobs in creation order',
              m.path, ord_bad[0].lineno if ord_bad else 0)
    ctx.unit('functions', 2)

    # the local back end consumes batch._jobs in list order
    uj = m.func('Batch._unsubmitted_jobs')
    rets = [st for st in _stmts(uj) if isinstance(st, ast.Return)]
    ctx.need(len(rets) == 1, f'{FB}::Batch._unsubmitted_jobs: expected a single return')
    rv = rets[0].value
    ok = isinstance(rv, ast.ListComp) and len(rv.generators) == 1 and _is_attr(rv.generators[0].iter, 'self', '_jobs') \
        and isinstance(rv.elt, ast.Name) and isinstance(rv.generators[0].target, ast.Name) and rv.elt.id == rv.generators[0].target.id
    ctx.check(ok, 'R1', f'{FB}::Batch._unsubmitted_jobs::order', f'`{pf.nsrc(rets[0])}` is not an order-preserving filter of `self._jobs`', m.path, rets[0].lineno)


# ------------------------------------------------------------------------------------------------
# R2
# ------------------------------------------------------------------------------------------------

def _r2(ctx: Ctx) -> None:
    m = pf.load(FK)
    fn = m.func('LocalBackend._async_run')
    g = pf.cfg(fn)
    where = f'{FK}::LocalBackend._async_run'
    ctx.need(len(fn.args.args) >= 2, f'{where}: parameters changed')
    bparam = fn.args.args[1].arg

    # the runner and the main loop
    runs = [st for st in _stmts(fn) if isinstance(st, ast.Assign) and len(st.targets) == 1 and isinstance(st.targets[0], ast.Name)
            and isinstance(st.value, ast.Call) and isinstance(st.value.func, ast.Name) and st.value.func.id == 'run_code']
    mains = [lp for lp in _stmts(fn) if isinstance(lp, ast.For) and isinstance(lp.target, ast.Name) and any(_inside(lp, r) for r in runs)]
    ctx.need(len(mains) == 1, f'{where}: expected one job loop containing `<x> = run_code(...)`, found {len(mains)}')
    main = mains[0]
    runs = [r for r in runs if _inside(main, r)]
    ctx.need(len(runs) == 1, f'{where}: expected one run_code call in the job loop')
    run = runs[0]
    jobv = main.target.id
    excv = run.targets[0].id  # type: ignore[attr-defined]
    H = _node(g, main, 'job loop')
    RUN = _node(g, run, 'run_code')

    jobs_expr = pf.resolve_expr(fn, main.iter)
    ctx.check(_is_attr(jobs_expr, bparam, '_unsubmitted_jobs') or _is_attr(jobs_expr, bparam, '_jobs'), 'R1', f'{where}::iteration order',
              f'the job loop iterates `{pf.nsrc(jobs_expr)}`, not the ordered list `{bparam}._unsubmitted_jobs`', m.path, main.lineno)
    jobs_name = main.iter.id if isinstance(main.iter, ast.Name) else None

    # child table
    cancel = fn and [d for d in _nested_defs(fn) if d.name == 'cancel_child_jobs']
    ctx.need(len(cancel) == 1 and len(cancel[0].args.args) == 1, f'{where}: nested cancel_child_jobs(j) not found')
    C = cancel[0]
    cj = C.args.args[0].arg
    cloops = [st for st in C.body if isinstance(st, ast.For)]
    ctx.need(len(C.body) == 1 and len(cloops) == 1 and isinstance(cloops[0].target, ast.Name) and isinstance(cloops[0].iter, ast.Subscript)
             and isinstance(cloops[0].iter.value, ast.Name) and isinstance(cloops[0].iter.slice, ast.Name) and cloops[0].iter.slice.id == cj,
             f'{where}.cancel_child_jobs: not a single loop over `<table>[{cj}]`')
    cl = cloops[0]
    table = cl.iter.value.id  # type: ignore[attr-defined]
    child = cl.target.id  # type: ignore[attr-defined]

    fills = []
    for st in _stmts(fn):
        c = _method_call(st, 'add')
        if c is not None and isinstance(c.func.value, ast.Subscript) and isinstance(c.func.value.value, ast.Name) and c.func.value.value.id == table:  # type: ignore[union-attr]
            fills.append(st)
    ctx.need(len(fills) == 1, f'{where}: expected one `{table}[...].add(...)`, found {len(fills)}')
    fill = fills[0]
    fc = fill.value  # type: ignore[attr-defined]
    encl = [lp for lp in _stmts(fn) if isinstance(lp, ast.For) and _inside(lp, fill)]
    ctx.need(len(encl) == 2 and all(isinstance(lp.target, ast.Name) for lp in encl), f'{where}: child table is not filled in a doubly nested loop')
    outer, inn = (encl[0], encl[1]) if _inside(encl[0], encl[1]) else (encl[1], encl[0])
    ov, iv = outer.target.id, inn.target.id  # type: ignore[attr-defined]
    ctx.need(_is_attr(inn.iter, ov, DEPS), f'{where}: inner loop of the child table does not range over `{ov}.{DEPS}`')
    key, val = fc.func.value.slice, (fc.args[0] if len(fc.args) == 1 else None)
    inv = isinstance(key, ast.Name) and key.id == iv and isinstance(val, ast.Name) and val.id == ov
    ctx.check(inv, 'R2', f'{where}::child table is the inverse of {DEPS}',
              f'`{pf.nsrc(fill)}` inside `for {ov} in ...: for {iv} in {ov}.{DEPS}` does not record `{ov}` as a child of its parent `{iv}`: '
              f'a failing parent cancels the wrong jobs', m.path, fill.lineno)
    same_iter = (isinstance(outer.iter, ast.Name) and outer.iter.id == jobs_name) or pf.nsrc(pf.resolve_expr(fn, outer.iter)) == pf.nsrc(jobs_expr)
    ctx.check(same_iter, 'R2', f'{where}::child table covers every job',
              f'the child table is built over `{pf.nsrc(outer.iter)}` but the jobs executed are `{pf.nsrc(main.iter)}`', m.path, outer.lineno)
    FILL_OUT = _node(g, outer, 'child table loop')
    ctx.need(g.dominated_by(H, lambda n: n is FILL_OUT) and not _inside(main, outer), f'{where}: child table is not complete before the job loop')

    # cancel_child_jobs body: exactly the not-always-run children
    adds = [st for st in _stmts(C) if (c := _method_call(st, 'add')) is not None and isinstance(c.func.value, ast.Name)]  # type: ignore[union-attr]
    ctx.need(len(adds) == 1, f'{where}.cancel_child_jobs: expected one `<set>.add(...)`')
    add = adds[0]
    cancelled = add.value.func.value.id  # type: ignore[attr-defined]
    body_ok = len(cl.body) == 1 and isinstance(cl.body[0], ast.If) and not cl.body[0].orelse and cl.body[0].body == [add]
    ccons = f'{where}.cancel_child_jobs::adds exactly the not-always-run children'
    if not body_ok:
        if cl.body == [add]:
            ctx.bad('R2', ccons, f'every child is cancelled unconditionally: an always-run child of a failed job is skipped', m.path, add.lineno)
        else:
            raise AnalysisError(f'{where}.cancel_child_jobs: loop body is not `if <test>: {cancelled}.add({child})`')
    else:
        t = cl.body[0].test
        arg = add.value.args[0] if len(add.value.args) == 1 else None  # type: ignore[attr-defined]
        neg = isinstance(t, ast.UnaryOp) and isinstance(t.op, ast.Not) and _is_attr(t.operand, child, '_always_run')
        pos = _is_attr(t, child, '_always_run')
        if not (isinstance(arg, ast.Name) and arg.id == child):
            ctx.bad('R2', ccons, f'`{pf.nsrc(add)}` does not add the child `{child}`', m.path, add.lineno)
        elif neg:
            ctx.ok('R2', ccons, {'test': pf.nsrc(t)})
        elif pos:
            ctx.bad('R2', ccons, f'the guard `{pf.nsrc(t)}` cancels the always-run children and keeps the others', m.path, add.lineno)
        else:
            raise AnalysisError(f'{where}.cancel_child_jobs: guard `{pf.nsrc(t)}` not recognised')
    # nothing else writes the cancelled set
    others = []
    for n in pf.walk_shallow(fn, into_nested_defs=True):
        if isinstance(n, ast.Call) and isinstance(n.func, ast.Attribute) and isinstance(n.func.value, ast.Name) and n.func.value.id == cancelled \
                and n.func.attr in ('add', 'update', 'discard', 'remove', 'clear', 'pop', 'difference_update', 'intersection_update', 'symmetric_difference_update'):
            if n is not add.value:  # type: ignore[attr-defined]
                others.append(n)
    cdefs = [st for st in _stmts(fn) if isinstance(st, (ast.Assign, ast.AugAssign, ast.AnnAssign))
             and any(isinstance(x, ast.Name) and x.id == cancelled and isinstance(x.ctx, ast.Store) for x in ast.walk(st))]
    init_ok = len(cdefs) == 1 and isinstance(cdefs[0], ast.Assign) and pf.nsrc(cdefs[0].value) in ('set()',) and not _inside(main, cdefs[0])
    ctx.check(not others and init_ok, 'R2', f'{where}::{cancelled} written only by cancel_child_jobs',
              f'the cancelled set is also modified by {[pf.nsrc(x) for x in others] + [pf.nsrc(x) for x in cdefs[1:]]} or is not initialised once to set() before the loop',
              m.path, (others[0].lineno if others else fn.lineno))

    def calls_cancel(n: pf.Node) -> bool:
        return any(isinstance(c.func, ast.Name) and c.func.id == C.name and len(c.args) == 1 and isinstance(c.args[0], ast.Name) and c.args[0].id == jobv
                   for c in pf.node_calls(n))

    # skipped branch
    skips = [st for st in main.body if isinstance(st, ast.If) and isinstance(st.test, ast.Compare) and len(st.test.ops) == 1
             and isinstance(st.test.ops[0], (ast.In, ast.NotIn)) and isinstance(st.test.left, ast.Name) and st.test.left.id == jobv
             and isinstance(st.test.comparators[0], ast.Name) and st.test.comparators[0].id == cancelled]
    scons = f'{where}::skipped job'
    if not skips:
        anytest = [n for n in pf.walk_shallow(main) if isinstance(n, ast.Compare) and any(isinstance(x, ast.Name) and x.id == cancelled for x in ast.walk(n))]
        ctx.need(not anytest, f'{where}: `{cancelled}` is tested in an unrecognised way')
        ctx.bad('R2', scons, f'the job loop never tests `{jobv} in {cancelled}`: jobs whose parent failed are run anyway', m.path, main.lineno)
        SK = None
        skip_lab = 'T'
    else:
        ctx.need(len(skips) == 1, f'{where}: several tests of `{jobv} in {cancelled}`')
        sk = skips[0]
        SK = _node(g, sk.test, 'skip test')
        skip_lab = 'T' if isinstance(sk.test.ops[0], ast.In) else 'F'  # type: ignore[attr-defined]

        def only_skip(a, b, lab):
            return a is not SK or lab == skip_lab

        def is_work(n: pf.Node) -> bool:
            return n is RUN or any(isinstance(c.func, ast.Attribute) and c.func.attr == '_compile' for c in pf.node_calls(n))

        p = g.path_avoiding(SK, is_work, lambda n: n is H, edge_ok=only_skip)
        if p is not None:
            ctx.bad('R2', scons + '::not run', f'a job found in `{cancelled}` still reaches `{p[-1].text()}` in the same iteration: it is executed although a parent failed',
                    m.path, sk.lineno)
        else:
            ctx.ok('R2', scons + '::not run')
        p = g.path_avoiding(SK, lambda n: n is H or n is g.exit, calls_cancel, edge_ok=only_skip)
        if p is not None:
            ctx.bad('R2', scons + '::propagates', f'the skipped-job branch reaches the next iteration without `{C.name}({jobv})`: with a -> b -> c and a failing, '
                    f'b is skipped but c (not always-run) is run although it depends on a skipped job', m.path, sk.lineno)
        else:
            ctx.ok('R2', scons + '::propagates')
        ctx.need(g.dominated_by(RUN, lambda n: n is SK), f'{where}: the skip test does not precede run_code on every path')

    # nothing else skips a job
    def not_skip_edge(a, b, lab):
        return not (a is SK and lab == skip_lab) and not (a is H and lab != 'T')

    first = [(b, lab) for b, lab in H.succ if lab == 'T']
    ctx.need(len(first) == 1, f'{where}: job loop has no body edge')
    p = g.path_avoiding(H, lambda n: n is H, lambda n: n is RUN, edge_ok=not_skip_edge)
    if p is not None and len(p) > 1:
        ctx.bad('R2', f'{where}::only cancelled jobs are skipped',
                f'a job that is not in `{cancelled}` can reach the next iteration without `run_code` (via `{p[-2].text()}`): jobs other than the '
                f'dependents of failed/skipped jobs are skipped', m.path, p[-2].lineno)
    else:
        ctx.ok('R2', f'{where}::only cancelled jobs are skipped')

    # failed branch
    fcons = f'{where}::failed job propagates'
    ftests = []
    for n in g.nodes:
        if n.kind == 'test' and n.ast is not None and _inside(main, n.ast) and any(isinstance(x, ast.Name) and x.id == excv for x in ast.walk(n.ast)):
            ftests.append(n)
    fail_lab = None
    if len(ftests) == 1:
        t = ftests[0].ast
        if isinstance(t, ast.Compare) and len(t.ops) == 1 and isinstance(t.left, ast.Name) and t.left.id == excv \
                and isinstance(t.comparators[0], ast.Constant) and t.comparators[0].value is None:
            fail_lab = 'T' if isinstance(t.ops[0], (ast.IsNot, ast.NotEq)) else ('F' if isinstance(t.ops[0], (ast.Is, ast.Eq)) else None)
        elif isinstance(t, ast.Name):
            fail_lab = 'T'
        elif isinstance(t, ast.UnaryOp) and isinstance(t.op, ast.Not) and isinstance(t.operand, ast.Name):
            fail_lab = 'F'
    if not ftests:
        ctx.bad('R2', fcons, f'the result of `run_code` (`{excv}`) is never tested: a failing job does not cancel its children', m.path, run.lineno)
    else:
        ctx.need(fail_lab is not None, f'{where}: test of `{excv}` not recognised')
        FT = ftests[0]
        ctx.need(g.dominated_by(FT, lambda n: n is RUN), f'{where}: failure test does not follow run_code')
        p = g.path_avoiding(FT, lambda n: n is H or n is g.exit, calls_cancel, edge_ok=lambda a, b, lab: a is not FT or lab == fail_lab)
        if p is not None:
            ctx.bad('R2', fcons, f'after a failing command (`{pf.nsrc(FT.ast)}` on the failure side) the next iteration is reached without `{C.name}({jobv})`: '
                    f'the children of a failed job are run', m.path, FT.lineno)
        else:
            ctx.ok('R2', fcons)
        # a successful job must not cancel
        ok_lab = 'F' if fail_lab == 'T' else 'T'
        p = g.path_avoiding(FT, calls_cancel, lambda n: n is H, edge_ok=lambda a, b, lab: a is not FT or lab == ok_lab)
        ctx.check(p is None, 'R2', f'{where}::successful job does not cancel', f'`{C.name}({jobv})` is reached after a successful command: children of successful jobs are skipped',
                  m.path, FT.lineno)
    # no cancel call before run on the non-skip path
    p = g.path_avoiding(H, calls_cancel, lambda n: n is RUN, edge_ok=not_skip_edge)
    ctx.check(p is None, 'R2', f'{where}::no cancellation before the job ran', f'`{C.name}({jobv})` is reachable before `run_code` for a job that is not cancelled', m.path, main.lineno)

    # run_code reports failure
    rc = [d for d in _nested_defs(fn) if d.name == 'run_code']
    ctx.need(len(rc) == 1, f'{where}: nested run_code not found')
    R = rc[0]
    rwhere = f'{where}.run_code'
    tries = [st for st in _stmts(R) if isinstance(st, ast.Try)]
    ctx.need(len(tries) == 1 and len(tries[0].handlers) == 1 and tries[0].handlers[0].name, f'{rwhere}: expected one try with one named handler')
    tr = tries[0]
    h = tr.handlers[0]
    ctx.need(pf.dotted(h.type) in ('sp.CalledProcessError', 'subprocess.CalledProcessError', 'CalledProcessError'), f'{rwhere}: handler type {pf.nsrc(h.type)} not recognised')
    calls = [c for st in tr.body for c in pf.calls_in(st)]
    spc = [c for c in calls if (pf.dotted(c.func) or '').split('.')[0] in ('sp', 'subprocess')]
    ctx.need(len(spc) == 1, f'{rwhere}: expected one subprocess call in the try body')
    fname = (pf.dotted(spc[0].func) or '').split('.')[-1]
    checked = fname in ('check_call', 'check_output') or (fname == 'run' and any(k.arg == 'check' and isinstance(k.value, ast.Constant) and k.value.value is True for k in spc[0].keywords))
    ctx.need(checked or fname in ('call', 'run', 'Popen', 'getoutput', 'getstatusoutput'), f'{rwhere}: subprocess function {fname} not recognised')
    ctx.check(checked, 'R2', f'{rwhere}::command failure raises', f'`{pf.nsrc(spc[0])}` does not raise on a non-zero exit status: a failing command is reported as success and '
              f'its dependents are run', m.path, spc[0].lineno)
    rg = pf.cfg(R)
    HN = _node(rg, h, 'handler')
    reach = rg.reachable_from(HN)
    hrets = [n for n in rg.nodes if n.kind == 'return' and n.id in reach and _inside(h, n.ast)]
    falls = rg.path_avoiding(HN, lambda n: n is rg.exit, lambda n: n.kind == 'return' and _inside(h, n.ast))
    good = bool(hrets) and all(isinstance(n.ast.value, ast.Name) and n.ast.value.id == h.name for n in hrets)
    # a fall-through out of the handler must not end in `return None`
    if falls is not None:
        last_ret = [n for n in falls if n.kind == 'return']
        good = good and bool(last_ret) and isinstance(last_ret[-1].ast.value, ast.Name)
    ctx.check(good, 'R2', f'{rwhere}::handler returns the error', f'the `except {pf.nsrc(h.type)}` handler does not return the caught error on every path '
              f'(returns {[pf.nsrc(n.ast) for n in hrets] or "nothing"}): the caller sees None = success and runs the dependents', m.path, h.lineno)
    ctx.unit('functions', 3)


# ------------------------------------------------------------------------------------------------
# R3
# ------------------------------------------------------------------------------------------------

def _classify(t: ast.AST, S: str) -> Optional[Tuple[str, str]]:
    """(predicate, label on which it is true) for tests about the producing job `S`."""
    if isinstance(t, ast.Compare) and len(t.ops) == 1:
        a, b, op = t.left, t.comparators[0], t.ops[0]
        names = {x.id for x in (a, b) if isinstance(x, ast.Name)}
        if names == {S, 'self'}:
            if isinstance(op, (ast.NotEq, ast.IsNot)):
                return ('foreign', 'T')
            if isinstance(op, (ast.Eq, ast.Is)):
                return ('foreign', 'F')
        if isinstance(a, ast.Name) and a.id == S and isinstance(b, ast.Constant) and b.value is None:
            if isinstance(op, (ast.IsNot, ast.NotEq)):
                return ('notnone', 'T')
            if isinstance(op, (ast.Is, ast.Eq)):
                return ('notnone', 'F')
    if isinstance(t, ast.Name) and t.id == S:
        return ('notnone', 'T')
    if isinstance(t, ast.UnaryOp) and isinstance(t.op, ast.Not) and isinstance(t.operand, ast.Name) and t.operand.id == S:
        return ('notnone', 'F')
    return None


def _bare_use(t: ast.AST, S: str) -> bool:
    """S occurs in t as a value of its own (not merely as the base of `S.attr`): the test is about the identity of S."""
    attr_bases = {id(x.value) for x in ast.walk(t) if isinstance(x, ast.Attribute)}
    return any(isinstance(x, ast.Name) and x.id == S and id(x) not in attr_bases for x in ast.walk(t))


class RecordingSite:
    """One of the two places where a job records the resources it mentions:  `<S> = <R>.source()` followed by tests on S.
    (Also used by rules/c18.py.)"""

    def __init__(self, ctx: Ctx, m: pf.Module, qual: str):
        self.m = m
        self.qual = qual
        self.fn = fn = m.func(qual)
        self.g = g = pf.cfg(fn)
        self.where = where = f'{m.rel}::{qual}'
        srcs = [st for st in _stmts(fn) if isinstance(st, ast.Assign) and len(st.targets) == 1 and isinstance(st.targets[0], ast.Name)
                and isinstance(st.value, ast.Call) and isinstance(st.value.func, ast.Attribute) and st.value.func.attr == 'source' and not st.value.args
                and isinstance(st.value.func.value, ast.Name)]
        ctx.need(len(srcs) == 1, f'{where}: expected one `<s> = <r>.source()`')
        self.src_stmt = srcs[0]
        self.S = S = srcs[0].targets[0].id  # type: ignore[attr-defined]
        self.R = srcs[0].value.func.value.id  # type: ignore[attr-defined]
        ctx.need(len(pf.assignments(fn).get(S, [])) == 1, f'{where}: `{S}` is reassigned')
        self.SRC = _node(g, srcs[0], 'source assignment')
        self.tests: Dict[int, Tuple[str, str]] = {}
        for n in g.nodes:
            if n.kind == 'test' and n.ast is not None and _bare_use(n.ast, S):
                c = _classify(n.ast, S)
                ctx.need(c is not None, f'{where}: test `{pf.nsrc(n.ast)}` on the producing job not recognised')
                self.tests[n.id] = c  # type: ignore[assignment]

    def under(self, val: Dict[str, bool]) -> Callable[[pf.Node, pf.Node, str], bool]:
        """Edge filter: only the branches consistent with the valuation of {'foreign', 'notnone'} (unlisted predicates are free)."""
        def ok(a: pf.Node, b: pf.Node, lab: str) -> bool:
            c = self.tests.get(a.id)
            if c is None or c[0] not in val or lab not in ('T', 'F'):
                return True
            return (lab == c[1]) == val[c[0]]
        return ok

    def effect(self, ctx: Ctx, rule: str, what: str, is_eff: Callable[[pf.Node], bool], required: Dict[str, bool],
               forbidden: List[Tuple[Dict[str, bool], str]], missing_msg: str, skip_msg: str) -> None:
        """`what` must be executed on every path SRC -> normal exit consistent with `required`, and must be unreachable under each `forbidden` valuation."""
        g, SRC = self.g, self.SRC
        cons = f'{self.where}::{what}'
        line = self.src_stmt.lineno
        if not any(is_eff(n) for n in g.nodes):
            ctx.bad(rule, cons, missing_msg, self.m.path, line)
        else:
            p = g.path_avoiding(SRC, lambda n: n is g.exit, is_eff, edge_ok=self.under(required))
            if p is not None:
                ctx.bad(rule, cons, f'{skip_msg} (a path to the normal exit via `{p[-2].text() if len(p) > 1 else "?"}` skips `{what}`)', self.m.path, line)
            else:
                ctx.ok(rule, cons, {'tests': sorted(f'{k}@{lab}' for k, lab in self.tests.values())})
        wrong = None
        for val, why in forbidden:
            if g.path_avoiding(SRC, is_eff, lambda n: False, edge_ok=self.under(val)) is not None:
                wrong = why
        ctx.check(wrong is None, rule, cons + '::only when required', f'`{what}` is reachable when {wrong}', self.m.path, line)


def call_pred(recv: Callable[[ast.AST], bool], meth: str, arg: str) -> Callable[[pf.Node], bool]:
    """CFG-node predicate: the node evaluates `<recv>.<meth>(<arg>)`."""
    def pred(n: pf.Node) -> bool:
        for c in pf.node_calls(n):
            if isinstance(c.func, ast.Attribute) and c.func.attr == meth and recv(c.func.value) and len(c.args) == 1 \
                    and isinstance(c.args[0], ast.Name) and c.args[0].id == arg and not c.keywords:
                return True
        return False
    return pred


def _dep_site(ctx: Ctx, m: pf.Module, qual: str) -> None:
    site = RecordingSite(ctx, m, qual)
    S = site.S
    is_add = call_pred(lambda e: _is_attr(e, 'self', DEPS), 'add', S)
    if not any(is_add(n) for n in site.g.nodes):
        other = [c for c in pf.calls_in(site.fn) if isinstance(c.func, ast.Attribute) and c.func.attr in ('add', 'update') and _is_attr(c.func.value, 'self', DEPS)]
        ctx.need(not other, f'{site.where}: `self.{DEPS}` is written in an unrecognised way')
    site.effect(ctx, 'R3', f'self.{DEPS}.add({S})', is_add, {'foreign': True, 'notnone': True},
                [({'foreign': False}, f'`{S}` is the job itself (a self-cycle: every job that mentions its own resource is rejected as cyclic)'),
                 ({'notnone': False}, f'`{S}` is None (an input file has no producing job)')],
                f'the producing job `{S} = {site.R}.source()` is never added to `self.{DEPS}`: a job that consumes another job\'s resource is not ordered after it '
                f'(b reads a.ofile, created in the order b, a => b is numbered and run first)',
                f'with a foreign, non-None source the consumer is not always ordered after the producer')


def _r3(ctx: Ctx) -> None:
    m = pf.load(FJ)
    _dep_site(ctx, m, 'Job._interpolate_command.handler')
    _dep_site(ctx, m, 'PythonJob.call.handle_arg')
    # the python site is applied to every argument and to the result
    call = m.func('PythonJob.call')
    ha = m.func('PythonJob.call.handle_args')
    direct = [c for c in _calls_to(ha, 'handle_arg')]
    ctx.need(len(direct) == 1, f'{FJ}::PythonJob.call.handle_args: expected one call of handle_arg')
    tops = [pf.nsrc(c.args[0]) for c in _calls_to(call, 'handle_args') if len(c.args) == 1]
    va, kw = (call.args.vararg.arg if call.args.vararg else None), (call.args.kwarg.arg if call.args.kwarg else None)
    ctx.check(va in tops and kw in tops, 'R3', f'{FJ}::PythonJob.call::every argument is inspected',
              f'handle_args is applied to {tops}, not to both `{va}` and `{kw}`: a resource passed that way induces no dependency', m.path, call.lineno)

    # depends_on
    dep = m.func('Job.depends_on')
    va = dep.args.vararg.arg if dep.args.vararg else None
    ctx.need(va is not None, f'{FJ}::Job.depends_on: no *jobs parameter')
    ok = False
    for st in _stmts(dep):
        if isinstance(st, ast.For) and isinstance(st.iter, ast.Name) and st.iter.id == va and isinstance(st.target, ast.Name):
            for b in st.body:
                c = _method_call(b, 'add')
                if c is not None and _is_attr(c.func.value, 'self', DEPS) and len(c.args) == 1 and isinstance(c.args[0], ast.Name) and c.args[0].id == st.target.id:  # type: ignore[union-attr]
                    ok = True
        c = _method_call(st, 'update')
        if c is not None and _is_attr(c.func.value, 'self', DEPS) and len(c.args) == 1 and isinstance(c.args[0], ast.Name) and c.args[0].id == va:  # type: ignore[union-attr]
            ok = True
    ctx.check(ok, 'R3', f'{FJ}::Job.depends_on', f'does not add every job in `*{va}` to `self.{DEPS}`: explicit dependencies are lost', m.path, dep.lineno)
    # the set starts empty per job
    init = m.func('Job.__init__')
    inits = [st for st in _stmts(init) if isinstance(st, (ast.Assign, ast.AnnAssign)) and _is_attr(st.targets[0] if isinstance(st, ast.Assign) else st.target, 'self', DEPS)]
    ctx.need(len(inits) == 1 and inits[0].value is not None and pf.nsrc(inits[0].value) == 'set()', f'{FJ}::Job.__init__: `self.{DEPS}` is not initialised to set()')
    ctx.unit('functions', 5)


def run(ctx: Ctx) -> None:
    ctx.level = 'other'
    ctx.explanation = ('CFG dominance and must-pass-through queries on Batch._async_run, LocalBackend._async_run and the two resource-recording sites, '
                       'with the cycle test compared in linear normal form; no repository code is run.')
    ctx.rule('R1', 'Batch._async_run: post-order DFS over _dependencies behind a visited guard, ids = positions, cycle test index(dep) >= index(job) '
                   'raising before (dominating) the backend call, self._jobs rebound to that order; back end iterates it in order', 11)
    ctx.rule('R2', 'LocalBackend: child table inverse of _dependencies, cancel_child_jobs adds exactly not-always-run children and is called on the skipped and '
                   'failed branches, skipped jobs are not run, only cancelled jobs are skipped, run_code reports failures', 12)
    ctx.rule('R3', 'both resource-recording sites add a foreign non-None producer to self._dependencies on every normal path and never otherwise; '
                   'depends_on adds every argument', 6)
    ctx.assume('"transitively depend on a failed or skipped job" is the recursive definition: a non-always-run job is skipped iff one of its direct parents failed or was skipped')
    ctx.assume('subprocess.check_call / run(check=True) raise CalledProcessError exactly when the command exits non-zero')
    _r1(ctx)
    _r2(ctx)
    _r3(ctx)
    ctx.unit('files', 3)
