"""C18 Batch DSL resource plumbing is consistent.

Decides (from the syntax trees of hailtop/batch/{backend,job,resource,batch}.py; nothing is run):
  R1  writer location == reader location in ServiceBackend._async_run: the pair returned by copy_internal_output is
      (local, remote) and the job-resource pair of copy_input is the same two expressions swapped; copy_external_output reads the
      same local expression; a locally staged input is uploaded to the very `dest` it is later downloaded from; the environment
      variable the commands are written against (BATCH_TMPDIR) is the directory of the local side AND is the binding that wins in the
      mapping handed to create_job: the construction of `env=` is followed as an ordered list of entries (dict display with ** parts,
      dict(), `|`, update / setdefault / subscript stores / `if K not in d` on a local of the job loop, expression helpers inlined,
      statement helpers analysed with their parameters substituted) and no mapping the user controls (job._env, which Job.env fills
      with any name) may be merged after the BATCH_TMPDIR entry, nor may that entry be a mere default; `_compile` receives
      (local, remote) in parameter order; every concrete `_get_path(directory)` is `directory + <suffix not mentioning directory>`
      so that `_get_path(d) == d + _get_path('')`
  R2  create_job: parents derive from `job._dependencies` through `_client_job` (written after create_job of the parent),
      input_files from `job._inputs` x copy_input, output_files from `_internal_outputs` x copy_internal_output followed by
      `_external_outputs` x copy_external_output; both recording sites in job.py put a foreign resource in `_inputs`
      and a foreign job resource in the producer's `_internal_outputs`; the collection `parents=` iterates is the job's full
      `_dependencies` (same elements; a filtered / reduced derivative is a violation) and, as a who-may-write rule over every module
      of hailtop/batch, nothing ever removes an element from any job's `_dependencies` (remove / discard / pop / clear / -= / &= /
      difference_update / re-assignment to a possible subset, also through a local alias): monotone between recording and submission
  R3  interpolation: the handler's replacement, with local variables expanded and one-expression helpers inlined, is lexed as ONE bash
      word with a three-state (unquoted / single / double quote) lexer and must be <expansion of BATCH_TMPDIR><path as literal text>:
      shlex.quote of the whole path in unquoted position, or an escaping function (replace chain / translate table / re.sub over a
      character class, composed as a letter-to-string homomorphism) that neutralises every character still special in the quoting
      state the path is inserted in (dollar, back-tick, backslash and double quote inside double quotes) without mangling ordinary ones, quotes balanced at the end; it
      raises for unknown uids, is applied by one re.sub over the union of the resource patterns to the given command, whose result is
      what `command()` stores
  R4  distinctness: uid allocators return prefix + str(counter) and bump the counter on every call; allocation sites name the
      class that owns the counter; uid prefixes are prefix-free; patterns are built from the prefix; resources are registered and
      looked up under `_uid`, which is what `str(resource)` yields; job-output paths are functions of (job directory, value);
      per job one resource per value; the per-batch job-directory token allocator records the tokens it hands out
Does not decide: quoting inside the generated python3 -c wrapper of PythonJob; history expansion (`!`, off in `bash -c`); collisions created by renaming a resource after creation
(`add_extension`) or by resource-group member names chosen by the user; random-name collisions of input files.
"""
from __future__ import annotations

import ast
from typing import Dict, List, Optional, Tuple

from engines import c1819facts as facts, linform, pyfacts as pf, strparts
from engines.common import AnalysisError, Ctx
from rules.c17 import RecordingSite, call_pred, _is_attr, _nested_defs, _node, _stmts, _inside

META = dict(
    category='other',
    text='Sibling agreement between the writer and reader path expressions of the service back end, def-use of the create_job arguments, '
         'must-pass-through of the resource recording effects on the CFG of both recording sites, and structural checks of the uid / token '
         'allocators. Necessary conditions only: the property itself quantifies over all pipelines and runtime path strings.',
    note='Trusted: CPython ast; engines/pyfacts CFG; str concatenation / f-string semantics; re.sub replaces exactly the matches; '
         'bash word lexing rules (quote removal, backslash inside double quotes only before $ ` " \\ newline). Not decided: renaming after creation (add_extension), user-chosen resource-group file names.',
    technique='static analysis: sibling agreement of normalised path expressions, def-use, CFG must-pass-through, who-may-write over a set attribute, '
              'shell-word lexing of the literal replacement with escape helpers as letter-to-string homomorphisms over a finite character-class table',
    design_ref='DESIGN.md §3 C18',
)

FK = 'hail/python/hailtop/batch/backend.py'
FJ = 'hail/python/hailtop/batch/job.py'
FR = 'hail/python/hailtop/batch/resource.py'
FB = 'hail/python/hailtop/batch/batch.py'

Part = Tuple[str, str]
_parts = strparts.parts


def _single_return(ctx: Ctx, fn: pf.FuncDef, where: str, outside: Optional[ast.AST] = None) -> ast.Return:
    rets = [st for st in _stmts(fn) if isinstance(st, ast.Return) and (outside is None or not _inside(outside, st))]
    ctx.need(len(rets) == 1, f'{where}: expected exactly one return{" outside the input-file branch" if outside is not None else ""}, found {len(rets)}')
    return rets[0]


def _pair(ctx: Ctx, ret: ast.Return, where: str) -> Tuple[ast.AST, ast.AST]:
    v = ret.value
    ctx.need(isinstance(v, ast.List) and len(v.elts) == 1 and isinstance(v.elts[0], ast.Tuple) and len(v.elts[0].elts) == 2,
             f'{where}: `{pf.nsrc(ret)}` is not a one-element list of (source, destination)')
    return v.elts[0].elts[0], v.elts[0].elts[1]  # type: ignore[union-attr]


def _get_path_arg(e: ast.AST, r: str, fn: Optional[pf.FuncDef] = None) -> Optional[str]:
    """`<r>._get_path(<name or dotted name>)` -> its source text (local aliases of the call and of its argument's value are followed; the directory
    variables themselves are parameters / closure variables of the copy helper and stay names)."""
    if fn is not None:
        e = facts.expand_locals_except(fn, e, stop={r})
    if isinstance(e, ast.Call) and isinstance(e.func, ast.Attribute) and e.func.attr == '_get_path' and isinstance(e.func.value, ast.Name) \
            and e.func.value.id == r and len(e.args) + len(e.keywords) == 1 and all(k.arg is not None for k in e.keywords):
        a0 = e.args[0] if e.args else e.keywords[0].value
        if pf.dotted(a0) is not None:
            return pf.dotted(a0)
    return None


def _type_leafs(e: ast.AST) -> Optional[set]:
    if isinstance(e, ast.Tuple):
        out: set = set()
        for x in e.elts:
            r = _type_leafs(x)
            if r is None:
                return None
            out |= r
        return out
    d = pf.dotted(e)
    return {d.split('.')[-1]} if d is not None else None


def _class_value(t: ast.AST, r: str, is_input: bool) -> Optional[bool]:
    """Three-valued value of a test for a resource `r` that is (is not) an InputResourceFile; the resources that reach the copy helpers are input files,
    job resource files and python results.  Anything that is not an isinstance test of `r` is unknown."""
    if isinstance(t, ast.UnaryOp) and isinstance(t.op, ast.Not):
        v = _class_value(t.operand, r, is_input)
        return None if v is None else not v
    if isinstance(t, ast.BoolOp):
        vs = [_class_value(x, r, is_input) for x in t.values]
        if isinstance(t.op, ast.And):
            return False if any(v is False for v in vs) else (True if all(v is True for v in vs) else None)
        return True if any(v is True for v in vs) else (False if all(v is False for v in vs) else None)
    if isinstance(t, ast.Call) and pf.dotted(t.func) == 'isinstance' and len(t.args) == 2 and not t.keywords and isinstance(t.args[0], ast.Name) and t.args[0].id == r:
        names = _type_leafs(t.args[1])
        if not names:
            return None
        if names == {'InputResourceFile'}:
            return is_input
        if 'InputResourceFile' in names:
            return True if is_input else None
        if names <= {'JobResourceFile', 'PythonResult'}:
            return False if is_input else None
    return None


def _classified_returns(ctx: Ctx, f: pf.FuncDef, where: str) -> Dict[str, List[Tuple[ast.Return, List[pf.Node]]]]:
    """The returns of a copy helper `f(r)` by the class of resource that can reach them: {'input': [...], 'job': [...]}, each with the CFG nodes of one
    path to it.  All acyclic entry -> return paths are enumerated; a path is feasible for a class when no isinstance test of `r` on it (Boolean locals
    expanded, not / and / or evaluated three-valued) contradicts the edge taken.  Nested ifs, guard clauses and elif chains are the same thing here."""
    from rules.c17 import _expand_flags
    r = f.args.args[0].arg
    ctx.need(len(pf.assignments(f).get(r, [])) == 1, f'{where}: the parameter `{r}` is re-assigned')
    g = pf.cfg(f)
    paths: List[List[Tuple[pf.Node, str]]] = []

    def dfs(n: pf.Node, acc: List[Tuple[pf.Node, str]], seen: set) -> None:
        ctx.need(len(paths) <= 64, f'{where}: too many paths')
        if n.kind == 'return':
            paths.append(acc + [(n, '')])
            return
        for nxt, lab in n.succ:
            if lab == 'exc' or nxt is g.raise_exit or nxt.kind == 'raise' or nxt is g.exit:
                continue
            ctx.need(nxt.id not in seen, f'{where}: loop in the copy helper (not analysed)')
            dfs(nxt, acc + [(n, lab)], seen | {nxt.id})
    dfs(g.entry, [], {g.entry.id})
    out: Dict[str, List[Tuple[ast.Return, List[pf.Node]]]] = {'input': [], 'job': []}
    for path in paths:
        for cls_, is_input in (('input', True), ('job', False)):
            ok = True
            for n, lab in path:
                tst = n.ast if (n.kind == 'test' and lab in ('T', 'F')) else (n.ast.test if (n.kind == 'stmt' and isinstance(n.ast, ast.Assert)) else None)
                if tst is None:
                    continue
                v = _class_value(_expand_flags(f, tst, {r}), r, is_input)
                want = (lab == 'T') if n.kind == 'test' else True
                if v is not None and v != want:
                    ok = False
            if ok:
                out[cls_].append((path[-1][0].ast, [n for n, _ in path]))  # type: ignore[arg-type]
    return out


def _one_return(ctx: Ctx, rets: List[Tuple[ast.Return, List[pf.Node]]], where: str, what: str) -> Tuple[ast.Return, List[pf.Node]]:
    distinct = []
    for r_, p_ in rets:
        if not any(r_ is d for d, _ in distinct):
            distinct.append((r_, p_))
    ctx.need(len(distinct) == 1, f'{where}: expected exactly one return for {what}, found {len(distinct)}')
    return distinct[0]


def _same_value(f: pf.FuncDef, a: ast.AST, b: ast.AST) -> Optional[bool]:
    """Do the two expressions of function f denote the same VALUE?  Single-definition locals are replaced by their definition as long as that definition is
    pure (names, attributes, constants, string building, `_get_path` of such - no other call, whose two evaluations could differ); a local bound to an impure
    expression (`uuid4()`) stays a name: one evaluation, one value.  True / False by the resulting text; None when an expression itself contains an impure call."""
    import copy
    ra, rb = pf.resolve_expr(f, a, depth=4), pf.resolve_expr(f, b, depth=4)
    if ra is rb:
        return True
    asg = pf.assignments(f)
    params = {x.arg for x in f.args.posonlyargs + f.args.args + f.args.kwonlyargs}

    def pure(e: ast.AST) -> bool:
        for x in ast.walk(e):
            if isinstance(x, ast.Call) and not (isinstance(x.func, ast.Attribute) and x.func.attr == '_get_path') and not (isinstance(x.func, ast.Name) and x.func.id == 'str'):
                return False
            if isinstance(x, (ast.Await, ast.Yield, ast.YieldFrom, ast.Lambda, ast.NamedExpr)):
                return False
            if isinstance(x, ast.Name) and len(asg.get(x.id, [])) > 1:
                return False
        return True

    def expand(e: ast.AST, depth: int = 4) -> ast.AST:
        class _S(ast.NodeTransformer):
            def visit_Name(self, node: ast.Name):
                if isinstance(node.ctx, ast.Load) and node.id not in params and depth > 0:
                    dd = pf.single_def(f, node.id)
                    if isinstance(dd, ast.expr):
                        x = expand(dd, depth - 1)
                        if pure(x):
                            return x
                return node

            def visit_Lambda(self, node):
                return node
        return _S().visit(copy.deepcopy(e))
    ea, eb = expand(a), expand(b)
    if pure(ea) and pure(eb):
        return pf.nsrc(ea) == pf.nsrc(eb)
    return None


# ------------------------------------------------------------------------------------------------
# R1 / R2: the service back end
# ------------------------------------------------------------------------------------------------

def _service(ctx: Ctx) -> None:
    m = pf.load(FK)
    fn = m.func('ServiceBackend._async_run')
    where = f'{FK}::ServiceBackend._async_run'
    defs = {d.name: d for d in _nested_defs(fn)}
    for name in ('copy_input', 'copy_internal_output', 'copy_external_output'):
        ctx.need(name in defs and len(defs[name].args.args) == 1, f'{where}: nested {name}(r) not found')

    # writer
    w = defs['copy_internal_output']
    wr = w.args.args[0].arg
    w_ret, _ = _one_return(ctx, _classified_returns(ctx, w, f'{where}.copy_internal_output')['job'], f'{where}.copy_internal_output', 'a job resource')
    w_src, w_dst = _pair(ctx, w_ret, f'{where}.copy_internal_output')
    w_local, w_remote = _get_path_arg(w_src, wr, w), _get_path_arg(w_dst, wr, w)
    ctx.need(w_local is not None and w_remote is not None, f'{where}.copy_internal_output: pair is not (r._get_path(<dir>), r._get_path(<dir>))')
    # reader
    rd = defs['copy_input']
    rr = rd.args.args[0].arg
    rcls = _classified_returns(ctx, rd, f'{where}.copy_input')
    ctx.need(bool(rcls['input']) and bool(rcls['job']) and not any(a_ is b_ for a_, _ in rcls['input'] for b_, _ in rcls['job']),
             f'{where}.copy_input: no isinstance(r, InputResourceFile) branch')
    r_ret, _ = _one_return(ctx, rcls['job'], f'{where}.copy_input', 'a job resource')
    r_src, r_dst = _pair(ctx, r_ret, f'{where}.copy_input')
    r_remote, r_local = _get_path_arg(r_src, rr, rd), _get_path_arg(r_dst, rr, rd)
    ctx.need(r_local is not None and r_remote is not None, f'{where}.copy_input: job-resource pair is not (r._get_path(<dir>), r._get_path(<dir>))')
    for v in {w_local, w_remote, r_local, r_remote}:
        if '.' in v:  # type: ignore[operator]
            continue
        ctx.need(len(pf.assignments(fn).get(v, [])) == 1, f'{where}: directory variable `{v}` is not assigned exactly once')  # type: ignore[arg-type]
        for d in defs.values():
            ctx.need(v not in pf.assignments(d), f'{where}.{d.name}: shadows `{v}`')
    ctx.need(w_local != w_remote, f'{where}.copy_internal_output: source and destination are the same directory')
    ctx.check(w_remote == r_remote, 'R1', f'{where}::upload destination == download source',
              f'copy_internal_output uploads a job resource to `r._get_path({w_remote})` but copy_input downloads it from `r._get_path({r_remote})`: '
              f'the consumer of j.ofile fetches a location the producer never wrote', m.path, rd.lineno)
    ctx.check(w_local == r_local, 'R1', f'{where}::local side of upload == local side of download',
              f'the producer uploads from `r._get_path({w_local})` but the consumer downloads to `r._get_path({r_local})`', m.path, rd.lineno)
    local, remote = w_local, w_remote

    # external outputs read the same local path
    x = defs['copy_external_output']
    xr = x.args.args[0].arg
    xret, _ = _one_return(ctx, _classified_returns(ctx, x, f'{where}.copy_external_output')['job'], f'{where}.copy_external_output', 'a job resource')
    xv = pf.resolve_expr(x, xret.value) if xret.value is not None else None
    ctx.need(isinstance(xv, ast.ListComp) and isinstance(xv.elt, ast.Tuple) and len(xv.elt.elts) == 2 and len(xv.generators) == 1,
             f'{where}.copy_external_output: return is not a list comprehension of pairs')
    gen = xv.generators[0]  # type: ignore[union-attr]
    x_local = _get_path_arg(xv.elt.elts[0], xr, x)  # type: ignore[union-attr]
    ctx.need(x_local is not None, f'{where}.copy_external_output: source `{pf.nsrc(xv.elt.elts[0])}` is not r._get_path(<dir>) (not analysed)')  # type: ignore[union-attr]
    dst_ok = isinstance(xv.elt.elts[1], ast.Name) and isinstance(gen.target, ast.Name) and xv.elt.elts[1].id == gen.target.id and _is_attr(gen.iter, xr, '_output_paths') and not gen.ifs  # type: ignore[union-attr]
    ctx.need(isinstance(gen.target, ast.Name) and isinstance(gen.iter, ast.Attribute) and isinstance(gen.iter.value, ast.Name) and gen.iter.value.id == xr  # type: ignore[union-attr]
             and isinstance(xv.elt.elts[1], ast.Name), f'{where}.copy_external_output: `{pf.nsrc(xv)[:100]}` not recognised')  # type: ignore[union-attr]
    ctx.check(x_local == local and dst_ok, 'R1', f'{where}::external output read from the local path',
              f'copy_external_output yields `{pf.nsrc(xv.elt)}` over `{pf.nsrc(gen.iter)}`; expected (r._get_path({local}), dest) for every dest in r._output_paths',  # type: ignore[union-attr]
              m.path, xret.lineno)

    # locally staged input: uploaded to the dest it is downloaded from
    ups = [c for c in pf.calls_in(rd) if isinstance(c.func, ast.Attribute) and c.func.attr == 'append' and len(c.args) == 1 and isinstance(pf.resolve_expr(rd, c.args[0]), ast.Dict)]
    ctx.need(len(ups) == 1, f'{where}.copy_input: transfer record not found')
    UP = pf.cfg(rd).node_of(ups[0])
    ctx.need(len(UP) == 1, f'{where}.copy_input: transfer record node')
    staged = [(r_, p_) for r_, p_ in rcls['input'] if any(n is UP[0] for n in p_)]
    direct = [(r_, p_) for r_, p_ in rcls['input'] if not any(n is UP[0] for n in p_)]
    stage_ret, _ = _one_return(ctx, staged, f'{where}.copy_input', 'a locally staged input file')
    s_src, s_dst = _pair(ctx, stage_ret, f'{where}.copy_input')
    recd = pf.resolve_expr(rd, ups[0].args[0])
    rec = {pf.const_str(k): v for k, v in zip(recd.keys, recd.values) if k is not None}  # type: ignore[union-attr]
    ctx.need('from' in rec and 'to' in rec, f'{where}.copy_input: transfer record has no from/to')
    same_to = _same_value(rd, rec['to'], s_src)
    from_x = facts.expand_locals_except(rd, rec['from'], stop={rr})
    ssrc_x = facts.expand_locals_except(rd, s_src, stop={rr})
    ctx.need(same_to is not None, f'{where}.copy_input: whether the upload target `{pf.nsrc(rec["to"])}` is the download source `{pf.nsrc(s_src)}` is not decided')
    ctx.need(_is_attr(from_x, rr, '_input_path') or isinstance(from_x, (ast.Attribute, ast.Call, ast.Name)), f'{where}.copy_input: upload source `{pf.nsrc(rec["from"])}` not recognised')
    to_ok = same_to and _is_attr(from_x, rr, '_input_path') and not _is_attr(ssrc_x, rr, '_input_path')
    st_local = _get_path_arg(s_dst, rr, rd)
    ctx.need(st_local is not None, f'{where}.copy_input: download destination `{pf.nsrc(s_dst)}` of a staged input is not r._get_path(<dir>) (not analysed)')
    ctx.check(to_ok and st_local == local, 'R1', f'{where}.copy_input::staged input',
              f'a local input file is uploaded `{pf.nsrc(recd)}` but the job downloads `{pf.nsrc(stage_ret.value)}`: upload target and download source differ '
              f'or the local side is not r._get_path({local})', m.path, stage_ret.lineno)
    ctx.need(isinstance(ups[0].func.value, ast.Name), f'{where}.copy_input: the transfer record is not appended to a local list')  # type: ignore[attr-defined]
    tlist = ups[0].func.value.id  # type: ignore[attr-defined]
    reads = [c for c in pf.calls_in(fn, into_nested_defs=True) if c is not ups[0]
             and any(isinstance(a_, ast.Name) and a_.id == tlist for a_ in list(c.args) + [k.value for k in c.keywords])]
    flush = [c for c in reads if (pf.dotted(c.func) or '').split('.')[-1] == 'copy_from_dict']
    other_uses = [n for n in pf.walk_shallow(fn, into_nested_defs=True) if isinstance(n, ast.Name) and n.id == tlist and isinstance(n.ctx, ast.Load) and n is not ups[0].func.value  # type: ignore[attr-defined]
                  and not any(n is a_ for c in flush for a_ in list(c.args) + [k.value for k in c.keywords])]
    # evidence for "never uploaded": the list is only ever appended to / tested; any other reader that is not copy_from_dict is not decided
    par_fn = {c: p_ for p_ in ast.walk(fn) for c in ast.iter_child_nodes(p_)}
    passive = all(isinstance(par_fn.get(n), (ast.If, ast.While, ast.BoolOp, ast.UnaryOp, ast.Compare, ast.Assert, ast.IfExp)) or
                  (isinstance(par_fn.get(n), ast.Call) and pf.dotted(par_fn[n].func) in ('len', 'bool')) for n in other_uses)
    ctx.need(bool(flush) or passive, f'{where}: `{tlist}` is read by `{pf.nsrc(par_fn.get(other_uses[0]))[:80] if other_uses else ""}` (not recognised as the upload)')
    ctx.check(len(flush) >= 1, 'R1', f'{where}::staged inputs are uploaded', f'`{tlist}` is never passed to copy_from_dict(files=...): staged inputs are not uploaded', m.path, fn.lineno)
    # other input-file branch: remote inputs are read in place to the local path
    in_ret, _ = _one_return(ctx, direct, f'{where}.copy_input', 'a remote input file')
    a, b = _pair(ctx, in_ret, f'{where}.copy_input')
    a_x = facts.expand_locals_except(rd, a, stop={rr})
    b_dir = _get_path_arg(b, rr, rd)
    ctx.need(b_dir is not None and (_is_attr(a_x, rr, '_input_path') or _get_path_arg(a, rr, rd) is not None or (isinstance(a_x, ast.Attribute) and isinstance(a_x.value, ast.Name))),
             f'{where}.copy_input: `{pf.nsrc(in_ret)}` not recognised')
    ctx.check(_is_attr(a_x, rr, '_input_path') and b_dir == local, 'R1', f'{where}.copy_input::remote input',
              f'`{pf.nsrc(in_ret)}` is not (r._input_path, r._get_path({local}))', m.path, in_ret.lineno)

    # ---- the job loop
    creates = [c for c in pf.calls_in(fn) if isinstance(c.func, ast.Attribute) and c.func.attr == 'create_job' and any(k.arg == 'parents' for k in c.keywords)
               and any(k.arg == 'input_files' for k in c.keywords)]
    ctx.need(len(creates) == 1, f'{where}: expected one create_job(..., parents=, input_files=, ...) call')
    cj = creates[0]
    loops = [st for st in _stmts(fn) if isinstance(st, ast.For) and _inside(st, cj) and isinstance(st.target, ast.Name)]
    ctx.need(len(loops) == 1, f'{where}: create_job is not in a single job loop')
    loop = loops[0]
    jv = loop.target.id  # type: ignore[attr-defined]
    g = pf.cfg(fn)
    CJ = g.node_of(cj)
    ctx.need(len(CJ) == 1, f'{where}: create_job node')
    kw = {k.arg: k.value for k in cj.keywords if k.arg}

    body_defs: Dict[str, List[ast.stmt]] = {}
    for st in _stmts(loop):
        if isinstance(st, (ast.Assign, ast.AugAssign, ast.AnnAssign)):
            t = st.targets[0] if isinstance(st, ast.Assign) else st.target
            if isinstance(t, ast.Name):
                body_defs.setdefault(t.id, []).append(st)
        elif isinstance(st, ast.Expr) and isinstance(st.value, ast.Call) and isinstance(st.value.func, ast.Attribute) and isinstance(st.value.func.value, ast.Name):
            c = st.value
            if c.func.attr == 'extend' and len(c.args) == 1:  # type: ignore[attr-defined]
                aug = ast.AugAssign(target=ast.Name(c.func.value.id, ast.Store()), op=ast.Add(), value=c.args[0])  # type: ignore[attr-defined]
                ast.copy_location(aug, st)
                aug._orig = st  # type: ignore[attr-defined]
                body_defs.setdefault(c.func.value.id, []).append(aug)  # type: ignore[attr-defined]
            elif c.func.attr in ('append', 'insert', 'remove', 'pop', 'clear', 'sort', 'reverse'):  # type: ignore[attr-defined]
                body_defs.setdefault(c.func.value.id, []).append(st)  # type: ignore[attr-defined]

    def unwrap_opt(e: ast.AST) -> ast.AST:
        # `x if len(x) > 0 else None` / `x or None` -> x
        if isinstance(e, ast.IfExp) and isinstance(e.orelse, ast.Constant) and e.orelse.value is None and isinstance(e.body, ast.Name) \
                and e.body.id in pf.names_in(e.test):
            return e.body
        if isinstance(e, ast.BoolOp) and isinstance(e.op, ast.Or) and len(e.values) == 2 and isinstance(e.values[1], ast.Constant) and e.values[1].value is None:
            return e.values[0]
        return e

    def inner_loop(st: ast.AST) -> Optional[ast.For]:
        """The `for <r> in <job>.<attr>:` loop (directly in the job loop's straight-line code, unfiltered) that a statement is the body of."""
        o = getattr(st, '_orig', st)
        for lp in _stmts(loop):
            if isinstance(lp, ast.For) and not lp.orelse and len(lp.body) == 1 and lp.body[0] is o and isinstance(lp.target, ast.Name) \
                    and isinstance(lp.iter, ast.Attribute) and isinstance(lp.iter.value, ast.Name) and lp.iter.value.id == jv:
                return lp
        return None

    def defs_of(name: str) -> List[ast.stmt]:
        ds = body_defs.get(name, [])
        for st in ds:
            anchor = inner_loop(st) or getattr(st, '_orig', st)
            n = [x for x in g.nodes if x.ast is anchor]
            ctx.need(len(n) == 1 and g.dominated_by(CJ[0], lambda y, n0=n[0]: y is n0), f'{where}: definition `{pf.nsrc(st)}` does not dominate create_job')
        return ds

    def flat_sources(ds: List[ast.stmt]) -> Optional[List[Tuple[str, str]]]:
        """The (attribute of the job, copy helper) pairs a file list is the concatenation of - comprehension, `+=` / extend of a comprehension, or a plain loop
        `for r in job.<attr>: lst.extend(helper(r))` / `lst += helper(r)`; None when a definition is not one of these."""
        out: List[Tuple[str, str]] = []
        for d in ds:
            v = d.value if isinstance(d, (ast.Assign, ast.AugAssign, ast.AnnAssign)) else None
            if v is None or (isinstance(d, ast.AugAssign) and not isinstance(d.op, ast.Add)):
                return None
            if isinstance(d, (ast.Assign, ast.AnnAssign)) and ((isinstance(v, ast.List) and not v.elts) or pf.nsrc(v) == 'list()'):
                out = []      # (re-)initialised: whatever was collected before is gone
                continue
            if isinstance(v, ast.ListComp) and len(v.generators) == 2 and isinstance(v.elt, ast.Name):
                g1, g2 = v.generators
                if not g1.ifs and not g2.ifs and isinstance(g1.target, ast.Name) and isinstance(g1.iter, ast.Attribute) and isinstance(g1.iter.value, ast.Name) and g1.iter.value.id == jv \
                        and isinstance(g2.iter, ast.Call) and isinstance(g2.iter.func, ast.Name) and [pf.nsrc(a_) for a_ in g2.iter.args] == [g1.target.id] and not g2.iter.keywords \
                        and isinstance(g2.target, ast.Name) and g2.target.id == v.elt.id:
                    if isinstance(d, (ast.Assign, ast.AnnAssign)):
                        out = []      # a plain assignment replaces what was collected before
                    out.append((g1.iter.attr, g2.iter.func.id))
                    continue
                return None
            lp = inner_loop(d)
            if lp is not None and isinstance(d, ast.AugAssign) and isinstance(v, ast.Call) and isinstance(v.func, ast.Name) and [pf.nsrc(a_) for a_ in v.args] == [lp.target.id] and not v.keywords:  # type: ignore[attr-defined]
                out.append((lp.iter.attr, v.func.id))  # type: ignore[attr-defined]
                continue
            return None
        return out

    # inputs
    iv = unwrap_opt(kw['input_files'])
    ctx.need(isinstance(iv, ast.Name), f'{where}: input_files=`{pf.nsrc(kw["input_files"])}` not recognised')
    ds = defs_of(iv.id)  # type: ignore[union-attr]
    srcs_in = flat_sources(ds)
    ctx.need(srcs_in is not None, f'{where}: input_files is built by {[pf.nsrc(d)[:80] for d in ds]} (not recognised)')
    ctx.check(srcs_in == [('_inputs', 'copy_input')], 'R2', f'{where}::input_files', f'input_files is built by {[pf.nsrc(d) for d in ds]} = {srcs_in}; expected copy_input(r) for every r in '
              f'{jv}._inputs: a consumed resource is not downloaded into the job', m.path, cj.lineno)
    # outputs
    ov = unwrap_opt(kw.get('output_files', ast.Constant(None)))
    ctx.need(isinstance(ov, ast.Name), f'{where}: output_files not recognised')
    ds = defs_of(ov.id)  # type: ignore[union-attr]
    srcs_out = flat_sources(ds)
    ctx.need(srcs_out is not None, f'{where}: output_files is built by {[pf.nsrc(d)[:80] for d in ds]} (not recognised)')
    ctx.check(sorted(srcs_out) == [('_external_outputs', 'copy_external_output'), ('_internal_outputs', 'copy_internal_output')], 'R2', f'{where}::output_files',  # type: ignore[arg-type]
              f'output_files is built by {[pf.nsrc(d) for d in ds]} = {srcs_out}; expected copy_internal_output over {jv}._internal_outputs and copy_external_output over '
              f'{jv}._external_outputs: a resource another job reads is never uploaded', m.path, cj.lineno)
    # parents
    pe = kw['parents']
    chain: List[str] = []
    cur: ast.AST = pe
    for _ in range(8):
        if isinstance(cur, ast.Name) and cur.id in body_defs:
            d = defs_of(cur.id)
            ctx.need(len(d) == 1 and isinstance(d[0], ast.Assign), f'{where}: `{cur.id}` has several definitions')
            cur = d[0].value  # type: ignore[attr-defined]
            continue
        if isinstance(cur, (ast.ListComp, ast.GeneratorExp)) and len(cur.generators) == 1 and not cur.generators[0].ifs and isinstance(cur.generators[0].target, ast.Name) \
                and isinstance(cur.elt, ast.Attribute) and (pf.dotted(cur.elt) or '').split('.')[0] == cur.generators[0].target.id:
            chain += list(reversed((pf.dotted(cur.elt) or '').split('.')[1:]))     # `j._client_job._async_job`: outermost projection first
            cur = cur.generators[0].iter
            continue
        if chain and isinstance(cur, ast.Call) and isinstance(cur.func, ast.Name) and cur.func.id in ('sorted', 'list', 'tuple') and len(cur.args) == 1 \
                and all(k.arg in ('key', 'reverse') for k in cur.keywords):
            cur = cur.args[0]  # a re-ordering of the parents: same elements
            continue
        break
    # the iterated collection must be the job's full dependency set, not a filtered / reduced derivative of it
    rel = facts.derive(cur, lambda x: _is_attr(x, jv, '_dependencies'))
    empty = (isinstance(cur, ast.Constant) and cur.value is None) or (isinstance(cur, ast.List) and not cur.elts)
    base_ok = rel == 'same'
    ctx.need(rel in ('same', 'subset') or empty or isinstance(cur, (ast.Attribute, ast.Name)), f'{where}: parents=`{pf.nsrc(pe)}` not recognised')
    reduced = f' (the iterated collection is a filtered / reduced derivative that can lack elements of {jv}._dependencies; e.g. {_DEP_STORY})' if rel == 'subset' else ''
    ctx.check(base_ok and chain == ['_async_job', '_client_job'], 'R2', f'{where}::parents',
              f'parents resolves to the projection {list(reversed(chain))} of `{pf.nsrc(cur)}`; expected `._client_job._async_job` of every job in {jv}._dependencies: '
              f'the consumer is not submitted as a child of the producer and may start before the upload{reduced}', m.path, cj.lineno)
    res = [t.id for st in _stmts(loop) if isinstance(st, (ast.Assign, ast.AnnAssign)) and st.value is cj
           for t in (st.targets if isinstance(st, ast.Assign) else [st.target]) if isinstance(t, ast.Name)]
    ctx.need(len(res) == 1, f'{where}: create_job result is not bound to a name')
    marks = [st for st in _stmts(loop) if isinstance(st, ast.Assign) and len(st.targets) == 1 and _is_attr(st.targets[0], jv, '_client_job')]
    L = _node(g, loop, 'job loop')
    if not marks:
        # evidence for "never recorded": nothing after create_job could store it (no setattr, no call that receives both the job and the created job)
        hidden = [c for c in pf.calls_in(loop) if (pf.dotted(c.func) == 'setattr' or
                                                   {jv, res[0]} <= {a_.id for a_ in list(c.args) + [k.value for k in c.keywords] if isinstance(a_, ast.Name)} or
                                                   (isinstance(c.func, ast.Attribute) and isinstance(c.func.value, ast.Name) and c.func.value.id == jv
                                                    and any(isinstance(a_, ast.Name) and a_.id == res[0] for a_ in list(c.args) + [k.value for k in c.keywords])))]
        ctx.need(not hidden, f'{where}: `{jv}._client_job` is not assigned in the loop, but `{pf.nsrc(hidden[0])[:80] if hidden else ""}` may record the created job (not analysed)')
        mk_ok = False
    else:
        ctx.need(len(marks) == 1, f'{where}: `{jv}._client_job` is assigned {len(marks)} times in the job loop')
        mv = facts.expand_locals_except(fn, marks[0].value, stop={res[0], jv}, depth=3)
        wraps = isinstance(mv, ast.Call) and len(mv.args) + len(mv.keywords) == 1 and pf.nsrc(mv.args[0] if mv.args else mv.keywords[0].value) == res[0]
        ctx.need(wraps or (isinstance(mv, ast.Call) and res[0] not in pf.names_in(mv)) or isinstance(mv, (ast.Constant, ast.Name, ast.Attribute)),
                 f'{where}: `{pf.nsrc(marks[0])}` not recognised')
        mk_ok = bool(wraps)
        if mk_ok:
            MK = _node(g, marks[0], 'client job mark')
            # every iteration that created a job records it before the next iteration
            p = g.path_avoiding(CJ[0], lambda n: n is L, lambda n: n is MK)
            mk_ok = p is None
    ctx.check(mk_ok, 'R2', f'{where}::{jv}._client_job = Job(<created>)', f'the created job is not recorded in `{jv}._client_job` before the next job is built '
              f'({[pf.nsrc(x) for x in marks]}): children cannot name it as a parent', m.path, cj.lineno)

    # env / BATCH_TMPDIR and _compile argument order
    _tmpdir_env(ctx, m, fn, where, defs, loop, jv, cj, kw, local)
    comp = [c for c in pf.calls_in(fn, into_nested_defs=True) if isinstance(c.func, ast.Attribute) and c.func.attr == '_compile']
    ctx.need(len(comp) == 1, f'{where}: expected one _compile call')
    mj = pf.load(FJ)
    sigs = []
    for q in ('Job._compile', 'BashJob._compile', 'PythonJob._compile'):
        sigs.append([a.arg for a in mj.func(q).args.args][1:3])
    ctx.need(all(s == sigs[0] for s in sigs) and len(sigs[0]) == 2, f'{FJ}: _compile signatures differ: {sigs}')
    role = {'local_tmpdir': local, 'remote_tmpdir': remote}
    ctx.need(set(sigs[0]) == set(role), f'{FJ}: _compile parameters are {sigs[0]}, expected local_tmpdir/remote_tmpdir')
    cb = _bind_call(mj.func('Job._compile'), comp[0], True)
    ctx.need(cb is not None and all(p_ in cb for p_ in sigs[0]), f'{where}: arguments of `{pf.nsrc(comp[0])[:100]}` do not bind to {sigs[0]}')
    cfn = m.enclosing_func(comp[0]) or fn
    got = [pf.nsrc(facts.expand_locals_except(cfn, cb[p_], stop={local, remote}, depth=3)) for p_ in sigs[0]]  # type: ignore[index]
    ctx.need(all(x in (local, remote) for x in got), f'{where}: `{pf.nsrc(comp[0])[:100]}` passes {got} for {sigs[0]} (not analysed)')
    ctx.check(got == [role[p] for p in sigs[0]], 'R1', f'{where}::_compile(local, remote)',
              f'`{pf.nsrc(comp[0])}` passes {got} for parameters {sigs[0]}: code and argument files are written under one directory and read from the other',
              m.path, comp[0].lineno)
    ctx.unit('functions', 5)


TMPVAR = 'BATCH_TMPDIR'


def _preceding_in_loop(loop: ast.AST, stmt: ast.stmt) -> Optional[List[ast.stmt]]:
    """The statements of one loop iteration that are executed before `stmt` whenever `stmt` is reached: its earlier siblings and the earlier
    siblings of every compound statement around it, outermost first.  None if stmt is not inside the loop."""
    par: Dict[ast.AST, Tuple[ast.AST, List[ast.stmt]]] = {}
    for p in ast.walk(loop):
        for fld in ('body', 'orelse', 'finalbody'):
            blk = getattr(p, fld, None)
            if isinstance(blk, list):
                for c in blk:
                    if isinstance(c, ast.stmt):
                        par[c] = (p, blk)
        for h in getattr(p, 'handlers', []) or []:
            for c in h.body:
                par[c] = (p, h.body)
    out: List[List[ast.stmt]] = []
    cur: ast.AST = stmt
    while cur is not loop:
        if cur not in par:
            return None
        p, blk = par[cur]
        i = [k for k, x in enumerate(blk) if x is cur][0]
        out.append(blk[:i])
        cur = p
    return [st for blk in reversed(out) for st in blk]


def _bind_call(f: ast.FunctionDef, call: ast.Call, drop_first: bool) -> Optional[Dict[str, ast.expr]]:
    a = f.args
    if a.vararg or a.kwarg or a.posonlyargs or any(isinstance(x, ast.Starred) for x in call.args) or any(k.arg is None for k in call.keywords):
        return None
    pos = [x.arg for x in a.args][1 if drop_first else 0:]
    names = pos + [x.arg for x in a.kwonlyargs]
    if len(call.args) > len(pos):
        return None
    bound: Dict[str, ast.expr] = dict(zip(pos, call.args))
    for k in call.keywords:
        if k.arg in bound or k.arg not in names:
            return None
        bound[k.arg] = k.value  # type: ignore[index]
    for p_, d in list(zip(pos[len(pos) - len(a.defaults):], a.defaults)) + [(x.arg, d) for x, d in zip(a.kwonlyargs, a.kw_defaults) if d is not None]:
        bound.setdefault(p_, d)
    return bound if all(n in bound for n in names) else None


def _subst(e: ast.AST, bound: Dict[str, ast.expr]) -> ast.AST:
    import copy

    class _S(ast.NodeTransformer):
        def visit_Name(self, n: ast.Name):
            if isinstance(n.ctx, ast.Load) and n.id in bound:
                return copy.deepcopy(bound[n.id])
            return n

        def visit_Lambda(self, n):
            return n
    return _S().visit(copy.deepcopy(e))


def _tmpdir_env(ctx: Ctx, m: pf.Module, fn: pf.FuncDef, where: str, nested: Dict[str, pf.FuncDef], loop: ast.For, jv: str, cj: ast.Call,
                kw: Dict[str, ast.expr], local: str) -> None:
    """R1: the commands are written against '${BATCH_TMPDIR}' + <relative path> (Job._interpolate_command) while input_files / output_files use
    r._get_path(<local>): the two agree only if the environment handed to create_job binds BATCH_TMPDIR to <local> and nothing the user controls
    (job._env, filled by Job.env with any variable name) is merged on top of that binding.  The construction of the mapping is followed through
    dict displays, dict(), `|`, update / setdefault / subscript stores on a local of the job loop, and helper functions (expression helpers are
    inlined, statement helpers are analysed as a block with their parameters substituted)."""
    cons = f'{where}::BATCH_TMPDIR == local directory'
    ev = kw.get('env')
    ctx.need(ev is not None, f'{where}: create_job has no env=')
    cj_stmt = [st for st in _stmts(loop) if any(x is cj for x in ast.walk(st)) and not isinstance(st, (ast.For, ast.AsyncFor, ast.While, ast.If, ast.With, ast.AsyncWith, ast.Try))]
    ctx.need(len(cj_stmt) == 1, f'{where}: statement of the create_job call not found')
    before = _preceding_in_loop(loop, cj_stmt[0])
    ctx.need(before is not None, f'{where}: create_job statement not located in the job loop')
    mod_funcs = {st.name: st for st in m.tree.body if isinstance(st, ast.FunctionDef)}
    cls_funcs = {st.name: st for st in m.cls('ServiceBackend').body if isinstance(st, ast.FunctionDef)}
    plain_nested = {k: v for k, v in nested.items() if isinstance(v, ast.FunctionDef)}

    def inline(e: ast.AST) -> ast.AST:
        return facts.inline_expr_calls(m, e, cls='ServiceBackend', extra=plain_nested)

    def helper_of(c: ast.AST) -> Optional[Tuple[ast.FunctionDef, bool]]:
        if not isinstance(c, ast.Call):
            return None
        if isinstance(c.func, ast.Name) and c.func.id in {**mod_funcs, **plain_nested}:
            return {**mod_funcs, **plain_nested}[c.func.id], False
        if isinstance(c.func, ast.Attribute) and isinstance(c.func.value, ast.Name) and c.func.value.id in ('self', 'ServiceBackend') and c.func.attr in cls_funcs:
            f = cls_funcs[c.func.attr]
            decs = pf.decorator_names(f)
            if all(d in ('staticmethod',) for d in decs):
                return f, 'staticmethod' not in decs
        return None

    def entries_of_expr(e: ast.AST, depth: int = 0) -> List[facts.Entry]:
        """Entries of a mapping expression; opaque parts that are calls of statement helpers defined in this file are opened."""
        out: List[facts.Entry] = []
        for ent in facts.dict_entries(inline(e)):
            h = helper_of(ent[1]) if ent[0] == 'spread' else None  # type: ignore[arg-type]
            if h is None or depth >= 3:
                out.append(ent)
                continue
            f, drop = h
            call: ast.Call = ent[1]  # type: ignore[assignment]
            hw = f'{FK}::{f.name}'
            bound = _bind_call(f, call, drop)
            ctx.need(bound is not None, f'{hw}: arguments of `{pf.nsrc(call)}` do not bind')
            body = [st for st in f.body if not (isinstance(st, ast.Expr) and isinstance(st.value, ast.Constant))]
            rets = [st for st in pf.walk_shallow(f) if isinstance(st, ast.Return)]
            ctx.need(len(rets) == 1 and body and body[-1] is rets[0] and rets[0].value is not None, f'{hw}: expected a single `return` at the end of the environment helper')
            stores = {x.id for x in pf.walk_shallow(f) if isinstance(x, ast.Name) and isinstance(x.ctx, ast.Store)}
            ctx.need(not (stores & set(bound)), f'{hw}: a parameter is re-assigned')  # type: ignore[arg-type]
            rv = rets[0].value
            if isinstance(rv, ast.Name) and rv.id in stores:
                sub = facts.dict_var_entries(body[:-1], rv.id, TMPVAR)
                ctx.need(sub is not None, f'{hw}: `{rv.id}` is not built in the helper')
            else:
                ctx.need(len(body) == 1 or not any(isinstance(x, ast.Name) and x.id in stores for x in ast.walk(rv)), f'{hw}: returned expression uses helper locals (not analysed)')
                sub = facts.dict_entries(rv)
            for kind, k, v in sub:  # type: ignore[union-attr]
                k2 = _subst(k, bound) if isinstance(k, ast.AST) else k  # type: ignore[arg-type]
                v2 = _subst(v, bound) if v is not None else None  # type: ignore[arg-type]
                if kind == 'spread':
                    out += entries_of_expr(k2, depth + 1)  # type: ignore[arg-type]
                else:
                    out.append((kind, k2, v2))
        return out

    # literal keys that were moved to a module / class level constant are read as the literal
    consts = {k: v for k, v in facts.literal_constants(m, 'ServiceBackend').items() if isinstance(v.value, str)}
    locals_ = set(pf.assignments(fn))
    if consts:
        ev = facts.subst_constants(ev, consts, locals_)  # type: ignore[assignment]
        before = [facts.subst_constants(st, consts, locals_) for st in before]  # type: ignore[misc]
    try:
        if isinstance(ev, ast.Name):
            name = ev.id
            ctx.need(name not in {a.arg for a in fn.args.args + fn.args.kwonlyargs}, f'{where}: env=`{name}` is a parameter')
            raw = facts.dict_var_entries(before, name, TMPVAR)  # type: ignore[arg-type]
            ctx.need(raw is not None, f'{where}: env=`{name}` is not built inside the job loop before create_job')
            entries: List[facts.Entry] = []
            for ent in raw:  # type: ignore[union-attr]
                entries += entries_of_expr(ent[1]) if ent[0] == 'spread' else [ent]  # type: ignore[arg-type]
        else:
            entries = entries_of_expr(ev)
    except facts.DictShapeError as ex:
        raise AnalysisError(f'{where}: construction of env= not recognised: {ex}') from ex

    def spread_kind(e: ast.AST) -> str:
        e = facts.expand_locals_except(fn, e, stop={jv}, depth=2)
        if any(isinstance(x, ast.Attribute) and x.attr == '_env' and isinstance(x.value, ast.Name) and x.value.id == jv for x in ast.walk(e)):
            return 'may'
        return 'unknown'

    try:
        verdict, value, over = facts.final_binding(entries, TMPVAR, spread_kind)
    except facts.DictShapeError as ex:
        raise AnalysisError(f'{where}: construction of env= not recognised: {ex}') from ex
    shown = '{' + ', '.join(f'**{pf.nsrc(k)}' if kind == 'spread' else f'{k!r}: {pf.nsrc(v)}' if kind == 'key' else f'setdefault({k!r}, {pf.nsrc(v)})' if kind == 'default'  # type: ignore[arg-type]
                             else f'{pf.nsrc(k)}: {pf.nsrc(v)}' for kind, k, v in entries) + '}'  # type: ignore[arg-type]
    base = (f"commands refer to '${{{TMPVAR}}}' + r._get_path('') (Job._interpolate_command) but files are downloaded to / uploaded from r._get_path({local})")
    if verdict == 'overridable':
        # the user-controlled mapping really can contain the variable: Job.env stores any name
        mj = pf.load(FJ)
        je = mj.func('Job.env')
        stores_any = [st for st in af_body(je) if isinstance(st, ast.Assign) and len(st.targets) == 1 and isinstance(st.targets[0], ast.Subscript)
                      and _is_attr(st.targets[0].value, 'self', '_env') and isinstance(st.targets[0].slice, ast.Name) and st.targets[0].slice.id == je.args.args[1].arg]
        guarded = any(isinstance(x, (ast.If, ast.Assert, ast.Raise, ast.Try)) for x in pf.walk_shallow(je))
        ctx.need(bool(stores_any) and not guarded, f'{FJ}::Job.env: does not store an arbitrary variable name unconditionally (reserved names may be rejected there; not analysed)')
        ctx.bad('R1', cons, f"env is built as {shown}: `{pf.nsrc(over)}` is merged AFTER the {TMPVAR!r} binding (or the binding only fills a gap), so a job that has {TMPVAR} in its "  # type: ignore[arg-type]
                f"`_env` keeps its own value; {base}. History: a driver that itself runs in a Batch job forwards its environment (`for k, v in os.environ.items(): j.env(k, v)`, the "
                f"driver's container has {TMPVAR}=/io/batch/<driver uid>); producer `echo hi > ${{{TMPVAR}}}/<dir>/out` then writes under the driver's directory while the worker uploads "
                f"from {local}/<dir>/out, and the consumer reads a path the input was never downloaded to. {TMPVAR} must be `{local}` and must not be overridable by job._env",
                m.path, cj.lineno)
        return
    if value is not None and not (isinstance(value, ast.Name) and value.id == local):
        value = facts.expand_locals_except(fn, value, stop={local, jv}, depth=2)   # a local alias of the directory
    ok = verdict == 'fixed' and isinstance(value, ast.Name) and value.id == local
    # evidence of a wrong binding: another variable, a literal, or a string built from something; any other expression is not decided
    ctx.need(ok or verdict != 'fixed' or isinstance(value, (ast.Name, ast.Constant, ast.JoinedStr, ast.BinOp, ast.Attribute)),
             f'{where}: {TMPVAR} is bound to `{pf.nsrc(value) if value is not None else None}` (not analysed)')
    ctx.check(ok, 'R1', cons,
              f"env is built as {shown}: " + (f'{TMPVAR} is never bound' if verdict == 'missing' else f'{TMPVAR} is bound to `{pf.nsrc(value)}`') +  # type: ignore[arg-type]
              f"; {base}; {TMPVAR} must be `{local}` and must not be overridable by job._env", m.path, cj.lineno, detail={'entries': shown})


def af_body(f: pf.FuncDef) -> List[ast.stmt]:
    return [st for st in f.body if not (isinstance(st, ast.Expr) and isinstance(st.value, ast.Constant))]


BATCH_DIR = 'hail/python/hailtop/batch'
_DEP_STORY = ('with C reading A.ofile and B.ofile, B reading A.ofile (or B.depends_on(A)), B always_run and A failing, C is submitted with parents=[B] only, '
              'becomes runnable when B finishes and downloads a file A never uploaded')


def _deps_monotone(ctx: Ctx) -> None:
    """Between recording (resource mention / depends_on) and submission nothing may remove an element from any job's `_dependencies`:
    ServiceBackend._async_run builds `parents=` from that set.  Who-may-write rule over every module of hailtop/batch."""
    n_files = 0
    for rel in pf.walk_py([BATCH_DIR], exclude=(BATCH_DIR + '/docs',)):
        m = pf.load(rel)
        n_files += 1
        for u in facts.set_uses(m, '_dependencies'):
            qual = m.qualname(u.func) if u.func is not None else '<module>'
            stmt = pf.nsrc(u.stmt) if u.stmt is not None else pf.nsrc(u.node)
            if isinstance(u.stmt, (ast.For, ast.AsyncFor, ast.If, ast.While, ast.With, ast.FunctionDef, ast.AsyncFunctionDef, ast.ClassDef)):
                stmt = pf.nsrc(u.node)
            cons = f'{rel}::{qual}::{stmt}'
            ctx.need(u.kind != 'unknown', f'{cons}: use of `_dependencies` not analysed ({u.why})')
            if u.kind == 'read':
                continue
            if u.kind == 'shrink':
                ctx.bad('R2', cons, f'`{stmt}` in {qual}: {u.why}. A producer recorded in `_dependencies` by a resource mention / depends_on can be dropped again before '
                        f'ServiceBackend._async_run builds `parents=` from that set, so the consumer is not submitted as a child of the producer: {_DEP_STORY}',
                        m.path, getattr(u.stmt, 'lineno', 0))
            else:
                ctx.ok('R2', cons, u.why)
    ctx.unit('files_scanned_for_dependency_writes', n_files)
    # positive control: the classifier sees the removal idioms
    ctl = pf.Module('<control>', '<control>', '', ast.parse(
        'def f(j, implied):\n'
        '    j._dependencies -= implied\n'
        '    j._dependencies.discard(implied)\n'
        '    j._dependencies = {d for d in j._dependencies if d not in implied}\n'
        '    deps = j._dependencies\n'
        '    deps.difference_update(implied)\n'
        '    j._dependencies.add(implied)\n'))
    kinds = sorted(u.kind for u in facts.set_uses(ctl, '_dependencies') if u.kind != 'read')
    ctx.need(kinds == ['grow', 'shrink', 'shrink', 'shrink', 'shrink'], f'internal: positive control of the `_dependencies` write classifier gave {kinds}')
    ctx.ok('R2', 'control::removal idioms of a set attribute are recognised', kinds, nontrivial=False)


def _get_paths(ctx: Ctx) -> None:
    m = pf.load(FR)
    templates: Dict[str, List[Part]] = {}
    for cls in m.classes():
        for st in cls.body:
            if isinstance(st, ast.FunctionDef) and st.name == '_get_path':
                body = [s for s in st.body if not (isinstance(s, ast.Expr) and isinstance(s.value, ast.Constant))]
                if all(isinstance(s, (ast.Raise, ast.Pass)) for s in body):
                    continue  # abstract
                where = f'{FR}::{cls.name}._get_path'
                ctx.need(len(st.args.args) == 2, f'{where}: parameters changed')
                dparam = st.args.args[1].arg
                rets = [s for s in _stmts(st) if isinstance(s, ast.Return)]
                ctx.need(len(rets) == 1 and rets[0].value is not None, f'{where}: expected one return')
                ctx.need(len(pf.assignments(st).get(dparam, [])) == 1, f'{where}: the parameter `{dparam}` is re-assigned')
                # every definition of a local counts (a local assigned in both branches of an if), helpers that are one expression are seen through
                env = {k: [x for x in v if isinstance(x, ast.expr)] for k, v in pf.assignments(st).items() if k != dparam}
                rv_ = facts.inline_expr_calls(m, facts.expand_locals_except(st, rets[0].value, stop={dparam}), cls=cls.name)
                rv_ = facts.expand_locals_except(st, rv_, stop={dparam})
                parts = _parts(rv_)
                ctx.need(bool(parts), f'{where}: empty path')
                head_exact = parts[0] == ('expr', dparam)
                mentions = 0
                for i, (kind, txt) in enumerate(parts):
                    if kind == 'expr' and not (i == 0 and head_exact):
                        e = ast.parse(txt, mode='eval').body
                        names = set(pf.names_in(e))
                        for _round in range(3):
                            for nm in list(names):
                                for dv in env.get(nm, []):
                                    names |= pf.names_in(dv)
                        if dparam in names:
                            ctx.need(i != 0, f'{where}: path starts with a function of `{dparam}` (`{txt}`), not with `{dparam}` itself')
                            mentions += 1
                        ctx.need(not any(isinstance(x, ast.Call) and (dparam in pf.names_in(x)) for x in ast.walk(e)) or i != 0, f'{where}: `{txt}` not analysed')
                ctx.need(head_exact or parts[0][0] == 'lit' or pf.dotted(ast.parse(parts[0][1], mode='eval').body) is not None,
                         f'{where}: the head `{parts[0][1]}` of the path is not recognised')
                ctx.check(head_exact and mentions == 0, 'R1', f'{where}::directory-prefixed',
                          f'`{pf.nsrc(rets[0])}` is not `{dparam} + <suffix independent of {dparam}>`: the path a command refers to '
                          f"('${{BATCH_TMPDIR}}' + _get_path('')) differs from the path files are copied to (_get_path(local_tmpdir))", m.path, rets[0].lineno)
                if dparam != 'directory':
                    parts = [(k_, 'directory') if (k_, t_) == ('expr', dparam) else (k_, t_) for k_, t_ in parts]     # the parameter's name is not part of the template
                templates[cls.name] = parts
    for need in ('InputResourceFile', 'JobResourceFile', 'ResourceGroup', 'PythonResult'):
        ctx.need(need in templates, f'{FR}: {need}._get_path not found')
    j, p = templates['JobResourceFile'], templates['PythonResult']
    want = [('expr', 'directory'), ('lit', '/'), ('expr', 'self._source._dirname'), ('lit', '/'), ('expr', 'self._value')]
    for name, t in (('JobResourceFile', j), ('PythonResult', p)):
        exprs = [x for k, x in t if k == 'expr']
        ctx.need(all(pf.dotted(ast.parse(x, mode='eval').body) is not None for x in exprs), f'{FR}::{name}._get_path: the path template {t} contains an expression that is not analysed')
        ctx.check('self._source._dirname' in exprs and 'self._value' in exprs and t[-1] == ('expr', 'self._value'), 'R4', f'{FR}::{name}._get_path::(job directory, value)',
                  f'the path template {t} is not <dir>/<producing job directory>/<value>: resources of different jobs or different names can share a path', m.path, 0,
                  detail={'template': t, 'canonical': t == want})
    ctx.check(j == p, 'R4', f'{FR}::JobResourceFile._get_path == PythonResult._get_path', f'the two job-output path templates differ: {j} vs {p}', m.path, 0)
    ctx.unit('functions', len(templates))


# ------------------------------------------------------------------------------------------------
# R2 (recording) and R3 (interpolation) in job.py
# ------------------------------------------------------------------------------------------------

def _recording(ctx: Ctx) -> None:
    m = pf.load(FJ)
    for qual in ('Job._interpolate_command.handler', 'PythonJob.call.handle_arg'):
        site = RecordingSite(ctx, m, qual)
        S, R = site.S, site.R
        site.effect(ctx, 'R2', f'self._add_inputs({R})', call_pred(lambda e: isinstance(e, ast.Name) and e.id == 'self', '_add_inputs', R),
                    {'foreign': True}, [({'foreign': False}, 'the resource is produced by the job itself (it would be downloaded before it exists)')],
                    f'a resource of another job or an input file is never recorded in `self._inputs`: it is not downloaded into the consuming job',
                    'a foreign resource is not always recorded as an input of the consuming job', role='self._add_inputs(<resource>)', carriers=(R,))
        site.effect(ctx, 'R2', f'{S}._add_internal_outputs({R})', call_pred(lambda e, S=S: isinstance(e, ast.Name) and e.id == S, '_add_internal_outputs', R),
                    {'foreign': True, 'notnone': True}, [({'foreign': False}, 'the resource is produced by the job itself'), ({'notnone': False}, f'`{S}` is None')],
                    f'the producer is never told to upload the resource (`{S}._add_internal_outputs({R})` missing): the consumer downloads a file nobody wrote',
                    'a foreign job resource is not always recorded as an internal output of its producer', role='<producing job>._add_internal_outputs(<resource>)',
                    carriers=(S, R))
    # the two helpers write the sets the back end reads
    for meth, attr in (('_add_inputs', '_inputs'), ('_add_internal_outputs', '_internal_outputs')):
        f = m.func(f'Job.{meth}')
        where = f'{FJ}::Job.{meth}'
        ctx.need(len(f.args.args) == 2, f'{where}: parameters changed')
        prm = f.args.args[1].arg
        calls = [c for c in pf.calls_in(f) if pf.dotted(c.func) == '_add_resource_to_set']
        ctx.need(len(calls) == 1 and len(calls[0].args) >= 2, f'{where}: expected one _add_resource_to_set call')
        ctx.check(_is_attr(calls[0].args[0], 'self', attr) and pf.nsrc(calls[0].args[1]) == prm, 'R2', f'{where}::writes self.{attr}',
                  f'`{pf.nsrc(calls[0])}` does not add `{prm}` to `self.{attr}`, the set ServiceBackend reads', m.path, f.lineno)
    # _add_resource_to_set adds the resource itself (files) and the members of its group
    f = m.func('_add_resource_to_set')
    where = f'{FJ}::_add_resource_to_set'
    ctx.need(len(f.args.args) >= 2, f'{where}: parameters changed')
    sset, res = f.args.args[0].arg, f.args.args[1].arg
    g = pf.cfg(f)
    is_rg = [n for n in g.nodes if n.kind == 'test' and isinstance(n.ast, ast.Call) and pf.dotted(n.ast.func) == 'isinstance' and len(n.ast.args) == 2
             and pf.nsrc(n.ast.args[0]) == res and pf.nsrc(n.ast.args[1]) == 'ResourceGroup']
    ctx.need(len(is_rg) == 1, f'{where}: isinstance({res}, ResourceGroup) test not found')
    add_self = call_pred(lambda e: isinstance(e, ast.Name) and e.id == sset, 'add', res)
    p = g.path_avoiding(is_rg[0], lambda n: n is g.exit, add_self, edge_ok=lambda a, b, lab: a is not is_rg[0] or lab == 'F')
    ctx.check(p is None, 'R2', f'{where}::a file resource is added itself', f'for a resource that is not a group there is a path that never executes `{sset}.add({res})`',
              m.path, f.lineno)
    ctx.unit('functions', 5)


def _interpolation(ctx: Ctx) -> None:
    m0 = pf.load(FJ)
    site = RecordingSite(ctx, m0, 'Job._interpolate_command.handler')     # the callback by name or by role, statement helpers inlined
    m = site.m
    outer = m.func('Job._interpolate_command')
    h = site.fn
    where = f'{FJ}::Job._interpolate_command'
    ctx.need(len(outer.args.args) >= 2 and len(h.args.args) == 1, f'{where}: parameters changed')
    cmd, mo = outer.args.args[1].arg, h.args.args[0].arg
    g = pf.cfg(h)
    imports = m.imports()
    # return value
    rets = [st for st in _stmts(h) if isinstance(st, ast.Return)]
    ctx.need(len(rets) == 1 and rets[0].value is not None, f'{where}.handler: expected one return')
    rv = rets[0].value
    R = site.R
    VARNAME = 'BATCH_TMPDIR'
    rvx = facts.inline_expr_calls(m, facts.expand_locals_except(h, rv, stop={R, mo}), cls='Job')
    rvx = facts.subst_constants(rvx, {k: v for k, v in facts.literal_constants(m, 'Job').items() if isinstance(v.value, str)}, set(pf.assignments(h)) | set(pf.assignments(outer)))
    ps = _parts(rvx)

    def raw_path(e: ast.AST) -> bool:
        return isinstance(e, ast.Call) and isinstance(e.func, ast.Attribute) and e.func.attr == '_get_path' and pf.nsrc(e.func.value) == R \
            and len(e.args) == 1 and not e.keywords and pf.const_str(e.args[0]) == ''

    def is_quote(e: ast.AST) -> bool:
        if not (isinstance(e, ast.Call) and len(e.args) == 1 and not e.keywords):
            return False
        if isinstance(e.func, ast.Name):
            return imports.get(e.func.id) == 'shlex.quote'
        return pf.dotted(e.func) == 'shlex.quote' and imports.get('shlex') == 'shlex'

    def mentions_var(e: ast.AST) -> bool:
        return any(isinstance(x, ast.Constant) and isinstance(x.value, str) and VARNAME in x.value for x in ast.walk(e))

    # The replacement must reach bash as ONE word  <expansion of BATCH_TMPDIR><the path as literal text>.  The literal pieces are lexed with a
    # three-state shell lexer; the path piece is classified by how it is protected in the state the lexer is in at that point.
    lx = facts.ShellLexer()
    seq: List[Tuple[str, object, str]] = []   # ('var', name, state) | ('char', c, state) | ('path', transform, state)
    verdict: Optional[str] = None   # None = undecided so far, 'ok', or the defect
    try:
        for kind, txt in ps:
            n0 = len(lx.items)
            if kind == 'lit':
                lx.feed(txt)
                seq += lx.items[n0:]
                continue
            e = ast.parse(txt, mode='eval').body
            ctx.need(not lx.pending_backslash, f'{where}.handler: a backslash directly precedes `{txt}` in `{pf.nsrc(rv)}` (not analysed)')
            if is_quote(e):
                inner = e.args[0]  # type: ignore[attr-defined]
                if raw_path(inner):
                    seq.append(('path', 'shq', lx.state))
                elif mentions_var(inner) and any(raw_path(x) for x in ast.walk(inner)):
                    seq.append(('path', 'shq-var', lx.state))
                elif is_quote(inner) and raw_path(inner.args[0]):
                    seq.append(('path', 'shq-twice', lx.state))
                elif facts.char_hom(inner, raw_path, m) is not None:
                    seq.append(('path', 'shq' if facts.char_hom(inner, raw_path, m)[0].is_identity() else 'shq-esc', lx.state))  # type: ignore[index]
                else:
                    raise facts.WordError(f'`{txt}` quotes something that is not the path')
            elif raw_path(e):
                seq.append(('path', 'raw', lx.state))
            elif isinstance(e, ast.Call) and pf.dotted(e.func) == 'json.dumps' and imports.get('json') == 'json' and len(e.args) == 1 and not e.keywords and raw_path(e.args[0]):
                # a JSON string literal: double quotes around the text with " and \ (and control characters) backslash-escaped
                lx.feed('"')
                seq.append(('path', facts.Hom({'"': '\\"', '\\': '\\\\', '\n': '\\n', '\t': '\\t', '\r': '\\r'}), lx.state))
                lx.feed('"')
            else:
                hm = facts.char_hom(e, raw_path, m)
                if hm is None:
                    raise facts.WordError(f'`{txt}` is not a recognised transform of {R}._get_path(\'\')')
                seq.append(('path', hm[0], lx.state))
    except facts.WordError as ex:
        raise AnalysisError(f'{where}.handler: return value `{pf.nsrc(rv)}` not recognised: {ex}') from ex
    paths = [x for x in seq if x[0] == 'path']
    ctx.need(len(paths) == 1, f'{where}.handler: return value `{pf.nsrc(rv)}` not recognised ({len(paths)} path parts)')
    _, tr, pstate = paths[0]
    vars_ = [x for x in seq if x[0] == 'var']
    chars = [x for x in seq if x[0] == 'char']
    Uq, Sq, Dq = facts.U, facts.S, facts.D
    if tr == 'shq-var':
        verdict = 'the variable reference itself is quoted, so the shell does not expand ${BATCH_TMPDIR}'
    elif tr in ('shq-twice', 'shq-esc'):
        verdict = ('the path is quoted twice' if tr == 'shq-twice' else 'the path is escaped and then quoted') + \
            ': shlex.quote makes every character of its argument literal, so the quote / escape characters added first become part of the path the command ' \
            'touches (resource named `per sample.tsv` / `say "cheese".txt`) while input_files/output_files use the plain name'
    elif lx.state != Uq or lx.pending_backslash:
        verdict = f'the replacement ends inside {lx.state} text: the quote stays open and swallows the rest of the command'
    elif not vars_ and not chars:
        verdict = 'the ${BATCH_TMPDIR} prefix is missing: the command refers to a path relative to /'
    else:
        ctx.need(len(vars_) == 1 and vars_[0][1] == VARNAME and not chars and seq.index(vars_[0]) < seq.index(paths[0]),
                 f'{where}.handler: return value `{pf.nsrc(rv)}` not recognised (expected the word <${{{VARNAME}}}><path>, found literal text / other variables)')
        if vars_[0][2] == Sq:
            verdict = 'the variable reference is inside single quotes, so the shell does not expand ${BATCH_TMPDIR}'
    if verdict is None:
        def show(cs: List[str]) -> str:
            return ' '.join({' ': '<space>', '\t': '<tab>', '\n': '<newline>'}.get(c, c) for c in cs)
        if tr == 'shq':
            verdict = 'ok' if pstate == Uq else f'shlex.quote output is placed inside {pstate} text: its quote characters become part of the path and the name is no longer protected'
        elif tr == 'raw':
            if pstate == Uq:
                verdict = 'the path is not shell-quoted (a resource named `a b` splits into two words)'
            else:
                act = list(facts.DQ_SPECIAL) if pstate == Dq else ["'"]
                verdict = (f'the path is inserted inside {pstate} text without escaping: {show(act)} in a resource name stay active; e.g. the resource named '
                           f'`{facts.WITNESS[act[0]]}` is substituted by a word that bash does not read as its literal path')
        else:
            active, mangled = facts.hom_in_state(tr, pstate)  # type: ignore[arg-type]
            escaped = sorted(k for k, v in tr.table.items() if v != k)  # type: ignore[union-attr]
            if active:
                w = next((c for c in '$`\\"\' ' if c in active), active[0])
                verdict = (f'inside {pstate} text the helper escapes only {show(escaped) or "nothing"}; {show(active)} in a resource name stay active in bash. Resource names are user '
                           f'supplied: for the resource named `{facts.WITNESS.get(w, w)}` the word bash evaluates differs from the path in input_files/output_files'
                           + (' (`$US` is expanded, so the command touches …/cost_in_.tsv while the file is copied from/to …/cost_in_$US.tsv)' if w == '$' else ''))
            elif mangled:
                verdict = (f'inside {pstate} text the escaping of {show(mangled)} is not undone by bash (a backslash before an ordinary character is kept inside double quotes, or the '
                           f'character is rewritten): the path the command touches differs from the path in input_files/output_files')
            else:
                verdict = 'ok'
    ctx.check(verdict == 'ok', 'R3', f'{where}.handler::replacement',
              f"a resource reference is replaced by `{pf.nsrc(rv)}`; expected ${{BATCH_TMPDIR}} followed by the path {R}._get_path('') as one literal shell word "
              f"(e.g. '${{BATCH_TMPDIR}}' + shlex.quote(...)): {verdict}", m.path, rets[0].lineno,
              detail={'path_state': pstate, 'transform': tr if isinstance(tr, str) else tr.table})  # type: ignore[union-attr]
    # lookup and unknown uid
    rdef0 = pf.single_def(h, R)
    ctx.need(isinstance(rdef0, ast.expr), f'{where}.handler: `{R}` is not bound once')
    rdef = facts.expand_locals_except(h, rdef0, stop={mo}, depth=3)  # type: ignore[arg-type]
    MAP = 'self._batch._resource_map'
    by_get = isinstance(rdef, ast.Call) and isinstance(rdef.func, ast.Attribute) and rdef.func.attr == 'get' and pf.nsrc(rdef.func.value) == MAP and len(rdef.args) == 1 and not rdef.keywords
    by_index = isinstance(rdef, ast.Subscript) and pf.nsrc(rdef.value) == MAP
    ctx.need(by_get or by_index, f'{where}.handler: `{R}` is not looked up with {MAP}.get(...) / {MAP}[...]')
    key = rdef.args[0] if by_get else rdef.slice  # type: ignore[union-attr]
    ctx.need(isinstance(key, (ast.Call, ast.Subscript, ast.Name, ast.Attribute)), f'{where}.handler: lookup key `{pf.nsrc(key)}` not recognised')
    ctx.check(pf.nsrc(key) in (f'{mo}.group()', f'{mo}.group(0)', f'{mo}[0]'), 'R3', f'{where}.handler::lookup key is the matched text',
              f'the resource is looked up under `{pf.nsrc(key)}`, not under the matched uid `{mo}.group()`', m.path, h.lineno)
    RET = _node(g, rets[0], 'return')
    ucons = f'{where}.handler::unknown uid raises'
    if by_index:
        ctx.ok('R3', ucons, {'by': 'subscript lookup: an unknown uid raises KeyError'})
    else:
        from rules.c17 import _expand_flags

        def none_label(t: ast.AST) -> Optional[str]:
            """label of the edge taken when R is None, for a test that is exactly about that"""
            flip = False
            while isinstance(t, ast.UnaryOp) and isinstance(t.op, ast.Not):
                t, flip = t.operand, not flip
            lab = None
            if isinstance(t, ast.Name) and t.id == R:
                lab = 'F'
            elif isinstance(t, ast.Compare) and len(t.ops) == 1 and isinstance(t.ops[0], (ast.Is, ast.IsNot, ast.Eq, ast.NotEq)):
                l_, r_ = t.left, t.comparators[0]
                if (pf.nsrc(l_) == R and isinstance(r_, ast.Constant) and r_.value is None) or (pf.nsrc(r_) == R and isinstance(l_, ast.Constant) and l_.value is None):
                    lab = 'T' if isinstance(t.ops[0], (ast.Is, ast.Eq)) else 'F'
            if lab is None:
                return None
            return lab if not flip else ('F' if lab == 'T' else 'T')
        none_tests = []
        typed = []
        for n in g.nodes:
            if n.kind == 'test' and n.ast is not None:
                e_ = _expand_flags(h, n.ast, {R})
                lab = none_label(e_)
                if lab is not None:
                    none_tests.append((n, lab))
                elif any(isinstance(x, ast.Call) and pf.dotted(x.func) in ('isinstance', 'bool') and x.args and pf.nsrc(x.args[0]) == R for x in ast.walk(e_)) \
                        or any(none_label(x) is not None for x in ast.walk(e_) if isinstance(x, (ast.Compare, ast.UnaryOp))) \
                        or (isinstance(e_, ast.BoolOp) and any(isinstance(x, ast.Name) and x.id == R for x in e_.values)):
                    typed.append(n)      # the None-ness of the resource is tested inside a larger condition
        ctx.need(not typed, f'{where}.handler: test `{pf.nsrc(typed[0].ast) if typed else ""}` of the looked-up resource not recognised')
        asserts = [n for n in g.nodes if n.kind == 'stmt' and isinstance(n.ast, ast.Assert) and R in pf.names_in(n.ast.test)]
        if not none_tests:
            ctx.need(not asserts, f'{where}.handler: `{R}` is only tested by an assert (not analysed)')
            ctx.bad('R3', ucons, f'`{R}` (None for an unknown uid) is never tested: a reference to a resource of another batch is '
                    f'substituted by an AttributeError/garbage instead of being rejected', m.path, h.lineno)
        else:
            ctx.need(len(none_tests) == 1, f'{where}.handler: several None tests of `{R}`')
            T, lab = none_tests[0]
            p = g.path_avoiding(T, lambda n: n is g.exit, lambda n: False, edge_ok=lambda a, b, l2: a is not T or l2 == lab)
            dom = g.dominated_by(RET, lambda n: n is T)
            ctx.check(p is None and dom, 'R3', ucons,
                      f'with `{R} is None` (unknown uid) the handler still returns a replacement instead of raising', m.path, T.lineno)
    # the substitution
    subs = [c for c in pf.calls_in(outer) if pf.dotted(c.func) == 're.sub']
    ctx.need(len(subs) == 1 and not any(isinstance(a_, ast.Starred) for a_ in subs[0].args) and not any(k.arg is None for k in subs[0].keywords),
             f'{where}: expected one re.sub(pattern, handler, command)')
    sub = subs[0]
    sb: Dict[str, ast.AST] = dict(zip(('pattern', 'repl', 'string', 'count', 'flags'), sub.args))
    for k in sub.keywords:
        ctx.need(k.arg in ('pattern', 'repl', 'string', 'count', 'flags') and k.arg not in sb, f'{where}: arguments of `{pf.nsrc(sub)[:80]}` do not bind')
        sb[k.arg] = k.value  # type: ignore[index]
    ctx.need(all(x in sb for x in ('pattern', 'repl', 'string')), f'{where}: expected one re.sub(pattern, handler, command)')
    cb_ = pf.resolve_expr(outer, sb['repl'])
    st_ = facts.expand_locals_except(outer, sb['string'], stop={cmd}, depth=3)
    counted = 'count' in sb and not (isinstance(sb['count'], ast.Constant) and sb['count'].value == 0)
    ctx.need(isinstance(cb_, ast.Name) and (isinstance(st_, ast.Name) or cmd in pf.names_in(st_)), f'{where}: `{pf.nsrc(sub)[:100]}` not recognised')
    ctx.check(isinstance(cb_, ast.Name) and cb_.id == h.name and isinstance(st_, ast.Name) and st_.id == cmd and not counted, 'R3', f'{where}::re.sub(…, handler, {cmd})',
              f'`{pf.nsrc(sub)}` does not apply the handler to every match in the given command', m.path, sub.lineno)
    env = {k: v[0] for k, v in pf.assignments(outer).items() if len(v) == 1 and isinstance(v[0], ast.expr)}
    list_names = {n for n, v in env.items() if isinstance(v, (ast.List, ast.Tuple))}
    pat = facts.expand_locals_except(outer, sb['pattern'], stop=list_names, depth=4)
    if isinstance(pat, ast.Call) and pf.dotted(pat.func) == 're.compile' and pat.args:
        pat = pat.args[0]
    alt = _alternation_of(pat)
    ctx.need(alt is not None, f'{where}: pattern `{pf.nsrc(pat)[:100]}` is not the `(a)|(b)|…` alternation of a list')
    if isinstance(alt, ast.Name) and alt.id in list_names:
        alt = env[alt.id]
    ctx.need(isinstance(alt, (ast.List, ast.Tuple)) and not any(isinstance(e, ast.Starred) for e in alt.elts), f'{where}: pattern is not built from one list of patterns')  # type: ignore[union-attr]
    members = [pf.nsrc(e) for e in alt.elts]  # type: ignore[union-attr]
    missing = [x for x in ('ResourceFile._regex_pattern', 'ResourceGroup._regex_pattern', 'PythonResult._regex_pattern') if x not in members]
    ctx.need(all(pf.dotted(e) is not None for e in alt.elts), f'{where}: the members {members} of the alternation are not all `<Class>._regex_pattern`')  # type: ignore[union-attr]
    ctx.check(not missing, 'R3', f'{where}::pattern covers every resource kind', f'{missing} is not in the alternation {members}: references to that kind of resource '
              f'are left in the command as raw uids', m.path, sub.lineno)
    oret = [st for st in _stmts(outer) if isinstance(st, ast.Return)]
    ctx.need(len(oret) == 1 and oret[0].value is not None, f'{where}: expected one return')
    rvo = pf.resolve_expr(outer, oret[0].value)  # type: ignore[arg-type]
    ctx.need(rvo is sub or not any(x is sub for x in ast.walk(rvo)), f'{where}: `{pf.nsrc(oret[0])}` post-processes the result of re.sub (not analysed)')
    ctx.check(rvo is sub, 'R3', f'{where}::returns the substituted command', f'`{pf.nsrc(oret[0])}` is not the result of re.sub',
              m.path, oret[0].lineno)
    # command() stores the interpolated text
    c = m.func('BashJob.command')
    prm = c.args.args[1].arg
    apps = [x for x in pf.calls_in(c) if isinstance(x.func, ast.Attribute) and x.func.attr in ('append', 'extend') and _is_attr(x.func.value, 'self', '_command')]
    ctx.need(len(apps) == 1 and len(apps[0].args) == 1 and apps[0].func.attr == 'append', f'{FJ}::BashJob.command: expected one self._command.append')  # type: ignore[attr-defined]
    gc = pf.cfg(c)
    AP = gc.node_of(apps[0])
    ctx.need(len(AP) == 1, f'{FJ}::BashJob.command: node of the append')

    def interpolated(e: ast.AST, at: pf.Node, depth: int = 3) -> Optional[bool]:
        """Is the value of e at node `at` exactly the result of self._interpolate_command(..)?  None: not decided."""
        if isinstance(e, ast.Call) and pf.dotted(e.func) == 'self._interpolate_command':
            return True
        if isinstance(e, ast.Name) and depth > 0:
            ds, entry = facts.reaching_defs(gc, e.id, at)
            vals: List[Optional[bool]] = [False] if entry else []
            for d in ds:
                a_ = d.ast
                if d.kind == 'stmt' and isinstance(a_, (ast.Assign, ast.AnnAssign)) and a_.value is not None \
                        and all(isinstance(t, ast.Name) for t in (a_.targets if isinstance(a_, ast.Assign) else [a_.target])):
                    vals.append(interpolated(a_.value, d, depth - 1))
                else:
                    vals.append(None)
            if vals and all(v is True for v in vals):
                return True
            if any(v is False for v in vals) and not any(v is None for v in vals):
                return False
            return None
        if any(isinstance(x, ast.Call) and pf.dotted(x.func) == 'self._interpolate_command' for x in ast.walk(e)):
            return None      # the interpolated text is post-processed
        if isinstance(e, (ast.Name, ast.Constant, ast.JoinedStr, ast.BinOp)) or (isinstance(e, ast.Call) and isinstance(e.func, ast.Attribute) and isinstance(e.func.value, ast.Name)
                                                                                 and e.func.attr in ('strip', 'rstrip', 'lstrip') and interpolated(e.func.value, at, depth - 1) is False):
            return False
        return None
    iv_ = interpolated(apps[0].args[0], AP[0])
    ctx.need(iv_ is not None, f'{FJ}::BashJob.command: whether `{pf.nsrc(apps[0])}` stores the result of _interpolate_command is not decided')
    ctx.check(bool(iv_), 'R3', f'{FJ}::BashJob.command::stores the interpolated command', f'`{pf.nsrc(apps[0])}` stores text that did not pass through _interpolate_command: '
              f'resource uids reach the shell unreplaced and no inputs/dependencies are recorded', m.path, apps[0].lineno)
    ctx.unit('functions', 3)


def _alternation_of(pat: ast.AST) -> Optional[ast.AST]:
    """The list expression L of a pattern that is the alternation of the members of L:  '(' + ')|('.join(L) + ')',  '|'.join(f'({x})' for x in L),
    '|'.join('(' + x + ')' for x in L),  '|'.join(L)."""
    def join_call(e: ast.AST, sep: str) -> Optional[ast.AST]:
        if isinstance(e, ast.Call) and isinstance(e.func, ast.Attribute) and e.func.attr == 'join' and pf.const_str(e.func.value) == sep and len(e.args) == 1 and not e.keywords:
            return e.args[0]
        return None
    # '(' + ')|('.join(L) + ')'   (also as an f-string)
    ps = _parts(pat)
    if len(ps) == 3 and ps[0] == ('lit', '(') and ps[2] == ('lit', ')') and ps[1][0] == 'expr':
        inner = join_call(ast.parse(ps[1][1], mode='eval').body, ')|(')
        if inner is not None:
            return inner
    inner = join_call(pat, '|')
    if inner is None:
        return None
    if isinstance(inner, (ast.GeneratorExp, ast.ListComp)) and len(inner.generators) == 1 and not inner.generators[0].ifs and isinstance(inner.generators[0].target, ast.Name):
        v = inner.generators[0].target.id
        eps = _parts(inner.elt)
        if eps in ([('expr', v)], [('lit', '('), ('expr', v), ('lit', ')')], [('lit', '(?:'), ('expr', v), ('lit', ')')]):
            return inner.generators[0].iter
        return None
    return inner


# ------------------------------------------------------------------------------------------------
# R4: distinct names
# ------------------------------------------------------------------------------------------------

def _class_consts(cls: ast.ClassDef) -> Dict[str, ast.expr]:
    out = {}
    for st in cls.body:
        if isinstance(st, ast.Assign) and len(st.targets) == 1 and isinstance(st.targets[0], ast.Name):
            out[st.targets[0].id] = st.value
    return out


def _uids(ctx: Ctx) -> None:
    mr = pf.load(FR)
    mj = pf.load(FJ)
    mb = pf.load(FB)
    prefixes: Dict[str, str] = {}
    owners = {}
    for m, cname, alloc in ((mr, 'ResourceFile', '_new_uid'), (mr, 'ResourceGroup', '_new_uid'), (mr, 'PythonResult', '_new_uid'), (mj, 'Job', '_new_uid'), (mb, 'Batch', '_get_uid')):
        cls = m.cls(cname)
        consts = _class_consts(cls)
        where = f'{m.rel}::{cname}'
        ctx.need('_uid_prefix' in consts and pf.const_str(consts['_uid_prefix']) is not None and '_counter' in consts, f'{where}: _uid_prefix/_counter not found')
        prefixes[cname] = pf.const_str(consts['_uid_prefix'])  # type: ignore[assignment]
        owners[cname] = (m, alloc)
        # pattern is built from the prefix
        rp = consts.get('_regex_pattern')
        ctx.need(rp is not None, f'{where}: _regex_pattern not found')
        tmpl = None
        if isinstance(rp, ast.Call) and isinstance(rp.func, ast.Attribute) and rp.func.attr == 'format' and [pf.nsrc(a) for a in rp.args] == ['_uid_prefix']:
            tmpl = pf.const_str(rp.func.value)
        elif isinstance(rp, ast.JoinedStr):
            tmpl = pf.fstring_template(rp, lambda e: '{}' if pf.nsrc(e) == '_uid_prefix' else '{?}')
        ctx.need(tmpl is not None, f'{where}: _regex_pattern `{pf.nsrc(rp)}` not recognised')
        ctx.check(tmpl.count('{}') == 1 and tmpl.startswith('(?P<') and tmpl.endswith('{}\\d+)'), 'R4', f'{where}::_regex_pattern = prefix + digits',
                  f'the pattern template {tmpl!r} does not match exactly `<_uid_prefix><digits>`: uids in a command are not (or only partly) recognised', m.path, rp.lineno)
        if cname in ('Job', 'Batch') and alloc != '_new_uid':
            pass
        # allocator
        f = m.func(f'{cname}.{alloc}')
        awhere = f'{where}.{alloc}'
        ctx.need('classmethod' in pf.decorator_names(f) and len(f.args.args) == 1, f'{awhere}: not a classmethod')
        c0 = f.args.args[0].arg
        g = pf.cfg(f)
        rets = [st for st in _stmts(f) if isinstance(st, ast.Return)]
        ctx.need(len(rets) == 1, f'{awhere}: expected one return')
        val = facts.expand_locals_except(f, rets[0].value, stop={c0}) if rets[0].value is not None else None
        ctx.need(val is not None, f'{awhere}: returns nothing')
        # a local bound BEFORE the counter is bumped holds the old counter value: the uid is what the expression is at the point it was computed
        vparts = _parts(val)
        ctx.need(all(k == 'lit' or pf.dotted(ast.parse(x, mode='eval').body) is not None for k, x in vparts), f'{awhere}: uid expression `{pf.nsrc(val)}` not recognised')
        shape = vparts == [('expr', f'{c0}._uid_prefix'), ('expr', f'{c0}._counter')] or \
            (len(vparts) == 2 and vparts[0][0] == 'expr' and vparts[0][1].endswith('._uid_prefix') and vparts[1][0] == 'expr' and vparts[1][1].endswith('._counter')
             and vparts[0][1].rsplit('.', 1)[0] == vparts[1][1].rsplit('.', 1)[0] and vparts[0][1].rsplit('.', 1)[0] in (c0, cname))

        def bump_of(st: ast.stmt) -> Optional[bool]:
            """True: the statement increments `<x>._counter` by a positive constant; False: it writes the counter otherwise; None: it does not write it."""
            if isinstance(st, ast.AugAssign) and pf.nsrc(st.target).endswith('._counter'):
                try:
                    d_ = linform.lin(st.value)
                except AnalysisError:
                    return False
                return isinstance(st.op, ast.Add) and d_.is_const() and d_.const >= 1
            if isinstance(st, (ast.Assign, ast.AnnAssign)):
                tgs = st.targets if isinstance(st, ast.Assign) else [st.target]
                ct = [t for t in tgs if isinstance(t, ast.Attribute) and t.attr == '_counter']
                if ct:
                    if len(tgs) != 1 or st.value is None:
                        return False
                    try:
                        d_ = linform.lin(st.value) - linform.sym(pf.nsrc(ct[0]))
                    except AnalysisError:
                        return False
                    return d_.is_const() and d_.const >= 1
            return None
        writes_ = [(st, bump_of(st)) for st in _stmts(f)]
        bumps = [st for st, b_ in writes_ if b_ is True]
        odd = [st for st, b_ in writes_ if b_ is False] + [c_ for c_ in pf.calls_in(f) if pf.dotted(c_.func) == 'setattr' or (pf.dotted(c_.func) or '').split('.')[-1] in ('count', 'next', '__next__')]
        RET = _node(g, rets[0], 'return')
        bumped = bool(bumps) and g.dominated_by(RET, lambda n: any(n.ast is b for b in bumps))
        if cname in ('ResourceFile', 'ResourceGroup', 'PythonResult'):
            ctx.need(bumped or not odd, f'{awhere}: `{pf.nsrc(odd[0])[:80] if odd else ""}` changes the counter in a way that is not analysed')
            # the uid must be computed from the counter BEFORE this call's increment (a uid computed after it is still fresh; both are accepted), on every path
            ctx.check(shape and bumped, 'R4', f'{awhere}::fresh uid', f'returns `{pf.nsrc(val)}` '
                      + ('without incrementing the counter on every path: two resources get the same uid, the later one replaces the earlier in _resource_map and both '
                         'are substituted by the same path' if shape else 'which is not `_uid_prefix + str(_counter)`'), m.path, f.lineno)
    # prefix-free
    names = sorted(prefixes)
    clash = [(a, b) for a in names for b in names if a != b and prefixes[b].startswith(prefixes[a])]
    ctx.check(not clash, 'R4', f'{FR}::uid prefixes are prefix-free', f'uid prefixes {[(a, prefixes[a], b, prefixes[b]) for a, b in clash]} overlap: '
              f'uids of different classes can coincide / be matched by the wrong pattern', mr.path, 0, detail=prefixes)

    # allocation sites name the owning class (a `cls._new_uid()` in a subclass would fork the counter)
    for m in (mr,):
        for qual, f in m.functions():
            for c in pf.calls_in(f):
                if isinstance(c.func, ast.Attribute) and c.func.attr == '_new_uid':
                    recv = pf.nsrc(c.func.value)
                    cons = f'{m.rel}::{qual}::{pf.nsrc(c)}'
                    if recv in ('cls', 'self', 'type(self)', 'self.__class__'):
                        ctx.bad('R4', cons, f'the uid is allocated through `{recv}`: `cls._counter += 1` executed on a subclass (InputResourceFile, JobResourceFile) creates a '
                                f'separate counter for it, so an input file and a job file receive the same uid `__RESOURCE_FILE__<n>`', m.path, c.lineno)
                    else:
                        ctx.need(recv in prefixes, f'{cons}: receiver not recognised')
                        ctx.ok('R4', cons)

    # str(resource) is the uid; registration and lookup use the uid
    for cname in ('ResourceFile', 'ResourceGroup', 'PythonResult'):
        f = mr.func(f'{cname}.__str__')
        rets = [st for st in _stmts(f) if isinstance(st, ast.Return)]
        ctx.need(len(rets) == 1, f'{FR}::{cname}.__str__: expected one return')
        sv = facts.expand_locals_except(f, rets[0].value, stop=()) if rets[0].value is not None else None
        ctx.need(sv is not None, f'{FR}::{cname}.__str__: returns nothing')
        sps = _parts(sv)
        ctx.need(all(k == 'lit' or pf.dotted(ast.parse(x, mode='eval').body) is not None for k, x in sps), f'{FR}::{cname}.__str__: `{pf.nsrc(rets[0])}` not recognised')
        ctx.check(sps == [('expr', f'{f.args.args[0].arg}._uid')], 'R4', f'{FR}::{cname}.__str__ is the uid',
                  f'`{pf.nsrc(rets[0])}`: an f-string command embeds something other than the uid the interpolation looks up', mr.path, rets[0].lineno)
    regs = 0
    from engines import c17facts
    for qual in ('Batch._new_job_resource_file', 'Batch._new_input_resource_file', 'Batch._new_resource_group', 'Batch._new_python_result'):
        _mb2, f, _il = c17facts.inline_site(mb, qual)     # a `self._register(resource)` helper is seen through
        rets = [st for st in _stmts(f) if isinstance(st, ast.Return)]
        ctx.need(len(rets) == 1 and isinstance(rets[0].value, ast.Name), f'{FB}::{qual}: expected `return <name>`')
        rn = rets[0].value.id
        found = False
        touched = False
        for st in _stmts(f):
            if any(isinstance(x, ast.Attribute) and x.attr == '_resource_map' for x in ast.walk(st)):
                touched = True
            if isinstance(st, ast.Assign) and len(st.targets) == 1 and isinstance(st.targets[0], ast.Subscript) and pf.nsrc(st.targets[0].value) == 'self._resource_map':
                if pf.nsrc(st.targets[0].slice) == f'{rn}._uid' and pf.nsrc(st.value) == rn:
                    found = True
            c = st.value if isinstance(st, ast.Expr) else None
            if isinstance(c, ast.Call) and pf.dotted(c.func) == 'self._resource_map.update' and len(c.args) == 1 and isinstance(c.args[0], ast.Dict) \
                    and [(pf.nsrc(k), pf.nsrc(v)) for k, v in zip(c.args[0].keys, c.args[0].values)] == [(f'{rn}._uid', rn)]:
                found = True
            if isinstance(c, ast.Call) and pf.dotted(c.func) == 'self._resource_map.setdefault' and [pf.nsrc(a_) for a_ in c.args] == [f'{rn}._uid', rn]:
                found = True
        if not found:
            # evidence for "not registered": the map is written under another key / with another value, or nothing in the function could register the resource
            carriers = [c for c in pf.calls_in(f) if any(isinstance(a_, ast.Name) and a_.id == rn for a_ in list(c.args) + [k.value for k in c.keywords])
                        and not (isinstance(c.func, ast.Attribute) and c.func.attr in ('add', 'append', '_add_input_path'))]
            wrong = [st for st in _stmts(f) if isinstance(st, ast.Assign) and len(st.targets) == 1 and isinstance(st.targets[0], ast.Subscript)
                     and pf.nsrc(st.targets[0].value) == 'self._resource_map' and rn in pf.names_in(st)]
            ctx.need(bool(wrong) or (not touched and not carriers) or (touched and not carriers and not any(
                isinstance(x, ast.Call) and pf.dotted(x.func) in ('self._resource_map.update', 'self._resource_map.setdefault') and rn in pf.names_in(x) for x in ast.walk(f))),
                f'{FB}::{qual}: whether `{rn}` is stored in self._resource_map under its uid is not decided')
        ctx.check(found, 'R4', f'{FB}::{qual}::registered under its uid', f'the new resource `{rn}` is not stored as `self._resource_map[{rn}._uid] = {rn}`: '
                  f'its references in commands are reported as undefined or resolve to another resource', mb.path, f.lineno)
        regs += 1

    # per job: one resource per value
    for qual, maker in (('Job._get_resource', '_new_job_resource_file'), ('PythonJob._get_python_resource', '_new_python_result')):
        f = mj.func(qual)
        where = f'{FJ}::{qual}'
        item = f.args.args[1].arg
        g = pf.cfg(f)
        mk = [c for c in pf.calls_in(f) if isinstance(c.func, ast.Attribute) and c.func.attr == maker]
        ctx.need(len(mk) == 1, f'{where}: expected one {maker} call')
        MK = g.node_of(mk[0])[0]
        guards = [n for n in g.nodes if n.kind == 'test' and isinstance(n.ast, ast.Compare) and len(n.ast.ops) == 1 and isinstance(n.ast.ops[0], (ast.NotIn, ast.In))
                  and pf.nsrc(n.ast.left) == item and pf.nsrc(n.ast.comparators[0]) == 'self._resources']
        val_ok = any(k.arg == 'value' and pf.nsrc(k.value) == item for k in mk[0].keywords) or (len(mk[0].args) >= 2 and pf.nsrc(mk[0].args[1]) == item)
        stored = [st for st in _stmts(f) if isinstance(st, ast.Assign) and len(st.targets) == 1 and pf.nsrc(st.targets[0]) == f'self._resources[{item}]']
        ok = False
        if not (len(guards) == 1 and stored):
            # evidence only when the creation is plainly unconditional; another lookup idiom (.get / try / a flag) is not decided
            ctx.need(not any(n.kind in ('test', 'except') for n in g.nodes), f'{where}: the lookup idiom guarding `{maker}` is not recognised')
        if len(guards) == 1 and stored:
            T = guards[0]
            present = 'F' if isinstance(T.ast.ops[0], ast.NotIn) else 'T'  # type: ignore[attr-defined]
            p = g.path_avoiding(T, lambda n: n is MK, lambda n: False, edge_ok=lambda a, b, lab: a is not T or lab == present)
            ST = _node(g, stored[0], 'store')
            q = g.path_avoiding(MK, lambda n: n is g.exit, lambda n: n is ST)
            ok = p is None and q is None and g.dominated_by(MK, lambda n: n is T)
        ctx.check(ok and val_ok, 'R4', f'{where}::one resource per name', f'a new resource is created for `{item}` although `self._resources[{item}]` may already exist, or it is not '
                  f'stored / not named `{item}`: `j.ofile` mentioned twice yields two resources with the same path', mj.path, f.lineno)

    # job directories: the token allocator must remember what it handed out
    f = mb.func('Batch._unique_job_token')
    where = f'{FB}::Batch._unique_job_token'
    g = pf.cfg(f)
    rets = [st for st in _stmts(f) if isinstance(st, ast.Return)]
    ctx.need(len(rets) == 1 and isinstance(rets[0].value, ast.Name), f'{where}: expected `return <token>`')
    tok = rets[0].value.id
    tests = [n for n in g.nodes if n.kind == 'test' and isinstance(n.ast, ast.Compare) and len(n.ast.ops) == 1 and isinstance(n.ast.ops[0], (ast.In, ast.NotIn))
             and pf.nsrc(n.ast.left) == tok]
    ctx.need(len(tests) == 1, f'{where}: no `{tok} in <set>` uniqueness test')
    pool = pf.nsrc(tests[0].ast.comparators[0])  # type: ignore[attr-defined]
    RET = _node(g, rets[0], 'return')
    def records(n: pf.Node) -> bool:
        for c in pf.node_calls(n):
            if isinstance(c.func, ast.Attribute) and c.func.attr == 'add' and pf.nsrc(c.func.value) == pool and [pf.nsrc(a) for a in c.args] == [tok]:
                return True
        return False
    recorded = g.dominated_by(RET, records)
    elsewhere = []
    if not recorded:
        # maybe the callers record it
        for qual, fn2 in mb.functions():
            for c in pf.calls_in(fn2):
                if isinstance(c.func, ast.Attribute) and c.func.attr in ('add', 'update') and pf.nsrc(c.func.value) == pool:
                    elsewhere.append(qual)
    ctx.need(not elsewhere, f'{where}: `{pool}` is written in {elsewhere} (unrecognised recording idiom)')
    ctx.check(recorded, 'R4', f'{where}::records the token', f'the token is tested against `{pool}` but never added to it, so `{pool}` stays empty and the uniqueness loop is dead: '
              f'two jobs of one batch can receive the same token, hence the same `_dirname`, and `j1.ofile` / `j2.ofile` get the same path under the remote tmpdir',
              mb.path, f.lineno)
    # and the token is what makes the directory name
    init = mj.func('Job.__init__')
    # the directory name is fixed at construction: command text embeds it eagerly (Job._interpolate_command), the backend reads it lazily
    # at submit time; both agree only if it cannot change in between
    jobcls = mj.cls('Job')
    props = [f for f in jobcls.body if isinstance(f, ast.FunctionDef) and f.name == '_dirname' and 'property' in pf.decorator_names(f)]
    writes = []
    for rel in (FJ, FB, FK):
        mm = pf.load(rel)
        for n in ast.walk(mm.tree):
            if isinstance(n, ast.Attribute) and n.attr == '_dirname' and isinstance(n.ctx, (ast.Store, ast.Del)):
                writes.append((rel, mm.enclosing_func(n), n))
    fixed_cons = f'{FJ}::Job::_dirname fixed at construction'
    if props:
        ctx.need(len(props) == 1 and not writes, f'{FJ}::Job._dirname: property and assignments mixed (not analysed)')
        reads = sorted({n.attr for n in ast.walk(props[0]) if isinstance(n, ast.Attribute) and isinstance(n.value, ast.Name) and n.value.id == 'self'})
        unstable = []
        for a in reads:
            ws = [(rel, mm2.enclosing_func(n)) for rel in (FJ, FB, FK) for mm2 in [pf.load(rel)] for n in ast.walk(mm2.tree)
                  if isinstance(n, ast.Attribute) and n.attr == a and isinstance(n.ctx, (ast.Store, ast.Del)) and _may_be_job(mm2, n)]
            once = bool(ws) and all(rel == FJ and fn is init for rel, fn in ws)
            if not (a.startswith('_') and once):
                unstable.append(a)
        ctx.check(not unstable, 'R4', fixed_cons, f'`_dirname` is a property computed from {["self." + a for a in unstable]}, which can change after construction (public attribute / written outside '
                  '__init__): the path already substituted into the command text and the path the backend computes at submit time then differ, so the producer uploads from / the consumer '
                  'downloads to a location the command does not use', mj.path, props[0].lineno)
        alts = [r.value for r in pf.walk_shallow(props[0]) if isinstance(r, ast.Return) and r.value is not None]
        ctx.need(bool(alts), f'{FJ}::Job._dirname: property returns nothing')
        anchor_line = props[0].lineno
        shown = f'property _dirname returning {[pf.nsrc(a) for a in alts]}'
    else:
        dn = [st for st in _stmts(init) if isinstance(st, ast.Assign) and len(st.targets) == 1 and _is_attr(st.targets[0], 'self', '_dirname')]
        ctx.need(len(dn) == 1, f'{FJ}::Job.__init__: `self._dirname` assignment not found')
        other = [(rel, fn.name if fn is not None else '<module>') for rel, fn, n in writes if not (rel == FJ and fn is init)]
        ctx.check(not other, 'R4', fixed_cons, f'`_dirname` is re-assigned in {other}: the path already substituted into command text and the path computed at submit time differ',
                  mj.path, dn[0].lineno)
        v = dn[0].value
        alts = [v.body, v.orelse] if isinstance(v, ast.IfExp) else [v]
        anchor_line = dn[0].lineno
        shown = pf.nsrc(dn[0])
    tail_ok = True
    for a in alts:
        if isinstance(a, ast.IfExp):
            sub = [a.body, a.orelse]
        else:
            sub = [a]
        for a2 in sub:
            ps = _parts(a2)
            tail_ok = tail_ok and bool(ps) and ps[-1] == ('expr', 'self._token')
    ctx.check(tail_ok, 'R4', f'{FJ}::Job.__init__::_dirname ends with the token', f'`{shown}`: the job directory is not made unique by the per-batch token', mj.path, anchor_line)
    for qual, cls in (('Batch.new_bash_job', 'BashJob'), ('Batch.new_python_job', 'PythonJob')):
        f2 = mb.func(qual)
        mk = [c for c in pf.calls_in(f2) if (pf.dotted(c.func) or '').endswith(cls)]
        ctx.need(len(mk) == 1, f'{FB}::{qual}: constructor call not found')
        tk = [k.value for k in mk[0].keywords if k.arg == 'token'] or mk[0].args[1:2]
        t0 = pf.resolve_expr(f2, tk[0]) if tk else None
        ctx.check(isinstance(t0, ast.Call) and pf.dotted(t0.func) == 'self._unique_job_token', 'R4', f'{FB}::{qual}::token from the allocator',
                  f'the job token is `{pf.nsrc(t0) if t0 is not None else None}`, not self._unique_job_token()', mb.path, mk[0].lineno)
    ctx.unit('functions', 16)


def _may_be_job(mm: pf.Module, n: ast.Attribute) -> bool:
    """Can the receiver of this attribute write be a Job?  `self.x` inside a class that is not Job / a subclass of Job cannot."""
    if not (isinstance(n.value, ast.Name) and n.value.id == 'self'):
        return True
    par = mm.parents()
    cur = par.get(n)
    while cur is not None and not isinstance(cur, ast.ClassDef):
        cur = par.get(cur)
    if cur is None:
        return True
    return cur.name == 'Job' or any((pf.dotted(b) or '').split('.')[-1] in ('Job', 'BashJob', 'PythonJob') for b in cur.bases)


def run(ctx: Ctx) -> None:
    ctx.level = 'other'
    ctx.explanation = ('Writer/reader path expressions of ServiceBackend._async_run compared after normalisation, create_job arguments followed through def-use, '
                       'recording effects checked as must-pass-through on the CFG of both recording sites, structural checks of uid/token allocators; nothing is run.')
    ctx.rule('R1', 'upload location == download location (remote and local side), external outputs and staged inputs use the same expressions, BATCH_TMPDIR is the '
                   'local directory and the last word in the env mapping (job._env cannot override it; the mapping is followed through displays, dict(), |, update/setdefault and helpers), '
                   '_compile gets (local, remote), every _get_path(directory) is directory + suffix', 12)
    ctx.rule('R2', 'create_job: parents from _dependencies via _client_job, input_files from _inputs, output_files from _internal_outputs + _external_outputs; '
                   'both recording sites record foreign resources as inputs / producer internal outputs; parents iterate the full _dependencies and no statement '
                   'of hailtop/batch removes an element from any _dependencies set', 19)
    ctx.rule('R3', "interpolation handler's replacement is one bash word <${BATCH_TMPDIR}><path as literal text> (shlex.quote, or an escape covering every character "
                   'active in the quoting state of the insertion point), raises for unknown uids, one re.sub over all resource patterns, command() stores the result', 7)
    ctx.rule('R4', 'uids fresh per allocation, allocation through the owning class, prefix-free prefixes, patterns = prefix + digits, str(resource) = uid, registration under '
                   'uid, one resource per (job, name), job directory token recorded by its allocator', 28)
    ctx.assume('re.sub replaces exactly the non-overlapping matches and leaves all other text unchanged')
    ctx.assume('a job directory is unique within a batch iff its token is; renaming through add_extension and user-chosen group member names are outside the decided clause')
    _service(ctx)
    _deps_monotone(ctx)
    _get_paths(ctx)
    _recording(ctx)
    _interpolation(ctx)
    _uids(ctx)
    ctx.unit('files', 4)
