"""C18 Batch DSL resource plumbing is consistent.

Decides (from the syntax trees of hailtop/batch/{backend,job,resource,batch}.py; nothing is run):
  R1  writer location == reader location in ServiceBackend._async_run: the pair returned by copy_internal_output is
      (local, remote) and the job-resource pair of copy_input is the same two expressions swapped; copy_external_output reads the
      same local expression; a locally staged input is uploaded to the very `dest` it is later downloaded from; the environment
      variable the commands are written against (BATCH_TMPDIR) is the directory of the local side AND is the binding that wins in the
      mapping handed to create_job: the construction of `env=` is followed as an ordered list of entries (dict display with ** parts,
      dict(), `|`, update / setdefault / subscript stores / `if K not in d` on a local of the job loop, expression helpers inlined,
      statement helpers analysed with their parameters substituted) and no mapping the user controls (job._env, which Job.env fills
      with any name) may be merged after the BATCH_TMPDIR entry, nor may that entry be a mere default; `_compile` receives
      (local, remote) in parameter order; every concrete `_get_path(directory)` is `directory + <suffix not mentioning directory>`
      so that `_get_path(d) == d + _get_path('')`
  R2  create_job: parents derive from `job._dependencies` through `_client_job` (written after create_job of the parent),
      input_files from `job._inputs` x copy_input, output_files from `_internal_outputs` x copy_internal_output followed by
      `_external_outputs` x copy_external_output; both recording sites in job.py put a foreign resource in `_inputs`
      and a foreign job resource in the producer's `_internal_outputs`; the collection `parents=` iterates is the job's full
      `_dependencies` (same elements; a filtered / reduced derivative is a violation) and, as a who-may-write rule over every module
      of hailtop/batch, nothing ever removes an element from any job's `_dependencies` (remove / discard / pop / clear / -= / &= /
      difference_update / re-assignment to a possible subset, also through a local alias): monotone between recording and submission
  R3  interpolation: the handler's replacement, with local variables expanded and one-expression helpers inlined, is lexed as ONE bash
      word with a three-state (unquoted / single / double quote) lexer and must be <expansion of BATCH_TMPDIR><path as literal text>:
      shlex.quote of the whole path in unquoted position, or an escaping function (replace chain / translate table / re.sub over a
      character class, composed as a letter-to-string homomorphism) that neutralises every character still special in the quoting
      state the path is inserted in (dollar, back-tick, backslash and double quote inside double quotes) without mangling ordinary ones, quotes balanced at the end; it
      raises for unknown uids, is applied by one re.sub over the union of the resource patterns to the given command, whose result is
      what `command()` stores
  R4  distinctness: uid allocators return prefix + str(counter) and bump the counter on every call; allocation sites name the
      class that owns the counter; uid prefixes are prefix-free; patterns are built from the prefix; resources are registered and
      looked up under `_uid`, which is what `str(resource)` yields; job-output paths are functions of (job directory, value);
      per job one resource per value; the per-batch job-directory token allocator records the tokens it hands out
Does not decide: quoting inside the generated python3 -c wrapper of PythonJob; history expansion (`!`, off in `bash -c`); collisions created by renaming a resource after creation
(`add_extension`) or by resource-group member names chosen by the user; random-name collisions of input files.
"""
from __future__ import annotations

import ast
from typing import Dict, List, Optional, Tuple

from engines import c1819facts as facts, pyfacts as pf, strparts
from engines.common import AnalysisError, Ctx
from rules.c17 import RecordingSite, call_pred, _is_attr, _nested_defs, _node, _stmts, _inside

META = dict(
    category='other',
    text='Sibling agreement between the writer and reader path expressions of the service back end, def-use of the create_job arguments, '
         'must-pass-through of the resource recording effects on the CFG of both recording sites, and structural checks of the uid / token '
         'allocators. Necessary conditions only: the property itself quantifies over all pipelines and runtime path strings.',
    note='Trusted: CPython ast; engines/pyfacts CFG; str concatenation / f-string semantics; re.sub replaces exactly the matches; '
         'bash word lexing rules (quote removal, backslash inside double quotes only before $ ` " \\ newline). Not decided: renaming after creation (add_extension), user-chosen resource-group file names.',
    technique='static analysis: sibling agreement of normalised path expressions, def-use, CFG must-pass-through, who-may-write over a set attribute, '
              'shell-word lexing of the literal replacement with escape helpers as letter-to-string homomorphisms over a finite character-class table',
    design_ref='DESIGN.md §3 C18',
)

FK = 'hail/python/hailtop/batch/backend.py'
FJ = 'hail/python/hailtop/batch/job.py'
FR = 'hail/python/hailtop/batch/resource.py'
FB = 'hail/python/hailtop/batch/batch.py'

Part = Tuple[str, str]
_parts = strparts.parts


def _single_return(ctx: Ctx, fn: pf.FuncDef, where: str, outside: Optional[ast.AST] = None) -> ast.Return:
    rets = [st for st in _stmts(fn) if isinstance(st, ast.Return) and (outside is None or not _inside(outside, st))]
    ctx.need(len(rets) == 1, f'{where}: expected exactly one return{" outside the input-file branch" if outside is not None else ""}, found {len(rets)}')
    return rets[0]


def _pair(ctx: Ctx, ret: ast.Return, where: str) -> Tuple[ast.AST, ast.AST]:
    v = ret.value
    ctx.need(isinstance(v, ast.List) and len(v.elts) == 1 and isinstance(v.elts[0], ast.Tuple) and len(v.elts[0].elts) == 2,
             f'{where}: `{pf.nsrc(ret)}` is not a one-element list of (source, destination)')
    return v.elts[0].elts[0], v.elts[0].elts[1]  # type: ignore[union-attr]


def _get_path_arg(e: ast.AST, r: str, fn: Optional[pf.FuncDef] = None) -> Optional[str]:
    """`<r>._get_path(<name or dotted name>)` -> its source text (a local alias of the call is followed)."""
    if isinstance(e, ast.Name) and fn is not None:
        d = pf.single_def(fn, e.id)
        if isinstance(d, ast.expr):
            e = d
    if isinstance(e, ast.Call) and isinstance(e.func, ast.Attribute) and e.func.attr == '_get_path' and isinstance(e.func.value, ast.Name) \
            and e.func.value.id == r and len(e.args) == 1 and not e.keywords and pf.dotted(e.args[0]) is not None:
        return pf.dotted(e.args[0])
    return None


# ------------------------------------------------------------------------------------------------
# R1 / R2: the service back end
# ------------------------------------------------------------------------------------------------

def _service(ctx: Ctx) -> None:
    m = pf.load(FK)
    fn = m.func('ServiceBackend._async_run')
    where = f'{FK}::ServiceBackend._async_run'
    defs = {d.name: d for d in _nested_defs(fn)}
    for name in ('copy_input', 'copy_internal_output', 'copy_external_output'):
        ctx.need(name in defs and len(defs[name].args.args) == 1, f'{where}: nested {name}(r) not found')

    def input_branch(f: pf.FuncDef) -> Optional[ast.If]:
        r = f.args.args[0].arg
        for st in f.body:
            if isinstance(st, ast.If) and isinstance(st.test, ast.Call) and pf.dotted(st.test.func) == 'isinstance' and len(st.test.args) == 2 \
                    and isinstance(st.test.args[0], ast.Name) and st.test.args[0].id == r and (pf.dotted(st.test.args[1]) or '').endswith('InputResourceFile'):
                return st
        return None

    # writer
    w = defs['copy_internal_output']
    wr = w.args.args[0].arg
    w_src, w_dst = _pair(ctx, _single_return(ctx, w, f'{where}.copy_internal_output'), f'{where}.copy_internal_output')
    w_local, w_remote = _get_path_arg(w_src, wr, w), _get_path_arg(w_dst, wr, w)
    ctx.need(w_local is not None and w_remote is not None, f'{where}.copy_internal_output: pair is not (r._get_path(<dir>), r._get_path(<dir>))')
    # reader
    rd = defs['copy_input']
    rr = rd.args.args[0].arg
    ib = input_branch(rd)
    ctx.need(ib is not None, f'{where}.copy_input: no isinstance(r, InputResourceFile) branch')
    r_src, r_dst = _pair(ctx, _single_return(ctx, rd, f'{where}.copy_input', outside=ib), f'{where}.copy_input')
    r_remote, r_local = _get_path_arg(r_src, rr, rd), _get_path_arg(r_dst, rr, rd)
    ctx.need(r_local is not None and r_remote is not None, f'{where}.copy_input: job-resource pair is not (r._get_path(<dir>), r._get_path(<dir>))')
    for v in {w_local, w_remote, r_local, r_remote}:
        if '.' in v:  # type: ignore[operator]
            continue
        ctx.need(len(pf.assignments(fn).get(v, [])) == 1, f'{where}: directory variable `{v}` is not assigned exactly once')  # type: ignore[arg-type]
        for d in defs.values():
            ctx.need(v not in pf.assignments(d), f'{where}.{d.name}: shadows `{v}`')
    ctx.need(w_local != w_remote, f'{where}.copy_internal_output: source and destination are the same directory')
    ctx.check(w_remote == r_remote, 'R1', f'{where}::upload destination == download source',
              f'copy_internal_output uploads a job resource to `r._get_path({w_remote})` but copy_input downloads it from `r._get_path({r_remote})`: '
              f'the consumer of j.ofile fetches a location the producer never wrote', m.path, rd.lineno)
    ctx.check(w_local == r_local, 'R1', f'{where}::local side of upload == local side of download',
              f'the producer uploads from `r._get_path({w_local})` but the consumer downloads to `r._get_path({r_local})`', m.path, rd.lineno)
    local, remote = w_local, w_remote

    # external outputs read the same local path
    x = defs['copy_external_output']
    xr = x.args.args[0].arg
    xb = input_branch(x)
    xret = _single_return(ctx, x, f'{where}.copy_external_output', outside=xb)
    xv = xret.value
    ctx.need(isinstance(xv, ast.ListComp) and isinstance(xv.elt, ast.Tuple) and len(xv.elt.elts) == 2 and len(xv.generators) == 1,
             f'{where}.copy_external_output: return is not a list comprehension of pairs')
    gen = xv.generators[0]  # type: ignore[union-attr]
    x_local = _get_path_arg(xv.elt.elts[0], xr, x)  # type: ignore[union-attr]
    dst_ok = isinstance(xv.elt.elts[1], ast.Name) and isinstance(gen.target, ast.Name) and xv.elt.elts[1].id == gen.target.id and _is_attr(gen.iter, xr, '_output_paths') and not gen.ifs  # type: ignore[union-attr]
    ctx.check(x_local == local and dst_ok, 'R1', f'{where}::external output read from the local path',
              f'copy_external_output yields `{pf.nsrc(xv.elt)}` over `{pf.nsrc(gen.iter)}`; expected (r._get_path({local}), dest) for every dest in r._output_paths',  # type: ignore[union-attr]
              m.path, xret.lineno)

    # locally staged input: uploaded to the dest it is downloaded from
    ups = [c for c in pf.calls_in(ib) if isinstance(c.func, ast.Attribute) and c.func.attr == 'append' and len(c.args) == 1 and isinstance(c.args[0], ast.Dict)]
    ctx.need(len(ups) == 1, f'{where}.copy_input: transfer record not found')
    inner = [st for st in ast.walk(ib) if isinstance(st, ast.If) and st is not ib and _inside(st, ups[0])]
    ctx.need(len(inner) == 1, f'{where}.copy_input: the staging branch is not a single nested if')
    stage = [st for st in ast.walk(inner[0]) if isinstance(st, ast.Return)]
    ctx.need(len(stage) == 1, f'{where}.copy_input: staged-input return not found')
    s_src, s_dst = _pair(ctx, stage[0], f'{where}.copy_input')
    rec = {pf.const_str(k): v for k, v in zip(ups[0].args[0].keys, ups[0].args[0].values) if k is not None}  # type: ignore[union-attr]
    ctx.need('from' in rec and 'to' in rec, f'{where}.copy_input: transfer record has no from/to')
    to_ok = pf.nsrc(rec['to']) == pf.nsrc(s_src) and _is_attr(rec['from'], rr, '_input_path') and not _is_attr(s_src, rr, '_input_path')
    st_local = _get_path_arg(s_dst, rr, rd)
    ctx.check(to_ok and st_local == local, 'R1', f'{where}.copy_input::staged input',
              f'a local input file is uploaded `{pf.nsrc(ups[0].args[0])}` but the job downloads `{pf.nsrc(stage[0].value)}`: upload target and download source differ '
              f'or the local side is not r._get_path({local})', m.path, stage[0].lineno)
    lists = [pf.nsrc(c.func.value) for c in ups]  # type: ignore[union-attr]
    flush = [c for c in pf.calls_in(fn) if pf.dotted(c.func) == 'copy_from_dict' and any(k.arg == 'files' and pf.nsrc(k.value) == lists[0] for k in c.keywords)]
    ctx.check(len(flush) == 1, 'R1', f'{where}::staged inputs are uploaded', f'`{lists[0]}` is never passed to copy_from_dict(files=...): staged inputs are not uploaded', m.path, fn.lineno)
    # other input-file branch: remote inputs are read in place to the local path
    in_rets = [st for st in ast.walk(ib) if isinstance(st, ast.Return) and st is not stage[0]]
    ctx.need(len(in_rets) == 1, f'{where}.copy_input: expected one return for remote input files')
    a, b = _pair(ctx, in_rets[0], f'{where}.copy_input')
    ctx.check(_is_attr(a, rr, '_input_path') and _get_path_arg(b, rr) == local, 'R1', f'{where}.copy_input::remote input',
              f'`{pf.nsrc(in_rets[0])}` is not (r._input_path, r._get_path({local}))', m.path, in_rets[0].lineno)

    # ---- the job loop
    creates = [c for c in pf.calls_in(fn) if isinstance(c.func, ast.Attribute) and c.func.attr == 'create_job' and any(k.arg == 'parents' for k in c.keywords)
               and any(k.arg == 'input_files' for k in c.keywords)]
    ctx.need(len(creates) == 1, f'{where}: expected one create_job(..., parents=, input_files=, ...) call')
    cj = creates[0]
    loops = [st for st in _stmts(fn) if isinstance(st, ast.For) and _inside(st, cj) and isinstance(st.target, ast.Name)]
    ctx.need(len(loops) == 1, f'{where}: create_job is not in a single job loop')
    loop = loops[0]
    jv = loop.target.id  # type: ignore[attr-defined]
    g = pf.cfg(fn)
    CJ = g.node_of(cj)
    ctx.need(len(CJ) == 1, f'{where}: create_job node')
    kw = {k.arg: k.value for k in cj.keywords if k.arg}

    body_defs: Dict[str, List[ast.stmt]] = {}
    for st in _stmts(loop):
        if isinstance(st, (ast.Assign, ast.AugAssign, ast.AnnAssign)):
            t = st.targets[0] if isinstance(st, ast.Assign) else st.target
            if isinstance(t, ast.Name):
                body_defs.setdefault(t.id, []).append(st)
        elif isinstance(st, ast.Expr) and isinstance(st.value, ast.Call) and isinstance(st.value.func, ast.Attribute) and isinstance(st.value.func.value, ast.Name):
            c = st.value
            if c.func.attr == 'extend' and len(c.args) == 1:  # type: ignore[attr-defined]
                aug = ast.AugAssign(target=ast.Name(c.func.value.id, ast.Store()), op=ast.Add(), value=c.args[0])  # type: ignore[attr-defined]
                ast.copy_location(aug, st)
                aug._orig = st  # type: ignore[attr-defined]
                body_defs.setdefault(c.func.value.id, []).append(aug)  # type: ignore[attr-defined]
            elif c.func.attr in ('append', 'insert', 'remove', 'pop', 'clear', 'sort', 'reverse'):  # type: ignore[attr-defined]
                body_defs.setdefault(c.func.value.id, []).append(st)  # type: ignore[attr-defined]

    def unwrap_opt(e: ast.AST) -> ast.AST:
        # `x if len(x) > 0 else None` / `x or None` -> x
        if isinstance(e, ast.IfExp) and isinstance(e.orelse, ast.Constant) and e.orelse.value is None and isinstance(e.body, ast.Name) \
                and e.body.id in pf.names_in(e.test):
            return e.body
        if isinstance(e, ast.BoolOp) and isinstance(e.op, ast.Or) and len(e.values) == 2 and isinstance(e.values[1], ast.Constant) and e.values[1].value is None:
            return e.values[0]
        return e

    def flat_comp(e: ast.AST, attr: str, helper: str) -> bool:
        """[x for r in <job>.<attr> for x in <helper>(r)]"""
        if not (isinstance(e, ast.ListComp) and len(e.generators) == 2 and isinstance(e.elt, ast.Name)):
            return False
        g1, g2 = e.generators
        return (not g1.ifs and not g2.ifs and isinstance(g1.target, ast.Name) and _is_attr(g1.iter, jv, attr)
                and isinstance(g2.iter, ast.Call) and isinstance(g2.iter.func, ast.Name) and g2.iter.func.id == helper
                and [pf.nsrc(a) for a in g2.iter.args] == [g1.target.id] and isinstance(g2.target, ast.Name) and g2.target.id == e.elt.id)

    def defs_of(name: str) -> List[ast.stmt]:
        ds = body_defs.get(name, [])
        for st in ds:
            n = [x for x in g.nodes if x.ast is getattr(st, '_orig', st)]
            ctx.need(len(n) == 1 and g.dominated_by(CJ[0], lambda y, n0=n[0]: y is n0), f'{where}: definition `{pf.nsrc(st)}` does not dominate create_job')
        return ds

    # inputs
    iv = unwrap_opt(kw['input_files'])
    ctx.need(isinstance(iv, ast.Name), f'{where}: input_files=`{pf.nsrc(kw["input_files"])}` not recognised')
    ds = defs_of(iv.id)  # type: ignore[union-attr]
    ok = len(ds) == 1 and isinstance(ds[0], ast.Assign) and flat_comp(ds[0].value, '_inputs', 'copy_input')
    ctx.check(ok, 'R2', f'{where}::input_files', f'input_files is built by {[pf.nsrc(d) for d in ds]}; expected copy_input(r) for every r in {jv}._inputs: '
              f'a consumed resource is not downloaded into the job', m.path, cj.lineno)
    # outputs
    ov = unwrap_opt(kw.get('output_files', ast.Constant(None)))
    ctx.need(isinstance(ov, ast.Name), f'{where}: output_files not recognised')
    ds = defs_of(ov.id)  # type: ignore[union-attr]
    seen_int = [d for d in ds if isinstance(d, ast.Assign) and flat_comp(d.value, '_internal_outputs', 'copy_internal_output')]
    seen_ext = [d for d in ds if isinstance(d, ast.AugAssign) and isinstance(d.op, ast.Add) and flat_comp(d.value, '_external_outputs', 'copy_external_output')]
    ctx.check(len(ds) == 2 and len(seen_int) == 1 and len(seen_ext) == 1 and ds[0] is seen_int[0], 'R2', f'{where}::output_files',
              f'output_files is built by {[pf.nsrc(d) for d in ds]}; expected copy_internal_output over {jv}._internal_outputs then += copy_external_output over '
              f'{jv}._external_outputs: a resource another job reads is never uploaded', m.path, cj.lineno)
    # parents
    pe = kw['parents']
    chain: List[str] = []
    cur: ast.AST = pe
    for _ in range(8):
        if isinstance(cur, ast.Name) and cur.id in body_defs:
            d = defs_of(cur.id)
            ctx.need(len(d) == 1 and isinstance(d[0], ast.Assign), f'{where}: `{cur.id}` has several definitions')
            cur = d[0].value  # type: ignore[attr-defined]
            continue
        if isinstance(cur, ast.ListComp) and len(cur.generators) == 1 and not cur.generators[0].ifs and isinstance(cur.generators[0].target, ast.Name) \
                and isinstance(cur.elt, ast.Attribute) and isinstance(cur.elt.value, ast.Name) and cur.elt.value.id == cur.generators[0].target.id:
            chain.append(cur.elt.attr)
            cur = cur.generators[0].iter
            continue
        if chain and isinstance(cur, ast.Call) and isinstance(cur.func, ast.Name) and cur.func.id in ('sorted', 'list', 'tuple') and len(cur.args) == 1 \
                and all(k.arg in ('key', 'reverse') for k in cur.keywords):
            cur = cur.args[0]  # a re-ordering of the parents: same elements
            continue
        break
    # the iterated collection must be the job's full dependency set, not a filtered / reduced derivative of it
    rel = facts.derive(cur, lambda x: _is_attr(x, jv, '_dependencies'))
    empty = (isinstance(cur, ast.Constant) and cur.value is None) or (isinstance(cur, ast.List) and not cur.elts)
    base_ok = rel == 'same'
    ctx.need(rel in ('same', 'subset') or empty or isinstance(cur, (ast.Attribute, ast.Name)), f'{where}: parents=`{pf.nsrc(pe)}` not recognised')
    reduced = f' (the iterated collection is a filtered / reduced derivative that can lack elements of {jv}._dependencies; e.g. {_DEP_STORY})' if rel == 'subset' else ''
    ctx.check(base_ok and chain == ['_async_job', '_client_job'], 'R2', f'{where}::parents',
              f'parents resolves to the projection {list(reversed(chain))} of `{pf.nsrc(cur)}`; expected `._client_job._async_job` of every job in {jv}._dependencies: '
              f'the consumer is not submitted as a child of the producer and may start before the upload{reduced}', m.path, cj.lineno)
    res = [t.id for st in _stmts(loop) if isinstance(st, ast.Assign) and st.value is cj for t in st.targets if isinstance(t, ast.Name)]
    ctx.need(len(res) == 1, f'{where}: create_job result is not bound to a name')
    marks = [st for st in _stmts(loop) if isinstance(st, ast.Assign) and len(st.targets) == 1 and _is_attr(st.targets[0], jv, '_client_job')]
    mk_ok = len(marks) == 1 and isinstance(marks[0].value, ast.Call) and [pf.nsrc(a) for a in marks[0].value.args] == [res[0]] \
        and (pf.dotted(marks[0].value.func) or '').endswith('Job')
    if mk_ok:
        MK = _node(g, marks[0], 'client job mark')
        L = _node(g, loop, 'job loop')
        # every iteration that created a job records it before the next iteration
        p = g.path_avoiding(CJ[0], lambda n: n is L, lambda n: n is MK)
        mk_ok = p is None
    ctx.check(mk_ok, 'R2', f'{where}::{jv}._client_job = Job(<created>)', f'the created job is not recorded in `{jv}._client_job` before the next job is built '
              f'({[pf.nsrc(x) for x in marks]}): children cannot name it as a parent', m.path, cj.lineno)

    # env / BATCH_TMPDIR and _compile argument order
    _tmpdir_env(ctx, m, fn, where, defs, loop, jv, cj, kw, local)
    comp = [c for c in pf.calls_in(fn, into_nested_defs=True) if isinstance(c.func, ast.Attribute) and c.func.attr == '_compile']
    ctx.need(len(comp) == 1, f'{where}: expected one _compile call')
    mj = pf.load(FJ)
    sigs = []
    for q in ('Job._compile', 'BashJob._compile', 'PythonJob._compile'):
        sigs.append([a.arg for a in mj.func(q).args.args][1:3])
    ctx.need(all(s == sigs[0] for s in sigs) and len(sigs[0]) == 2, f'{FJ}: _compile signatures differ: {sigs}')
    role = {'local_tmpdir': local, 'remote_tmpdir': remote}
    ctx.need(set(sigs[0]) == set(role), f'{FJ}: _compile parameters are {sigs[0]}, expected local_tmpdir/remote_tmpdir')
    got = [pf.nsrc(a) for a in comp[0].args[:2]]
    ctx.check(got == [role[p] for p in sigs[0]], 'R1', f'{where}::_compile(local, remote)',
              f'`{pf.nsrc(comp[0])}` passes {got} for parameters {sigs[0]}: code and argument files are written under one directory and read from the other',
              m.path, comp[0].lineno)
    ctx.unit('functions', 5)


TMPVAR = 'BATCH_TMPDIR'


def _preceding_in_loop(loop: ast.AST, stmt: ast.stmt) -> Optional[List[ast.stmt]]:
    """The statements of one loop iteration that are executed before `stmt` whenever `stmt` is reached: its earlier siblings and the earlier
    siblings of every compound statement around it, outermost first.  None if stmt is not inside the loop."""
    par: Dict[ast.AST, Tuple[ast.AST, List[ast.stmt]]] = {}
    for p in ast.walk(loop):
        for fld in ('body', 'orelse', 'finalbody'):
            blk = getattr(p, fld, None)
            if isinstance(blk, list):
                for c in blk:
                    if isinstance(c, ast.stmt):
                        par[c] = (p, blk)
        for h in getattr(p, 'handlers', []) or []:
            for c in h.body:
                par[c] = (p, h.body)
    out: List[List[ast.stmt]] = []
    cur: ast.AST = stmt
    while cur is not loop:
        if cur not in par:
            return None
        p, blk = par[cur]
        i = [k for k, x in enumerate(blk) if x is cur][0]
        out.append(blk[:i])
        cur = p
    return [st for blk in reversed(out) for st in blk]


def _bind_call(f: ast.FunctionDef, call: ast.Call, drop_first: bool) -> Optional[Dict[str, ast.expr]]:
    a = f.args
    if a.vararg or a.kwarg or a.posonlyargs or any(isinstance(x, ast.Starred) for x in call.args) or any(k.arg is None for k in call.keywords):
        return None
    pos = [x.arg for x in a.args][1 if drop_first else 0:]
    names = pos + [x.arg for x in a.kwonlyargs]
    if len(call.args) > len(pos):
        return None
    bound: Dict[str, ast.expr] = dict(zip(pos, call.args))
    for k in call.keywords:
        if k.arg in bound or k.arg not in names:
            return None
        bound[k.arg] = k.value  # type: ignore[index]
    for p_, d in list(zip(pos[len(pos) - len(a.defaults):], a.defaults)) + [(x.arg, d) for x, d in zip(a.kwonlyargs, a.kw_defaults) if d is not None]:
        bound.setdefault(p_, d)
    return bound if all(n in bound for n in names) else None


def _subst(e: ast.AST, bound: Dict[str, ast.expr]) -> ast.AST:
    import copy

    class _S(ast.NodeTransformer):
        def visit_Name(self, n: ast.Name):
            if isinstance(n.ctx, ast.Load) and n.id in bound:
                return copy.deepcopy(bound[n.id])
            return n

        def visit_Lambda(self, n):
            return n
    return _S().visit(copy.deepcopy(e))


def _tmpdir_env(ctx: Ctx, m: pf.Module, fn: pf.FuncDef, where: str, nested: Dict[str, pf.FuncDef], loop: ast.For, jv: str, cj: ast.Call,
                kw: Dict[str, ast.expr], local: str) -> None:
    """R1: the commands are written against '${BATCH_TMPDIR}' + <relative path> (Job._interpolate_command) while input_files / output_files use
    r._get_path(<local>): the two agree only if the environment handed to create_job binds BATCH_TMPDIR to <local> and nothing the user controls
    (job._env, filled by Job.env with any variable name) is merged on top of that binding.  The construction of the mapping is followed through
    dict displays, dict(), `|`, update / setdefault / subscript stores on a local of the job loop, and helper functions (expression helpers are
    inlined, statement helpers are analysed as a block with their parameters substituted)."""
    cons = f'{where}::BATCH_TMPDIR == local directory'
    ev = kw.get('env')
    ctx.need(ev is not None, f'{where}: create_job has no env=')
    cj_stmt = [st for st in _stmts(loop) if any(x is cj for x in ast.walk(st)) and not isinstance(st, (ast.For, ast.AsyncFor, ast.While, ast.If, ast.With, ast.AsyncWith, ast.Try))]
    ctx.need(len(cj_stmt) == 1, f'{where}: statement of the create_job call not found')
    before = _preceding_in_loop(loop, cj_stmt[0])
    ctx.need(before is not None, f'{where}: create_job statement not located in the job loop')
    mod_funcs = {st.name: st for st in m.tree.body if isinstance(st, ast.FunctionDef)}
    cls_funcs = {st.name: st for st in m.cls('ServiceBackend').body if isinstance(st, ast.FunctionDef)}
    plain_nested = {k: v for k, v in nested.items() if isinstance(v, ast.FunctionDef)}

    def inline(e: ast.AST) -> ast.AST:
        return facts.inline_expr_calls(m, e, cls='ServiceBackend', extra=plain_nested)

    def helper_of(c: ast.AST) -> Optional[Tuple[ast.FunctionDef, bool]]:
        if not isinstance(c, ast.Call):
            return None
        if isinstance(c.func, ast.Name) and c.func.id in {**mod_funcs, **plain_nested}:
            return {**mod_funcs, **plain_nested}[c.func.id], False
        if isinstance(c.func, ast.Attribute) and isinstance(c.func.value, ast.Name) and c.func.value.id in ('self', 'ServiceBackend') and c.func.attr in cls_funcs:
            f = cls_funcs[c.func.attr]
            decs = pf.decorator_names(f)
            if all(d in ('staticmethod',) for d in decs):
                return f, 'staticmethod' not in decs
        return None

    def entries_of_expr(e: ast.AST, depth: int = 0) -> List[facts.Entry]:
        """Entries of a mapping expression; opaque parts that are calls of statement helpers defined in this file are opened."""
        out: List[facts.Entry] = []
        for ent in facts.dict_entries(inline(e)):
            h = helper_of(ent[1]) if ent[0] == 'spread' else None  # type: ignore[arg-type]
            if h is None or depth >= 3:
                out.append(ent)
                continue
            f, drop = h
            call: ast.Call = ent[1]  # type: ignore[assignment]
            hw = f'{FK}::{f.name}'
            bound = _bind_call(f, call, drop)
            ctx.need(bound is not None, f'{hw}: arguments of `{pf.nsrc(call)}` do not bind')
            body = [st for st in f.body if not (isinstance(st, ast.Expr) and isinstance(st.value, ast.Constant))]
            rets = [st for st in pf.walk_shallow(f) if isinstance(st, ast.Return)]
            ctx.need(len(rets) == 1 and body and body[-1] is rets[0] and rets[0].value is not None, f'{hw}: expected a single `return` at the end of the environment helper')
            stores = {x.id for x in pf.walk_shallow(f) if isinstance(x, ast.Name) and isinstance(x.ctx, ast.Store)}
            ctx.need(not (stores & set(bound)), f'{hw}: a parameter is re-assigned')  # type: ignore[arg-type]
            rv = rets[0].value
            if isinstance(rv, ast.Name) and rv.id in stores:
                sub = facts.dict_var_entries(body[:-1], rv.id, TMPVAR)
                ctx.need(sub is not None, f'{hw}: `{rv.id}` is not built in the helper')
            else:
                ctx.need(len(body) == 1 or not any(isinstance(x, ast.Name) and x.id in stores for x in ast.walk(rv)), f'{hw}: returned expression uses helper locals (not analysed)')
                sub = facts.dict_entries(rv)
            for kind, k, v in sub:  # type: ignore[union-attr]
                k2 = _subst(k, bound) if isinstance(k, ast.AST) else k  # type: ignore[arg-type]
                v2 = _subst(v, bound) if v is not None else None  # type: ignore[arg-type]
                if kind == 'spread':
                    out += entries_of_expr(k2, depth + 1)  # type: ignore[arg-type]
                else:
                    out.append((kind, k2, v2))
        return out

    try:
        if isinstance(ev, ast.Name):
            name = ev.id
            ctx.need(name not in {a.arg for a in fn.args.args + fn.args.kwonlyargs}, f'{where}: env=`{name}` is a parameter')
            raw = facts.dict_var_entries(before, name, TMPVAR)  # type: ignore[arg-type]
            ctx.need(raw is not None, f'{where}: env=`{name}` is not built inside the job loop before create_job')
            entries: List[facts.Entry] = []
            for ent in raw:  # type: ignore[union-attr]
                entries += entries_of_expr(ent[1]) if ent[0] == 'spread' else [ent]  # type: ignore[arg-type]
        else:
            entries = entries_of_expr(ev)
    except facts.DictShapeError as ex:
        raise AnalysisError(f'{where}: construction of env= not recognised: {ex}') from ex

    def spread_kind(e: ast.AST) -> str:
        e = facts.expand_locals_except(fn, e, stop={jv}, depth=2)
        if any(isinstance(x, ast.Attribute) and x.attr == '_env' and isinstance(x.value, ast.Name) and x.value.id == jv for x in ast.walk(e)):
            return 'may'
        return 'unknown'

    try:
        verdict, value, over = facts.final_binding(entries, TMPVAR, spread_kind)
    except facts.DictShapeError as ex:
        raise AnalysisError(f'{where}: construction of env= not recognised: {ex}') from ex
    shown = '{' + ', '.join(f'**{pf.nsrc(k)}' if kind == 'spread' else f'{k!r}: {pf.nsrc(v)}' if kind == 'key' else f'setdefault({k!r}, {pf.nsrc(v)})' if kind == 'default'  # type: ignore[arg-type]
                             else f'{pf.nsrc(k)}: {pf.nsrc(v)}' for kind, k, v in entries) + '}'  # type: ignore[arg-type]
    base = (f"commands refer to '${{{TMPVAR}}}' + r._get_path('') (Job._interpolate_command) but files are downloaded to / uploaded from r._get_path({local})")
    if verdict == 'overridable':
        # the user-controlled mapping really can contain the variable: Job.env stores any name
        mj = pf.load(FJ)
        je = mj.func('Job.env')
        stores_any = [st for st in af_body(je) if isinstance(st, ast.Assign) and len(st.targets) == 1 and isinstance(st.targets[0], ast.Subscript)
                      and _is_attr(st.targets[0].value, 'self', '_env') and isinstance(st.targets[0].slice, ast.Name) and st.targets[0].slice.id == je.args.args[1].arg]
        guarded = any(isinstance(x, (ast.If, ast.Assert, ast.Raise, ast.Try)) for x in pf.walk_shallow(je))
        ctx.need(bool(stores_any) and not guarded, f'{FJ}::Job.env: does not store an arbitrary variable name unconditionally (reserved names may be rejected there; not analysed)')
        ctx.bad('R1', cons, f"env is built as {shown}: `{pf.nsrc(over)}` is merged AFTER the {TMPVAR!r} binding (or the binding only fills a gap), so a job that has {TMPVAR} in its "  # type: ignore[arg-type]
                f"`_env` keeps its own value; {base}. History: a driver that itself runs in a Batch job forwards its environment (`for k, v in os.environ.items(): j.env(k, v)`, the "
                f"driver's container has {TMPVAR}=/io/batch/<driver uid>); producer `echo hi > ${{{TMPVAR}}}/<dir>/out` then writes under the driver's directory while the worker uploads "
                f"from {local}/<dir>/out, and the consumer reads a path the input was never downloaded to. {TMPVAR} must be `{local}` and must not be overridable by job._env",
                m.path, cj.lineno)
        return
    if value is not None and not (isinstance(value, ast.Name) and value.id == local):
        value = facts.expand_locals_except(fn, value, stop={local, jv}, depth=2)   # a local alias of the directory
    ok = verdict == 'fixed' and isinstance(value, ast.Name) and value.id == local
    ctx.check(ok, 'R1', cons,
              f"env is built as {shown}: " + (f'{TMPVAR} is never bound' if verdict == 'missing' else f'{TMPVAR} is bound to `{pf.nsrc(value)}`') +  # type: ignore[arg-type]
              f"; {base}; {TMPVAR} must be `{local}` and must not be overridable by job._env", m.path, cj.lineno, detail={'entries': shown})


def af_body(f: pf.FuncDef) -> List[ast.stmt]:
    return [st for st in f.body if not (isinstance(st, ast.Expr) and isinstance(st.value, ast.Constant))]


BATCH_DIR = 'hail/python/hailtop/batch'
_DEP_STORY = ('with C reading A.ofile and B.ofile, B reading A.ofile (or B.depends_on(A)), B always_run and A failing, C is submitted with parents=[B] only, '
              'becomes runnable when B finishes and downloads a file A never uploaded')


def _deps_monotone(ctx: Ctx) -> None:
    """Between recording (resource mention / depends_on) and submission nothing may remove an element from any job's `_dependencies`:
    ServiceBackend._async_run builds `parents=` from that set.  Who-may-write rule over every module of hailtop/batch."""
    n_files = 0
    for rel in pf.walk_py([BATCH_DIR], exclude=(BATCH_DIR + '/docs',)):
        m = pf.load(rel)
        n_files += 1
        for u in facts.set_uses(m, '_dependencies'):
            qual = m.qualname(u.func) if u.func is not None else '<module>'
            stmt = pf.nsrc(u.stmt) if u.stmt is not None else pf.nsrc(u.node)
            if isinstance(u.stmt, (ast.For, ast.AsyncFor, ast.If, ast.While, ast.With, ast.FunctionDef, ast.AsyncFunctionDef, ast.ClassDef)):
                stmt = pf.nsrc(u.node)
            cons = f'{rel}::{qual}::{stmt}'
            ctx.need(u.kind != 'unknown', f'{cons}: use of `_dependencies` not analysed ({u.why})')
            if u.kind == 'read':
                continue
            if u.kind == 'shrink':
                ctx.bad('R2', cons, f'`{stmt}` in {qual}: {u.why}. A producer recorded in `_dependencies` by a resource mention / depends_on can be dropped again before '
                        f'ServiceBackend._async_run builds `parents=` from that set, so the consumer is not submitted as a child of the producer: {_DEP_STORY}',
                        m.path, getattr(u.stmt, 'lineno', 0))
            else:
                ctx.ok('R2', cons, u.why)
    ctx.unit('files_scanned_for_dependency_writes', n_files)
    # positive control: the classifier sees the removal idioms
    ctl = pf.Module('<control>', '<control>', '', ast.parse(
        'def f(j, implied):\n'
        '    j._dependencies -= implied\n'
        '    j._dependencies.discard(implied)\n'
        '    j._dependencies = {d for d in j._dependencies if d not in implied}\n'
        '    deps = j._dependencies\n'
        '    deps.difference_update(implied)\n'
        '    j._dependencies.add(implied)\n'))
    kinds = sorted(u.kind for u in facts.set_uses(ctl, '_dependencies') if u.kind != 'read')
    ctx.need(kinds == ['grow', 'shrink', 'shrink', 'shrink', 'shrink'], f'internal: positive control of the `_dependencies` write classifier gave {kinds}')
    ctx.ok('R2', 'control::removal idioms of a set attribute are recognised', kinds, nontrivial=False)


def _get_paths(ctx: Ctx) -> None:
    m = pf.load(FR)
    templates: Dict[str, List[Part]] = {}
    for cls in m.classes():
        for st in cls.body:
            if isinstance(st, ast.FunctionDef) and st.name == '_get_path':
                body = [s for s in st.body if not (isinstance(s, ast.Expr) and isinstance(s.value, ast.Constant))]
                if all(isinstance(s, (ast.Raise, ast.Pass)) for s in body):
                    continue  # abstract
                where = f'{FR}::{cls.name}._get_path'
                ctx.need(len(st.args.args) == 2, f'{where}: parameters changed')
                dparam = st.args.args[1].arg
                rets = [s for s in _stmts(st) if isinstance(s, ast.Return)]
                ctx.need(len(rets) == 1 and rets[0].value is not None, f'{where}: expected one return')
                env = {k: v[0] for k, v in pf.assignments(st).items() if len(v) == 1 and isinstance(v[0], ast.expr)}
                parts = _parts(rets[0].value)
                ctx.need(bool(parts), f'{where}: empty path')
                head_exact = parts[0] == ('expr', dparam)
                mentions = 0
                for i, (kind, txt) in enumerate(parts):
                    if kind == 'expr' and not (i == 0 and head_exact):
                        e = ast.parse(txt, mode='eval').body
                        names = pf.names_in(e)
                        for nm in list(names):
                            if nm in env:
                                names |= pf.names_in(env[nm])
                        if dparam in names:
                            ctx.need(i != 0, f'{where}: path starts with a function of `{dparam}` (`{txt}`), not with `{dparam}` itself')
                            mentions += 1
                ctx.check(head_exact and mentions == 0, 'R1', f'{where}::directory-prefixed',
                          f'`{pf.nsrc(rets[0])}` is not `{dparam} + <suffix independent of {dparam}>`: the path a command refers to '
                          f"('${{BATCH_TMPDIR}}' + _get_path('')) differs from the path files are copied to (_get_path(local_tmpdir))", m.path, rets[0].lineno)
                templates[cls.name] = parts
    for need in ('InputResourceFile', 'JobResourceFile', 'ResourceGroup', 'PythonResult'):
        ctx.need(need in templates, f'{FR}: {need}._get_path not found')
    j, p = templates['JobResourceFile'], templates['PythonResult']
    want = [('expr', 'directory'), ('lit', '/'), ('expr', 'self._source._dirname'), ('lit', '/'), ('expr', 'self._value')]
    for name, t in (('JobResourceFile', j), ('PythonResult', p)):
        exprs = [x for k, x in t if k == 'expr']
        ctx.check('self._source._dirname' in exprs and 'self._value' in exprs and t[-1] == ('expr', 'self._value'), 'R4', f'{FR}::{name}._get_path::(job directory, value)',
                  f'the path template {t} is not <dir>/<producing job directory>/<value>: resources of different jobs or different names can share a path', m.path, 0,
                  detail={'template': t, 'canonical': t == want})
    ctx.check(j == p, 'R4', f'{FR}::JobResourceFile._get_path == PythonResult._get_path', f'the two job-output path templates differ: {j} vs {p}', m.path, 0)
    ctx.unit('functions', len(templates))


# ------------------------------------------------------------------------------------------------
# R2 (recording) and R3 (interpolation) in job.py
# ------------------------------------------------------------------------------------------------

def _recording(ctx: Ctx) -> None:
    m = pf.load(FJ)
    for qual in ('Job._interpolate_command.handler', 'PythonJob.call.handle_arg'):
        site = RecordingSite(ctx, m, qual)
        S, R = site.S, site.R
        site.effect(ctx, 'R2', f'self._add_inputs({R})', call_pred(lambda e: isinstance(e, ast.Name) and e.id == 'self', '_add_inputs', R),
                    {'foreign': True}, [({'foreign': False}, 'the resource is produced by the job itself (it would be downloaded before it exists)')],
                    f'a resource of another job or an input file is never recorded in `self._inputs`: it is not downloaded into the consuming job',
                    'a foreign resource is not always recorded as an input of the consuming job', role='self._add_inputs(<resource>)', carriers=(R,))
        site.effect(ctx, 'R2', f'{S}._add_internal_outputs({R})', call_pred(lambda e, S=S: isinstance(e, ast.Name) and e.id == S, '_add_internal_outputs', R),
                    {'foreign': True, 'notnone': True}, [({'foreign': False}, 'the resource is produced by the job itself'), ({'notnone': False}, f'`{S}` is None')],
                    f'the producer is never told to upload the resource (`{S}._add_internal_outputs({R})` missing): the consumer downloads a file nobody wrote',
                    'a foreign job resource is not always recorded as an internal output of its producer', role='<producing job>._add_internal_outputs(<resource>)',
                    carriers=(S, R))
    # the two helpers write the sets the back end reads
    for meth, attr in (('_add_inputs', '_inputs'), ('_add_internal_outputs', '_internal_outputs')):
        f = m.func(f'Job.{meth}')
        where = f'{FJ}::Job.{meth}'
        ctx.need(len(f.args.args) == 2, f'{where}: parameters changed')
        prm = f.args.args[1].arg
        calls = [c for c in pf.calls_in(f) if pf.dotted(c.func) == '_add_resource_to_set']
        ctx.need(len(calls) == 1 and len(calls[0].args) >= 2, f'{where}: expected one _add_resource_to_set call')
        ctx.check(_is_attr(calls[0].args[0], 'self', attr) and pf.nsrc(calls[0].args[1]) == prm, 'R2', f'{where}::writes self.{attr}',
                  f'`{pf.nsrc(calls[0])}` does not add `{prm}` to `self.{attr}`, the set ServiceBackend reads', m.path, f.lineno)
    # _add_resource_to_set adds the resource itself (files) and the members of its group
    f = m.func('_add_resource_to_set')
    where = f'{FJ}::_add_resource_to_set'
    ctx.need(len(f.args.args) >= 2, f'{where}: parameters changed')
    sset, res = f.args.args[0].arg, f.args.args[1].arg
    g = pf.cfg(f)
    is_rg = [n for n in g.nodes if n.kind == 'test' and isinstance(n.ast, ast.Call) and pf.dotted(n.ast.func) == 'isinstance' and len(n.ast.args) == 2
             and pf.nsrc(n.ast.args[0]) == res and pf.nsrc(n.ast.args[1]) == 'ResourceGroup']
    ctx.need(len(is_rg) == 1, f'{where}: isinstance({res}, ResourceGroup) test not found')
    add_self = call_pred(lambda e: isinstance(e, ast.Name) and e.id == sset, 'add', res)
    p = g.path_avoiding(is_rg[0], lambda n: n is g.exit, add_self, edge_ok=lambda a, b, lab: a is not is_rg[0] or lab == 'F')
    ctx.check(p is None, 'R2', f'{where}::a file resource is added itself', f'for a resource that is not a group there is a path that never executes `{sset}.add({res})`',
              m.path, f.lineno)
    ctx.unit('functions', 5)


def _interpolation(ctx: Ctx) -> None:
    m = pf.load(FJ)
    outer = m.func('Job._interpolate_command')
    h = m.func('Job._interpolate_command.handler')
    where = f'{FJ}::Job._interpolate_command'
    ctx.need(len(outer.args.args) >= 2 and len(h.args.args) == 1, f'{where}: parameters changed')
    cmd, mo = outer.args.args[1].arg, h.args.args[0].arg
    g = pf.cfg(h)
    imports = m.imports()
    # return value
    rets = [st for st in _stmts(h) if isinstance(st, ast.Return)]
    ctx.need(len(rets) == 1 and rets[0].value is not None, f'{where}.handler: expected one return')
    rv = rets[0].value
    site = RecordingSite(ctx, m, 'Job._interpolate_command.handler')
    R = site.R
    VARNAME = 'BATCH_TMPDIR'
    rvx = facts.inline_expr_calls(m, facts.expand_locals_except(h, rv, stop={R, mo}), cls='Job')
    ps = _parts(rvx)

    def raw_path(e: ast.AST) -> bool:
        return isinstance(e, ast.Call) and isinstance(e.func, ast.Attribute) and e.func.attr == '_get_path' and pf.nsrc(e.func.value) == R \
            and len(e.args) == 1 and not e.keywords and pf.const_str(e.args[0]) == ''

    def is_quote(e: ast.AST) -> bool:
        if not (isinstance(e, ast.Call) and len(e.args) == 1 and not e.keywords):
            return False
        if isinstance(e.func, ast.Name):
            return imports.get(e.func.id) == 'shlex.quote'
        return pf.dotted(e.func) == 'shlex.quote' and imports.get('shlex') == 'shlex'

    def mentions_var(e: ast.AST) -> bool:
        return any(isinstance(x, ast.Constant) and isinstance(x.value, str) and VARNAME in x.value for x in ast.walk(e))

    # The replacement must reach bash as ONE word  <expansion of BATCH_TMPDIR><the path as literal text>.  The literal pieces are lexed with a
    # three-state shell lexer; the path piece is classified by how it is protected in the state the lexer is in at that point.
    lx = facts.ShellLexer()
    seq: List[Tuple[str, object, str]] = []   # ('var', name, state) | ('char', c, state) | ('path', transform, state)
    verdict: Optional[str] = None   # None = undecided so far, 'ok', or the defect
    try:
        for kind, txt in ps:
            n0 = len(lx.items)
            if kind == 'lit':
                lx.feed(txt)
                seq += lx.items[n0:]
                continue
            e = ast.parse(txt, mode='eval').body
            ctx.need(not lx.pending_backslash, f'{where}.handler: a backslash directly precedes `{txt}` in `{pf.nsrc(rv)}` (not analysed)')
            if is_quote(e):
                inner = e.args[0]  # type: ignore[attr-defined]
                if raw_path(inner):
                    seq.append(('path', 'shq', lx.state))
                elif mentions_var(inner) and any(raw_path(x) for x in ast.walk(inner)):
                    seq.append(('path', 'shq-var', lx.state))
                elif is_quote(inner) and raw_path(inner.args[0]):
                    seq.append(('path', 'shq-twice', lx.state))
                elif facts.char_hom(inner, raw_path, m) is not None:
                    seq.append(('path', 'shq' if facts.char_hom(inner, raw_path, m)[0].is_identity() else 'shq-esc', lx.state))  # type: ignore[index]
                else:
                    raise facts.WordError(f'`{txt}` quotes something that is not the path')
            elif raw_path(e):
                seq.append(('path', 'raw', lx.state))
            elif isinstance(e, ast.Call) and pf.dotted(e.func) == 'json.dumps' and imports.get('json') == 'json' and len(e.args) == 1 and not e.keywords and raw_path(e.args[0]):
                # a JSON string literal: double quotes around the text with " and \ (and control characters) backslash-escaped
                lx.feed('"')
                seq.append(('path', facts.Hom({'"': '\\"', '\\': '\\\\', '\n': '\\n', '\t': '\\t', '\r': '\\r'}), lx.state))
                lx.feed('"')
            else:
                hm = facts.char_hom(e, raw_path, m)
                if hm is None:
                    raise facts.WordError(f'`{txt}` is not a recognised transform of {R}._get_path(\'\')')
                seq.append(('path', hm[0], lx.state))
    except facts.WordError as ex:
        raise AnalysisError(f'{where}.handler: return value `{pf.nsrc(rv)}` not recognised: {ex}') from ex
    paths = [x for x in seq if x[0] == 'path']
    ctx.need(len(paths) == 1, f'{where}.handler: return value `{pf.nsrc(rv)}` not recognised ({len(paths)} path parts)')
    _, tr, pstate = paths[0]
    vars_ = [x for x in seq if x[0] == 'var']
    chars = [x for x in seq if x[0] == 'char']
    Uq, Sq, Dq = facts.U, facts.S, facts.D
    if tr == 'shq-var':
        verdict = 'the variable reference itself is quoted, so the shell does not expand ${BATCH_TMPDIR}'
    elif tr in ('shq-twice', 'shq-esc'):
        verdict = ('the path is quoted twice' if tr == 'shq-twice' else 'the path is escaped and then quoted') + \
            ': shlex.quote makes every character of its argument literal, so the quote / escape characters added first become part of the path the command ' \
            'touches (resource named `per sample.tsv` / `say "cheese".txt`) while input_files/output_files use the plain name'
    elif lx.state != Uq or lx.pending_backslash:
        verdict = f'the replacement ends inside {lx.state} text: the quote stays open and swallows the rest of the command'
    elif not vars_ and not chars:
        verdict = 'the ${BATCH_TMPDIR} prefix is missing: the command refers to a path relative to /'
    else:
        ctx.need(len(vars_) == 1 and vars_[0][1] == VARNAME and not chars and seq.index(vars_[0]) < seq.index(paths[0]),
                 f'{where}.handler: return value `{pf.nsrc(rv)}` not recognised (expected the word <${{{VARNAME}}}><path>, found literal text / other variables)')
        if vars_[0][2] == Sq:
            verdict = 'the variable reference is inside single quotes, so the shell does not expand ${BATCH_TMPDIR}'
    if verdict is None:
        def show(cs: List[str]) -> str:
            return ' '.join({' ': '<space>', '\t': '<tab>', '\n': '<newline>'}.get(c, c) for c in cs)
        if tr == 'shq':
            verdict = 'ok' if pstate == Uq else f'shlex.quote output is placed inside {pstate} text: its quote characters become part of the path and the name is no longer protected'
        elif tr == 'raw':
            if pstate == Uq:
                verdict = 'the path is not shell-quoted (a resource named `a b` splits into two words)'
            else:
                act = list(facts.DQ_SPECIAL) if pstate == Dq else ["'"]
                verdict = (f'the path is inserted inside {pstate} text without escaping: {show(act)} in a resource name stay active; e.g. the resource named '
                           f'`{facts.WITNESS[act[0]]}` is substituted by a word that bash does not read as its literal path')
        else:
            active, mangled = facts.hom_in_state(tr, pstate)  # type: ignore[arg-type]
            escaped = sorted(k for k, v in tr.table.items() if v != k)  # type: ignore[union-attr]
            if active:
                w = next((c for c in '$`\\"\' ' if c in active), active[0])
                verdict = (f'inside {pstate} text the helper escapes only {show(escaped) or "nothing"}; {show(active)} in a resource name stay active in bash. Resource names are user '
                           f'supplied: for the resource named `{facts.WITNESS.get(w, w)}` the word bash evaluates differs from the path in input_files/output_files'
                           + (' (`$US` is expanded, so the command touches …/cost_in_.tsv while the file is copied from/to …/cost_in_$US.tsv)' if w == '$' else ''))
            elif mangled:
                verdict = (f'inside {pstate} text the escaping of {show(mangled)} is not undone by bash (a backslash before an ordinary character is kept inside double quotes, or the '
                           f'character is rewritten): the path the command touches differs from the path in input_files/output_files')
            else:
                verdict = 'ok'
    ctx.check(verdict == 'ok', 'R3', f'{where}.handler::replacement',
              f"a resource reference is replaced by `{pf.nsrc(rv)}`; expected ${{BATCH_TMPDIR}} followed by the path {R}._get_path('') as one literal shell word "
              f"(e.g. '${{BATCH_TMPDIR}}' + shlex.quote(...)): {verdict}", m.path, rets[0].lineno,
              detail={'path_state': pstate, 'transform': tr if isinstance(tr, str) else tr.table})  # type: ignore[union-attr]
    # lookup and unknown uid
    rdef = pf.single_def(h, R)
    ctx.need(isinstance(rdef, ast.Call) and isinstance(rdef.func, ast.Attribute) and rdef.func.attr == 'get' and pf.nsrc(rdef.func.value) == 'self._batch._resource_map'
             and len(rdef.args) == 1, f'{where}.handler: `{R}` is not looked up with self._batch._resource_map.get(...)')
    key = pf.resolve_expr(h, rdef.args[0])  # type: ignore[union-attr]
    ctx.check(isinstance(key, ast.Call) and pf.nsrc(key) == f'{mo}.group()', 'R3', f'{where}.handler::lookup key is the matched text',
              f'the resource is looked up under `{pf.nsrc(key)}`, not under the matched uid `{mo}.group()`', m.path, h.lineno)
    none_tests = [n for n in g.nodes if n.kind == 'test' and isinstance(n.ast, ast.Compare) and len(n.ast.ops) == 1 and pf.nsrc(n.ast.left) == R
                  and isinstance(n.ast.comparators[0], ast.Constant) and n.ast.comparators[0].value is None and isinstance(n.ast.ops[0], (ast.Is, ast.IsNot, ast.Eq, ast.NotEq))]
    RET = _node(g, rets[0], 'return')
    if not none_tests:
        ctx.bad('R3', f'{where}.handler::unknown uid raises', f'`{R}` (None for an unknown uid) is never tested: a reference to a resource of another batch is '
                f'substituted by an AttributeError/garbage instead of being rejected', m.path, h.lineno)
    else:
        ctx.need(len(none_tests) == 1, f'{where}.handler: several None tests of `{R}`')
        T = none_tests[0]
        lab = 'T' if isinstance(T.ast.ops[0], (ast.Is, ast.Eq)) else 'F'  # type: ignore[attr-defined]
        p = g.path_avoiding(T, lambda n: n is g.exit, lambda n: False, edge_ok=lambda a, b, l2: a is not T or l2 == lab)
        dom = g.dominated_by(RET, lambda n: n is T)
        ctx.check(p is None and dom, 'R3', f'{where}.handler::unknown uid raises',
                  f'with `{R} is None` (unknown uid) the handler still returns a replacement instead of raising', m.path, T.lineno)
    # the substitution
    subs = [c for c in pf.calls_in(outer) if pf.dotted(c.func) == 're.sub']
    ctx.need(len(subs) == 1 and len(subs[0].args) == 3, f'{where}: expected one re.sub(pattern, handler, command)')
    sub = subs[0]
    ctx.check(isinstance(sub.args[1], ast.Name) and sub.args[1].id == h.name and isinstance(sub.args[2], ast.Name) and sub.args[2].id == cmd
              and not any(k.arg == 'count' for k in sub.keywords), 'R3', f'{where}::re.sub(…, handler, {cmd})',
              f'`{pf.nsrc(sub)}` does not apply the handler to every match in the given command', m.path, sub.lineno)
    pat = sub.args[0]
    env = {k: v[0] for k, v in pf.assignments(outer).items() if len(v) == 1 and isinstance(v[0], ast.expr)}
    lists = [env[n] for n in pf.names_in(pat) if n in env and isinstance(env[n], ast.List)]
    ctx.need(len(lists) == 1, f'{where}: pattern is not built from one list of patterns')
    members = [pf.nsrc(e) for e in lists[0].elts]  # type: ignore[attr-defined]
    missing = [x for x in ('ResourceFile._regex_pattern', 'ResourceGroup._regex_pattern', 'PythonResult._regex_pattern') if x not in members]
    joined = isinstance(pat, ast.BinOp) and any(isinstance(c, ast.Call) and isinstance(c.func, ast.Attribute) and c.func.attr == 'join' and pf.const_str(c.func.value) == ')|('
                                                for c in ast.walk(pat))
    ctx.need(joined, f'{where}: pattern is not the `(a)|(b)|…` alternation of the list')
    ctx.check(not missing, 'R3', f'{where}::pattern covers every resource kind', f'{missing} is not in the alternation {members}: references to that kind of resource '
              f'are left in the command as raw uids', m.path, sub.lineno)
    oret = [st for st in _stmts(outer) if isinstance(st, ast.Return)]
    ctx.need(len(oret) == 1, f'{where}: expected one return')
    ctx.check(pf.resolve_expr(outer, oret[0].value) is sub, 'R3', f'{where}::returns the substituted command', f'`{pf.nsrc(oret[0])}` is not the result of re.sub',
              m.path, oret[0].lineno)
    # command() stores the interpolated text
    c = m.func('BashJob.command')
    prm = c.args.args[1].arg
    apps = [x for x in pf.calls_in(c) if isinstance(x.func, ast.Attribute) and x.func.attr == 'append' and _is_attr(x.func.value, 'self', '_command')]
    ctx.need(len(apps) == 1 and len(apps[0].args) == 1, f'{FJ}::BashJob.command: expected one self._command.append')
    defs = pf.assignments(c).get(prm, [])
    interp = [d for d in defs if isinstance(d, ast.Call) and pf.dotted(d.func) == 'self._interpolate_command' and [pf.nsrc(a) for a in d.args] == [prm]]
    arg = apps[0].args[0]
    ok = (isinstance(arg, ast.Name) and arg.id == prm and len(interp) == 1) or \
         (isinstance(arg, ast.Call) and pf.dotted(arg.func) == 'self._interpolate_command') or \
         (isinstance(arg, ast.Name) and isinstance(pf.single_def(c, arg.id), ast.Call) and pf.dotted(pf.single_def(c, arg.id).func) == 'self._interpolate_command')  # type: ignore[union-attr]
    if ok and isinstance(arg, ast.Name) and arg.id == prm:
        gc = pf.cfg(c)
        AP = gc.node_of(apps[0])
        IN = gc.node_of(interp[0])
        ok = len(AP) == 1 and len(IN) == 1 and gc.dominated_by(AP[0], lambda n: n is IN[0])
    ctx.check(ok, 'R3', f'{FJ}::BashJob.command::stores the interpolated command', f'`{pf.nsrc(apps[0])}` stores text that did not pass through _interpolate_command: '
              f'resource uids reach the shell unreplaced and no inputs/dependencies are recorded', m.path, apps[0].lineno)
    ctx.unit('functions', 3)


# ------------------------------------------------------------------------------------------------
# R4: distinct names
# ------------------------------------------------------------------------------------------------

def _class_consts(cls: ast.ClassDef) -> Dict[str, ast.expr]:
    out = {}
    for st in cls.body:
        if isinstance(st, ast.Assign) and len(st.targets) == 1 and isinstance(st.targets[0], ast.Name):
            out[st.targets[0].id] = st.value
    return out


def _uids(ctx: Ctx) -> None:
    mr = pf.load(FR)
    mj = pf.load(FJ)
    mb = pf.load(FB)
    prefixes: Dict[str, str] = {}
    owners = {}
    for m, cname, alloc in ((mr, 'ResourceFile', '_new_uid'), (mr, 'ResourceGroup', '_new_uid'), (mr, 'PythonResult', '_new_uid'), (mj, 'Job', '_new_uid'), (mb, 'Batch', '_get_uid')):
        cls = m.cls(cname)
        consts = _class_consts(cls)
        where = f'{m.rel}::{cname}'
        ctx.need('_uid_prefix' in consts and pf.const_str(consts['_uid_prefix']) is not None and '_counter' in consts, f'{where}: _uid_prefix/_counter not found')
        prefixes[cname] = pf.const_str(consts['_uid_prefix'])  # type: ignore[assignment]
        owners[cname] = (m, alloc)
        # pattern is built from the prefix
        rp = consts.get('_regex_pattern')
        ctx.need(rp is not None, f'{where}: _regex_pattern not found')
        tmpl = None
        if isinstance(rp, ast.Call) and isinstance(rp.func, ast.Attribute) and rp.func.attr == 'format' and [pf.nsrc(a) for a in rp.args] == ['_uid_prefix']:
            tmpl = pf.const_str(rp.func.value)
        elif isinstance(rp, ast.JoinedStr):
            tmpl = pf.fstring_template(rp, lambda e: '{}' if pf.nsrc(e) == '_uid_prefix' else '{?}')
        ctx.need(tmpl is not None, f'{where}: _regex_pattern `{pf.nsrc(rp)}` not recognised')
        ctx.check(tmpl.count('{}') == 1 and tmpl.startswith('(?P<') and tmpl.endswith('{}\\d+)'), 'R4', f'{where}::_regex_pattern = prefix + digits',
                  f'the pattern template {tmpl!r} does not match exactly `<_uid_prefix><digits>`: uids in a command are not (or only partly) recognised', m.path, rp.lineno)
        if cname in ('Job', 'Batch') and alloc != '_new_uid':
            pass
        # allocator
        f = m.func(f'{cname}.{alloc}')
        awhere = f'{where}.{alloc}'
        ctx.need('classmethod' in pf.decorator_names(f) and len(f.args.args) == 1, f'{awhere}: not a classmethod')
        c0 = f.args.args[0].arg
        g = pf.cfg(f)
        rets = [st for st in _stmts(f) if isinstance(st, ast.Return)]
        ctx.need(len(rets) == 1, f'{awhere}: expected one return')
        val = pf.resolve_expr(f, rets[0].value)
        shape = isinstance(val, ast.BinOp) and isinstance(val.op, ast.Add) and pf.nsrc(val.left) == f'{c0}._uid_prefix' and pf.nsrc(val.right) == f'str({c0}._counter)'
        if cname == 'Batch':
            shape = shape or (isinstance(val, ast.BinOp) and isinstance(val.op, ast.Add) and pf.nsrc(val.left).endswith('._uid_prefix') and 'counter' in pf.nsrc(val.right))
        bumps = [st for st in _stmts(f) if isinstance(st, ast.AugAssign) and isinstance(st.op, ast.Add) and pf.nsrc(st.target).endswith('._counter')
                 and isinstance(st.value, ast.Constant) and isinstance(st.value.value, int) and st.value.value >= 1]
        RET = _node(g, rets[0], 'return')
        bumped = bool(bumps) and g.dominated_by(RET, lambda n: any(n.ast is b for b in bumps))
        if cname in ('ResourceFile', 'ResourceGroup', 'PythonResult'):
            ctx.check(shape and bumped, 'R4', f'{awhere}::fresh uid', f'returns `{pf.nsrc(val)}` '
                      + ('without incrementing the counter on every path: two resources get the same uid, the later one replaces the earlier in _resource_map and both '
                         'are substituted by the same path' if shape else 'which is not `_uid_prefix + str(_counter)`'), m.path, f.lineno)
    # prefix-free
    names = sorted(prefixes)
    clash = [(a, b) for a in names for b in names if a != b and prefixes[b].startswith(prefixes[a])]
    ctx.check(not clash, 'R4', f'{FR}::uid prefixes are prefix-free', f'uid prefixes {[(a, prefixes[a], b, prefixes[b]) for a, b in clash]} overlap: '
              f'uids of different classes can coincide / be matched by the wrong pattern', mr.path, 0, detail=prefixes)

    # allocation sites name the owning class (a `cls._new_uid()` in a subclass would fork the counter)
    for m in (mr,):
        for qual, f in m.functions():
            for c in pf.calls_in(f):
                if isinstance(c.func, ast.Attribute) and c.func.attr == '_new_uid':
                    recv = pf.nsrc(c.func.value)
                    cons = f'{m.rel}::{qual}::{pf.nsrc(c)}'
                    if recv in ('cls', 'self', 'type(self)', 'self.__class__'):
                        ctx.bad('R4', cons, f'the uid is allocated through `{recv}`: `cls._counter += 1` executed on a subclass (InputResourceFile, JobResourceFile) creates a '
                                f'separate counter for it, so an input file and a job file receive the same uid `__RESOURCE_FILE__<n>`', m.path, c.lineno)
                    else:
                        ctx.need(recv in prefixes, f'{cons}: receiver not recognised')
                        ctx.ok('R4', cons)

    # str(resource) is the uid; registration and lookup use the uid
    for cname in ('ResourceFile', 'ResourceGroup', 'PythonResult'):
        f = mr.func(f'{cname}.__str__')
        rets = [st for st in _stmts(f) if isinstance(st, ast.Return)]
        ctx.need(len(rets) == 1, f'{FR}::{cname}.__str__: expected one return')
        ctx.check(_parts(rets[0].value) == [('expr', 'self._uid')], 'R4', f'{FR}::{cname}.__str__ is the uid',
                  f'`{pf.nsrc(rets[0])}`: an f-string command embeds something other than the uid the interpolation looks up', mr.path, rets[0].lineno)
    regs = 0
    for qual in ('Batch._new_job_resource_file', 'Batch._new_input_resource_file', 'Batch._new_resource_group', 'Batch._new_python_result'):
        f = mb.func(qual)
        rets = [st for st in _stmts(f) if isinstance(st, ast.Return)]
        ctx.need(len(rets) == 1 and isinstance(rets[0].value, ast.Name), f'{FB}::{qual}: expected `return <name>`')
        rn = rets[0].value.id
        found = False
        for st in _stmts(f):
            if isinstance(st, ast.Assign) and len(st.targets) == 1 and isinstance(st.targets[0], ast.Subscript) and pf.nsrc(st.targets[0].value) == 'self._resource_map':
                if pf.nsrc(st.targets[0].slice) == f'{rn}._uid' and pf.nsrc(st.value) == rn:
                    found = True
            c = st.value if isinstance(st, ast.Expr) else None
            if isinstance(c, ast.Call) and pf.dotted(c.func) == 'self._resource_map.update' and len(c.args) == 1 and isinstance(c.args[0], ast.Dict) \
                    and [(pf.nsrc(k), pf.nsrc(v)) for k, v in zip(c.args[0].keys, c.args[0].values)] == [(f'{rn}._uid', rn)]:
                found = True
        ctx.check(found, 'R4', f'{FB}::{qual}::registered under its uid', f'the new resource `{rn}` is not stored as `self._resource_map[{rn}._uid] = {rn}`: '
                  f'its references in commands are reported as undefined or resolve to another resource', mb.path, f.lineno)
        regs += 1

    # per job: one resource per value
    for qual, maker in (('Job._get_resource', '_new_job_resource_file'), ('PythonJob._get_python_resource', '_new_python_result')):
        f = mj.func(qual)
        where = f'{FJ}::{qual}'
        item = f.args.args[1].arg
        g = pf.cfg(f)
        mk = [c for c in pf.calls_in(f) if isinstance(c.func, ast.Attribute) and c.func.attr == maker]
        ctx.need(len(mk) == 1, f'{where}: expected one {maker} call')
        MK = g.node_of(mk[0])[0]
        guards = [n for n in g.nodes if n.kind == 'test' and isinstance(n.ast, ast.Compare) and len(n.ast.ops) == 1 and isinstance(n.ast.ops[0], (ast.NotIn, ast.In))
                  and pf.nsrc(n.ast.left) == item and pf.nsrc(n.ast.comparators[0]) == 'self._resources']
        val_ok = any(k.arg == 'value' and pf.nsrc(k.value) == item for k in mk[0].keywords) or (len(mk[0].args) >= 2 and pf.nsrc(mk[0].args[1]) == item)
        stored = [st for st in _stmts(f) if isinstance(st, ast.Assign) and len(st.targets) == 1 and pf.nsrc(st.targets[0]) == f'self._resources[{item}]']
        ok = False
        if len(guards) == 1 and stored:
            T = guards[0]
            present = 'F' if isinstance(T.ast.ops[0], ast.NotIn) else 'T'  # type: ignore[attr-defined]
            p = g.path_avoiding(T, lambda n: n is MK, lambda n: False, edge_ok=lambda a, b, lab: a is not T or lab == present)
            ST = _node(g, stored[0], 'store')
            q = g.path_avoiding(MK, lambda n: n is g.exit, lambda n: n is ST)
            ok = p is None and q is None and g.dominated_by(MK, lambda n: n is T)
        ctx.check(ok and val_ok, 'R4', f'{where}::one resource per name', f'a new resource is created for `{item}` although `self._resources[{item}]` may already exist, or it is not '
                  f'stored / not named `{item}`: `j.ofile` mentioned twice yields two resources with the same path', mj.path, f.lineno)

    # job directories: the token allocator must remember what it handed out
    f = mb.func('Batch._unique_job_token')
    where = f'{FB}::Batch._unique_job_token'
    g = pf.cfg(f)
    rets = [st for st in _stmts(f) if isinstance(st, ast.Return)]
    ctx.need(len(rets) == 1 and isinstance(rets[0].value, ast.Name), f'{where}: expected `return <token>`')
    tok = rets[0].value.id
    tests = [n for n in g.nodes if n.kind == 'test' and isinstance(n.ast, ast.Compare) and len(n.ast.ops) == 1 and isinstance(n.ast.ops[0], (ast.In, ast.NotIn))
             and pf.nsrc(n.ast.left) == tok]
    ctx.need(len(tests) == 1, f'{where}: no `{tok} in <set>` uniqueness test')
    pool = pf.nsrc(tests[0].ast.comparators[0])  # type: ignore[attr-defined]
    RET = _node(g, rets[0], 'return')
    def records(n: pf.Node) -> bool:
        for c in pf.node_calls(n):
            if isinstance(c.func, ast.Attribute) and c.func.attr == 'add' and pf.nsrc(c.func.value) == pool and [pf.nsrc(a) for a in c.args] == [tok]:
                return True
        return False
    recorded = g.dominated_by(RET, records)
    elsewhere = []
    if not recorded:
        # maybe the callers record it
        for qual, fn2 in mb.functions():
            for c in pf.calls_in(fn2):
                if isinstance(c.func, ast.Attribute) and c.func.attr in ('add', 'update') and pf.nsrc(c.func.value) == pool:
                    elsewhere.append(qual)
    ctx.need(not elsewhere, f'{where}: `{pool}` is written in {elsewhere} (unrecognised recording idiom)')
    ctx.check(recorded, 'R4', f'{where}::records the token', f'the token is tested against `{pool}` but never added to it, so `{pool}` stays empty and the uniqueness loop is dead: '
              f'two jobs of one batch can receive the same token, hence the same `_dirname`, and `j1.ofile` / `j2.ofile` get the same path under the remote tmpdir',
              mb.path, f.lineno)
    # and the token is what makes the directory name
    init = mj.func('Job.__init__')
    # the directory name is fixed at construction: command text embeds it eagerly (Job._interpolate_command), the backend reads it lazily
    # at submit time; both agree only if it cannot change in between
    jobcls = mj.cls('Job')
    props = [f for f in jobcls.body if isinstance(f, ast.FunctionDef) and f.name == '_dirname' and 'property' in pf.decorator_names(f)]
    writes = []
    for rel in (FJ, FB, FK):
        mm = pf.load(rel)
        for n in ast.walk(mm.tree):
            if isinstance(n, ast.Attribute) and n.attr == '_dirname' and isinstance(n.ctx, (ast.Store, ast.Del)):
                writes.append((rel, mm.enclosing_func(n), n))
    fixed_cons = f'{FJ}::Job::_dirname fixed at construction'
    if props:
        ctx.need(len(props) == 1 and not writes, f'{FJ}::Job._dirname: property and assignments mixed (not analysed)')
        reads = sorted({n.attr for n in ast.walk(props[0]) if isinstance(n, ast.Attribute) and isinstance(n.value, ast.Name) and n.value.id == 'self'})
        unstable = []
        for a in reads:
            ws = [(rel, mm2.enclosing_func(n)) for rel in (FJ, FB, FK) for mm2 in [pf.load(rel)] for n in ast.walk(mm2.tree)
                  if isinstance(n, ast.Attribute) and n.attr == a and isinstance(n.ctx, (ast.Store, ast.Del)) and _may_be_job(mm2, n)]
            once = bool(ws) and all(rel == FJ and fn is init for rel, fn in ws)
            if not (a.startswith('_') and once):
                unstable.append(a)
        ctx.check(not unstable, 'R4', fixed_cons, f'`_dirname` is a property computed from {["self." + a for a in unstable]}, which can change after construction (public attribute / written outside '
                  '__init__): the path already substituted into the command text and the path the backend computes at submit time then differ, so the producer uploads from / the consumer '
                  'downloads to a location the command does not use', mj.path, props[0].lineno)
        alts = [r.value for r in pf.walk_shallow(props[0]) if isinstance(r, ast.Return) and r.value is not None]
        ctx.need(bool(alts), f'{FJ}::Job._dirname: property returns nothing')
        anchor_line = props[0].lineno
        shown = f'property _dirname returning {[pf.nsrc(a) for a in alts]}'
    else:
        dn = [st for st in _stmts(init) if isinstance(st, ast.Assign) and len(st.targets) == 1 and _is_attr(st.targets[0], 'self', '_dirname')]
        ctx.need(len(dn) == 1, f'{FJ}::Job.__init__: `self._dirname` assignment not found')
        other = [(rel, fn.name if fn is not None else '<module>') for rel, fn, n in writes if not (rel == FJ and fn is init)]
        ctx.check(not other, 'R4', fixed_cons, f'`_dirname` is re-assigned in {other}: the path already substituted into command text and the path computed at submit time differ',
                  mj.path, dn[0].lineno)
        v = dn[0].value
        alts = [v.body, v.orelse] if isinstance(v, ast.IfExp) else [v]
        anchor_line = dn[0].lineno
        shown = pf.nsrc(dn[0])
    tail_ok = True
    for a in alts:
        if isinstance(a, ast.IfExp):
            sub = [a.body, a.orelse]
        else:
            sub = [a]
        for a2 in sub:
            ps = _parts(a2)
            tail_ok = tail_ok and bool(ps) and ps[-1] == ('expr', 'self._token')
    ctx.check(tail_ok, 'R4', f'{FJ}::Job.__init__::_dirname ends with the token', f'`{shown}`: the job directory is not made unique by the per-batch token', mj.path, anchor_line)
    for qual, cls in (('Batch.new_bash_job', 'BashJob'), ('Batch.new_python_job', 'PythonJob')):
        f2 = mb.func(qual)
        mk = [c for c in pf.calls_in(f2) if (pf.dotted(c.func) or '').endswith(cls)]
        ctx.need(len(mk) == 1, f'{FB}::{qual}: constructor call not found')
        tk = [k.value for k in mk[0].keywords if k.arg == 'token'] or mk[0].args[1:2]
        t0 = pf.resolve_expr(f2, tk[0]) if tk else None
        ctx.check(isinstance(t0, ast.Call) and pf.dotted(t0.func) == 'self._unique_job_token', 'R4', f'{FB}::{qual}::token from the allocator',
                  f'the job token is `{pf.nsrc(t0) if t0 is not None else None}`, not self._unique_job_token()', mb.path, mk[0].lineno)
    ctx.unit('functions', 16)


def _may_be_job(mm: pf.Module, n: ast.Attribute) -> bool:
    """Can the receiver of this attribute write be a Job?  `self.x` inside a class that is not Job / a subclass of Job cannot."""
    if not (isinstance(n.value, ast.Name) and n.value.id == 'self'):
        return True
    par = mm.parents()
    cur = par.get(n)
    while cur is not None and not isinstance(cur, ast.ClassDef):
        cur = par.get(cur)
    if cur is None:
        return True
    return cur.name == 'Job' or any((pf.dotted(b) or '').split('.')[-1] in ('Job', 'BashJob', 'PythonJob') for b in cur.bases)


def run(ctx: Ctx) -> None:
    ctx.level = 'other'
    ctx.explanation = ('Writer/reader path expressions of ServiceBackend._async_run compared after normalisation, create_job arguments followed through def-use, '
                       'recording effects checked as must-pass-through on the CFG of both recording sites, structural checks of uid/token allocators; nothing is run.')
    ctx.rule('R1', 'upload location == download location (remote and local side), external outputs and staged inputs use the same expressions, BATCH_TMPDIR is the '
                   'local directory and the last word in the env mapping (job._env cannot override it; the mapping is followed through displays, dict(), |, update/setdefault and helpers), '
                   '_compile gets (local, remote), every _get_path(directory) is directory + suffix', 12)
    ctx.rule('R2', 'create_job: parents from _dependencies via _client_job, input_files from _inputs, output_files from _internal_outputs + _external_outputs; '
                   'both recording sites record foreign resources as inputs / producer internal outputs; parents iterate the full _dependencies and no statement '
                   'of hailtop/batch removes an element from any _dependencies set', 19)
    ctx.rule('R3', "interpolation handler's replacement is one bash word <${BATCH_TMPDIR}><path as literal text> (shlex.quote, or an escape covering every character "
                   'active in the quoting state of the insertion point), raises for unknown uids, one re.sub over all resource patterns, command() stores the result', 7)
    ctx.rule('R4', 'uids fresh per allocation, allocation through the owning class, prefix-free prefixes, patterns = prefix + digits, str(resource) = uid, registration under '
                   'uid, one resource per (job, name), job directory token recorded by its allocator', 28)
    ctx.assume('re.sub replaces exactly the non-overlapping matches and leaves all other text unchanged')
    ctx.assume('a job directory is unique within a batch iff its token is; renaming through add_extension and user-chosen group member names are outside the decided clause')
    _service(ctx)
    _deps_monotone(ctx)
    _get_paths(ctx)
    _recording(ctx)
    _interpolation(ctx)
    _uids(ctx)
    ctx.unit('files', 4)
