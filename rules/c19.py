"""C19 Client spec bunching preserves order and limits.

Decides (from the syntax tree of hailtop/batch_client/aioclient.py; nothing is run):
  R1  source and order: the bunching loop iterates [*<JOB_GROUP-tagged specs of parameter 1>, *<JOB-tagged specs of parameter 2>] built by
      unfiltered comprehensions; `_submit` passes (self._job_group_specs, self._job_specs, max_bunch_bytesize, max_bunch_size) in that order;
      the function returns the list the bunches were appended to
  R2  linear use, on every path through the loop body (all paths are enumerated on the CFG): the spec is consumed exactly once, by
      `bunch.append(spec)` or by the fresh `[spec]`; `bunch` is rebound only right after it was appended to the result and a flushed bunch
      is never touched again; after the loop the residual non-empty bunch is appended
  R3  limits in linear normal form: the appending path is guarded by  bytes + n <= max_bytes  and  len(bunch) + 1 <= max_size  (or
      something stronger), the tracked byte count is an upper bound of the bunch's bytes on every path (+= n on append, reset to >= n with the
      fresh bunch, 0 initially), and a fresh single-spec bunch is preceded by a check  n <= max_bytes
  R4  submitters: each submitter filters by the SpecType that matches the endpoint / JSON key it feeds, bunches reach the submitters
      unchanged and in list order, and in both multi-bunch paths of `_submit` the job-group bunches are submitted (awaited) before the job bunches
Does not decide: that orjson.dumps is deterministic; server-side handling.
"""
from __future__ import annotations

import ast
from typing import Dict, List, Optional, Tuple

from engines import linform, pyfacts as pf
from engines.common import AnalysisError, Ctx
from engines.linform import Lin

META = dict(
    category='other',
    text='Linear-use analysis by exhaustive enumeration of the (acyclic) paths through the bunching loop body, with the guards and the byte accounting '
         'compared in linear normal form; def-use of the iterable; dominance of job-group submission over job submission. Every path of the loop body is an '
         'obligation and all are discharged, but list semantics are taken from the recognised idioms (append / [spec] / rebinding), so the level is "other".',
    note='Trusted: CPython ast; engines/pyfacts CFG; engines/linform; list.append appends at the end; assert statements are enabled. Spec sizes are non-negative.',
    technique='static analysis: path enumeration on the CFG (linear use), linear normal forms, def-use, dominance',
    design_ref='DESIGN.md §3 C19',
)

F = 'hail/python/hailtop/batch_client/aioclient.py'
CLS = 'Batch'


def _stmts(fn: ast.AST) -> List[ast.stmt]:
    return [n for n in pf.walk_shallow(fn) if isinstance(n, ast.stmt) and n is not fn]


def _inside(outer: ast.AST, inner: ast.AST) -> bool:
    return any(x is inner for x in ast.walk(outer)) and outer is not inner


def _conjuncts(test: ast.AST, truth: bool) -> List[Tuple[ast.AST, bool]]:
    """Facts known when `test` evaluated to `truth`: list of (atom, polarity)."""
    if isinstance(test, ast.UnaryOp) and isinstance(test.op, ast.Not):
        return _conjuncts(test.operand, not truth)
    if isinstance(test, ast.BoolOp):
        if (isinstance(test.op, ast.And) and truth) or (isinstance(test.op, ast.Or) and not truth):
            out: List[Tuple[ast.AST, bool]] = []
            for v in test.values:
                out += _conjuncts(v, truth)
            return out
        return []
    return [(test, truth)]


def _le0(atom: ast.AST, pol: bool, env: Dict[str, ast.AST]) -> Optional[Lin]:
    try:
        L = linform.cmp_le0(atom, env)
    except AnalysisError:
        return None
    return L if pol else linform.const(1) - L


def _nonneg_const(d: Lin) -> bool:
    return d.is_const() and d.const >= 0


class _Loop:
    pass


def _bunching(ctx: Ctx, m: pf.Module) -> None:
    fn = m.func(f'{CLS}._create_bunches')
    where = f'{F}::{CLS}._create_bunches'
    g = pf.cfg(fn)
    params = [a.arg for a in fn.args.args]
    ctx.need(len(params) == 5, f'{where}: parameters changed: {params}')
    p_groups, p_jobs, p_bytes, p_size = params[1:]

    loops = [st for st in fn.body if isinstance(st, ast.For)]
    ctx.need(len(loops) == 1 and isinstance(loops[0].target, ast.Name) and not loops[0].orelse, f'{where}: expected one top-level for loop')
    loop = loops[0]
    spec = loop.target.id
    ctx.need(not any(isinstance(x, (ast.For, ast.While, ast.AsyncFor, ast.Try, ast.With, ast.Break, ast.Return, ast.FunctionDef, ast.Lambda)) for st in loop.body for x in ast.walk(st)),
             f'{where}: loop body contains a nested loop/try/break/return (not the recognised straight-line shape)')
    rets = [st for st in _stmts(fn) if isinstance(st, ast.Return)]
    ctx.need(len(rets) == 1 and isinstance(rets[0].value, ast.Name), f'{where}: expected `return <result list>`')
    result = rets[0].value.id

    # ---- R1 source and order
    it = pf.resolve_expr(fn, loop.iter)
    srcs: Optional[List[ast.AST]] = None
    if isinstance(it, ast.List) and all(isinstance(e, ast.Starred) for e in it.elts):
        srcs = [e.value for e in it.elts]  # type: ignore[attr-defined]
    elif isinstance(it, ast.BinOp) and isinstance(it.op, ast.Add):
        srcs = [it.left, it.right]
    elif isinstance(it, ast.Call) and (pf.dotted(it.func) or '').endswith('chain') and not it.keywords:
        srcs = list(it.args)
    ctx.need(srcs is not None, f'{where}: loop iterable `{pf.nsrc(it)}` not recognised')
    tagged = []
    for s in srcs:  # type: ignore[union-attr]
        e = pf.resolve_expr(fn, s)
        ctx.need(isinstance(e, ast.ListComp) and len(e.generators) == 1 and isinstance(e.generators[0].target, ast.Name), f'{where}: `{pf.nsrc(s)}` is not a simple list comprehension')
        gen = e.generators[0]  # type: ignore[union-attr]
        elt = e.elt  # type: ignore[union-attr]
        ctx.need(isinstance(elt, ast.Call) and pf.dotted(elt.func) == 'SpecBytes' and len(elt.args) == 2, f'{where}: `{pf.nsrc(elt)}` is not SpecBytes(<bytes>, <type>)')
        payload = elt.args[0]  # type: ignore[union-attr]
        pay_ok = isinstance(payload, ast.Call) and len(payload.args) == 1 and isinstance(payload.args[0], ast.Name) and payload.args[0].id == gen.target.id
        tagged.append((pf.nsrc(gen.iter), pf.nsrc(elt.args[1]), bool(gen.ifs), pay_ok, e))  # type: ignore[union-attr]
    want = [(p_groups, 'SpecType.JOB_GROUP'), (p_jobs, 'SpecType.JOB')]
    got = [(a, b) for a, b, _, _, _ in tagged]
    ctx.check(got == want, 'R1', f'{where}::iterable = job groups then jobs',
              f'the loop iterates {got} (source, tag); expected {want}: ' + ('job specs come before job-group specs' if got == list(reversed(want)) else
                                                                              'specs are tagged with the wrong SpecType or taken from the wrong parameter'),
              m.path, loop.lineno)
    ctx.check(not any(f for _, _, f, _, _ in tagged) and all(ok for _, _, _, ok, _ in tagged), 'R1', f'{where}::every spec is serialised',
              'a source comprehension filters its input or does not serialise its own loop variable: specs are dropped or duplicated', m.path, loop.lineno)

    # ---- events
    H = [n for n in g.nodes if n.ast is loop and n.kind == 'loop']
    ctx.need(len(H) == 1, f'{where}: loop head')
    H0 = H[0]
    body_nodes = {n.id for n in g.nodes if n.ast is not None and any(_inside(st, n.ast) or st is n.ast for st in loop.body)}

    bunch_names = {c.func.value.id for st in loop.body for c in pf.calls_in(st)
                   if isinstance(c.func, ast.Attribute) and c.func.attr in ('append', 'insert', 'extend') and isinstance(c.func.value, ast.Name)
                   and any(isinstance(a, ast.Name) and a.id == spec for a in c.args)}
    for st in _stmts(loop):
        if isinstance(st, ast.Assign) and len(st.targets) == 1 and isinstance(st.targets[0], ast.Name) and isinstance(st.value, ast.List) \
                and any(isinstance(e, ast.Name) and e.id == spec for e in st.value.elts):
            bunch_names.add(st.targets[0].id)
    bunch_names.discard(result)
    ctx.need(len(bunch_names) == 1, f'{where}: cannot identify the current-bunch variable (candidates {sorted(bunch_names)})')
    bunch = bunch_names.pop()

    def event(n: pf.Node) -> Optional[str]:
        a = n.ast
        if n.kind != 'stmt' or a is None:
            return None
        if isinstance(a, ast.Expr) and isinstance(a.value, ast.Call) and isinstance(a.value.func, ast.Attribute) and isinstance(a.value.func.value, ast.Name):
            c = a.value
            recv, meth = c.func.value.id, c.func.attr  # type: ignore[attr-defined]
            args = [pf.nsrc(x) for x in c.args]
            if recv == bunch and meth == 'append' and args == [spec] and not c.keywords:
                return 'app'
            if recv == result and meth == 'append' and args == [bunch] and not c.keywords:
                return 'flush'
            if recv in (bunch, result):
                return f'other:{pf.nsrc(a)}'
            if spec in args:
                return f'other:{pf.nsrc(a)}'
            return None
        if isinstance(a, (ast.Assign, ast.AnnAssign, ast.AugAssign)):
            tg = a.targets if isinstance(a, ast.Assign) else [a.target]
            names = {x.id for t in tg for x in ast.walk(t) if isinstance(x, ast.Name) and isinstance(x.ctx, ast.Store)}
            if bunch in names:
                v = a.value
                if isinstance(a, ast.AugAssign) or len(tg) != 1 or not isinstance(tg[0], ast.Name):
                    return f'other:{pf.nsrc(a)}'
                if isinstance(v, ast.List) and [pf.nsrc(e) for e in v.elts] == [spec]:
                    return 'new1'
                if isinstance(v, ast.List) and not v.elts:
                    return 'new0'
                return f'other:{pf.nsrc(a)}'
            if result in names:
                return f'other:{pf.nsrc(a)}'
        return None

    # ---- enumerate the paths of one iteration
    paths: List[List[Tuple[pf.Node, str]]] = []

    def dfs(n: pf.Node, acc: List[Tuple[pf.Node, str]]) -> None:
        ctx.need(len(paths) < 512, f'{where}: too many paths through the loop body')
        for nxt, lab in n.succ:
            if n is H0 and lab != 'T':
                continue
            if nxt is H0:
                paths.append(acc + [(n, lab)])
            elif nxt is g.raise_exit:
                continue  # a failed assert / exception: nothing is returned
            elif nxt.id in body_nodes:
                dfs(nxt, acc + [(n, lab)])
            else:
                raise AnalysisError(f'{where}: the loop body is left towards `{nxt.text()}`')

    dfs(H0, [])
    ctx.need(paths, f'{where}: no path through the loop body')
    ctx.unit('loop_paths', len(paths))

    # size variable and environment of single definitions in the body
    env: Dict[str, ast.AST] = {}
    for st in loop.body:
        if isinstance(st, ast.Assign) and len(st.targets) == 1 and isinstance(st.targets[0], ast.Name) and st.targets[0].id not in (bunch, result):
            nm = st.targets[0].id
            if sum(1 for x in _stmts(fn) if isinstance(x, (ast.Assign, ast.AugAssign)) and any(isinstance(y, ast.Name) and y.id == nm and isinstance(y.ctx, ast.Store) for y in ast.walk(x))) == 1:
                env[nm] = st.value
    size = linform.sym(f'{spec}.n_bytes')
    LIM_B, LIM_N = linform.sym(p_bytes), linform.sym(p_size)
    LEN = linform.sym(f'len({bunch})')

    lin_bad: List[str] = []
    lim_bad: List[str] = []
    acct_bad: List[str] = []
    fresh_bad: List[str] = []
    counter: Optional[str] = None
    n_app = n_new = 0
    for path in paths:
        evs = [(event(n), n) for n, _ in path if event(n) is not None]
        desc = ' -> '.join(f'{n.text()}[{lab}]' if n.kind == 'test' else n.text() for n, lab in path if n.kind in ('test',) or event(n) is not None) or '(no effect)'
        other = [e for e, _ in evs if e.startswith('other:')]  # type: ignore[union-attr]
        ctx.need(not other, f'{where}: unrecognised use of `{bunch}`/`{result}`/`{spec}`: {other}')
        kinds = [e for e, _ in evs]
        consumed = kinds.count('app') + kinds.count('new1')
        if consumed != 1:
            lin_bad.append(f'on the path {desc} the spec is consumed {consumed} times (it is {"dropped" if consumed == 0 else "duplicated"})')
        for i, k in enumerate(kinds):
            if k == 'flush' and (i + 1 >= len(kinds) or kinds[i + 1] not in ('new0', 'new1')):
                lin_bad.append(f'on the path {desc} `{result}.append({bunch})` is not followed by rebinding `{bunch}`: the flushed bunch is modified or flushed again')
            if k in ('new0', 'new1') and (i == 0 or kinds[i - 1] != 'flush'):
                lin_bad.append(f'on the path {desc} `{bunch}` is rebound without first being appended to `{result}`: the specs collected so far are lost')
        # facts along the path
        facts: List[Lin] = []
        pos_of = {}
        for i, (n, lab) in enumerate(path):
            if n.kind == 'test' and lab in ('T', 'F'):
                for atom, pol in _conjuncts(n.ast, lab == 'T'):
                    L = _le0(atom, pol, env)
                    if L is not None:
                        facts.append(L)
                        pos_of[id(L)] = i
            elif n.kind == 'stmt' and isinstance(n.ast, ast.Assert):
                for atom, pol in _conjuncts(n.ast.test, True):
                    L = _le0(atom, pol, env)
                    if L is not None:
                        facts.append(L)
                        pos_of[id(L)] = i
        if 'app' in kinds:
            n_app += 1
            app_i = [i for i, (n, _) in enumerate(path) if event(n) == 'app'][0]
            before = [L for L in facts if pos_of[id(L)] < app_i]
            # count limit
            if not any(_nonneg_const(L - (LEN + linform.const(1) - LIM_N)) for L in before):
                lim_bad.append(f'`{bunch}.append({spec})` on the path {desc} is not guarded by len({bunch}) + 1 <= {p_size}: with {p_size} = k a bunch receives k + 1 specs')
            # byte limit: find the counter
            cands = []
            for L in before:
                d = L - (size - LIM_B)
                syms = d.symbols()
                if len(syms) == 1 and d.coef[syms[0]] == 1 and d.const >= 0 and syms[0].isidentifier():
                    cands.append(syms[0])
            if not cands:
                lim_bad.append(f'`{bunch}.append({spec})` on the path {desc} is not guarded by <bytes so far> + {spec}.n_bytes <= {p_bytes}: a bunch can exceed the byte limit')
            else:
                ctx.need(counter in (None, cands[0]), f'{where}: two different byte counters')
                counter = cands[0]
        if 'new1' in kinds:
            n_new += 1
            new_i = [i for i, (n, _) in enumerate(path) if event(n) == 'new1'][0]
            before = [L for L in facts if pos_of[id(L)] < new_i]
            if not any(_nonneg_const(L - (size - LIM_B)) for L in before):
                fresh_bad.append(f'the fresh bunch `[{spec}]` on the path {desc} is not preceded by a check {spec}.n_bytes <= {p_bytes}: a spec larger than the limit becomes a bunch of its own')

    # byte accounting along each path (needs the counter found above)
    if counter is not None:
        B0 = linform.sym(counter)
        for path in paths:
            kinds = [event(n) for n, _ in path if event(n) is not None]
            cur = B0
            for n, _ in path:
                a = n.ast
                if n.kind == 'stmt' and isinstance(a, ast.AugAssign) and isinstance(a.target, ast.Name) and a.target.id == counter:
                    ctx.need(isinstance(a.op, (ast.Add, ast.Sub)), f'{where}: `{pf.nsrc(a)}` not recognised')
                    d = linform.lin(a.value, env)
                    cur = cur + d if isinstance(a.op, ast.Add) else cur - d
                elif n.kind == 'stmt' and isinstance(a, ast.Assign) and any(isinstance(t, ast.Name) and t.id == counter for t in a.targets):
                    cur = linform.lin(a.value, {**env, counter: cur})
            desc = ' -> '.join(n.text() for n, _ in path if event(n) is not None)
            if 'new1' in kinds or 'new0' in kinds:
                d = cur - (size if ('new1' in kinds or 'app' in kinds) else linform.const(0))
                ok = d.const >= 0 and all(s == counter and c >= 0 for s, c in d.coef.items())
                if not ok:
                    acct_bad.append(f'after starting a new bunch ({desc}) the tracked byte count is `{cur!r}`, which is not >= the bytes of the new bunch `{size!r}`')
            elif 'app' in kinds:
                if not _nonneg_const(cur - (B0 + size)):
                    acct_bad.append(f'after `{bunch}.append({spec})` ({desc}) the tracked byte count is `{cur!r}`, not `{counter} + {size!r}`: the byte guard under-estimates the bunch')
        inits = [st for st in fn.body if isinstance(st, (ast.Assign, ast.AnnAssign)) and any(isinstance(t, ast.Name) and t.id == counter for t in (st.targets if isinstance(st, ast.Assign) else [st.target]))]
        if not (len(inits) == 1 and isinstance(inits[0].value, ast.Constant) and inits[0].value.value == 0 and g.dominated_by(H0, lambda n: n.ast is inits[0])):
            acct_bad.append(f'`{counter}` is not initialised to 0 before the loop')

    def report(rule: str, name: str, bad: List[str], detail=None) -> None:
        cons = f'{where}::{name}'
        if bad:
            ctx.bad(rule, cons, bad[0] + (f' (+{len(bad) - 1} more)' if len(bad) > 1 else ''), m.path, loop.lineno, extra=bad[:8])
        else:
            ctx.ok(rule, cons, detail)

    report('R2', 'each spec consumed exactly once, bunch rebound only after flush', lin_bad, {'paths': len(paths), 'appending': n_app, 'fresh': n_new})
    ctx.need(n_app >= 1 and n_new >= 1 or lin_bad, f'{where}: expected an appending path and a fresh-bunch path')
    report('R3', 'append guarded by both limits', lim_bad, {'counter': counter})
    report('R3', 'byte count is an upper bound of the bunch bytes', acct_bad if counter is not None else ['no byte counter identified'] if not lim_bad else [])
    report('R3', 'fresh bunch respects the byte limit', fresh_bad)
    # n_bytes is the length of the serialised spec
    nb = m.func('SpecBytes.n_bytes')
    r0 = [st for st in _stmts(nb) if isinstance(st, ast.Return)]
    ctx.need(len(r0) == 1, f'{F}::SpecBytes.n_bytes: expected one return')
    ctx.check(pf.nsrc(r0[0].value) == 'len(self.spec_bytes)', 'R3', f'{F}::SpecBytes.n_bytes', f'`{pf.nsrc(r0[0])}` is not the length of the serialised spec', m.path, r0[0].lineno)

    # ---- before and after the loop
    inits_ok = True
    for nm in (bunch, result):
        ds = [st for st in fn.body if isinstance(st, (ast.Assign, ast.AnnAssign)) and any(isinstance(t, ast.Name) and t.id == nm for t in (st.targets if isinstance(st, ast.Assign) else [st.target]))]
        inits_ok = inits_ok and len(ds) == 1 and isinstance(ds[0].value, ast.List) and not ds[0].value.elts and g.dominated_by(H0, lambda n, d=ds[0]: n.ast is d)
    ctx.check(inits_ok, 'R2', f'{where}::starts empty', f'`{bunch}` / `{result}` are not initialised to [] exactly once before the loop', m.path, fn.lineno)

    def nonempty_label(t: ast.AST) -> Optional[str]:
        if pf.nsrc(t) in (bunch, f'len({bunch})', f'len({bunch}) > 0', f'len({bunch}) != 0', f'len({bunch}) >= 1', f'{bunch} != []'):
            return 'T'
        if pf.nsrc(t) in (f'not {bunch}', f'len({bunch}) == 0', f'{bunch} == []'):
            return 'F'
        return None

    after_tests = {}
    for n in g.nodes:
        if n.kind == 'test' and n.id not in body_nodes and n.ast is not None and bunch in pf.names_in(n.ast):
            lab = nonempty_label(n.ast)
            ctx.need(lab is not None, f'{where}: test `{pf.nsrc(n.ast)}` after the loop not recognised')
            after_tests[n.id] = lab

    def is_flush(n: pf.Node) -> bool:
        return event(n) == 'flush'

    def edge_ok(a: pf.Node, b: pf.Node, lab: str) -> bool:
        if a is H0:
            return lab == 'F'
        if a.id in after_tests:
            return lab == after_tests[a.id]
        return True

    p = g.path_avoiding(H0, lambda n: n is g.exit, is_flush, edge_ok=edge_ok)
    ctx.check(p is None, 'R2', f'{where}::residual bunch appended', f'after the loop a non-empty `{bunch}` can reach `return {result}` without `{result}.append({bunch})`: '
              f'the last bunch (all specs when everything fits in one bunch) is never submitted', m.path, rets[0].lineno)
    # nothing after the loop may touch the result otherwise
    tail = [event(n) for n in g.nodes if n.id not in body_nodes and n.ast is not None and g.dominated_by(n, lambda x: x is H0) and event(n) is not None]
    ctx.need(all(e == 'flush' for e in tail) and len(tail) <= 1, f'{where}: unrecognised statements after the loop: {tail}')


def _submit_call(ctx: Ctx, m: pf.Module) -> None:
    fn = m.func(f'{CLS}._submit')
    where = f'{F}::{CLS}._submit'
    g = pf.cfg(fn)
    calls = [c for c in pf.calls_in(fn) if pf.dotted(c.func) == 'self._create_bunches']
    ctx.need(len(calls) == 1 and not calls[0].keywords and len(calls[0].args) == 4, f'{where}: expected one positional call of self._create_bunches')
    got = [pf.nsrc(a) for a in calls[0].args]
    params = [a.arg for a in fn.args.args]
    ctx.need('max_bunch_bytesize' in params and 'max_bunch_size' in params, f'{where}: limit parameters renamed')
    want = ['self._job_group_specs', 'self._job_specs', 'max_bunch_bytesize', 'max_bunch_size']
    callee = [a.arg for a in m.func(f'{CLS}._create_bunches').args.args][1:]
    ctx.need(callee[2:] == ['max_bunch_bytesize', 'max_bunch_size'], f'{where}: _create_bunches limit parameters are {callee[2:]}')
    ctx.check(got == want, 'R1', f'{where}::arguments of _create_bunches', f'_create_bunches{tuple(callee)} is called with {got}: '
              + ('job specs are tagged as job groups and vice versa' if got[:2] == want[1::-1] else 'the byte limit and the count limit are interchanged' if got[2:] == want[:1:-1] else 'wrong arguments'),
              m.path, calls[0].lineno)
    bvar = [t.id for st in _stmts(fn) if isinstance(st, ast.Assign) and st.value is calls[0] for t in st.targets if isinstance(t, ast.Name)]
    ctx.need(len(bvar) == 1 and len(pf.assignments(fn).get(bvar[0], [])) == 1, f'{where}: result of _create_bunches is not bound once')
    bunches = bvar[0]

    def call_nodes(name: str) -> List[Tuple[pf.Node, ast.Call]]:
        out = []
        for c in pf.calls_in(fn):
            if pf.dotted(c.func) == f'self.{name}':
                ns = g.node_of(c)
                ctx.need(len(ns) == 1, f'{where}: node of {name}')
                out.append((ns[0], c))
        return out

    grp, job = call_nodes('_submit_job_group_bunches'), call_nodes('_submit_job_bunches')
    ctx.need(len(job) >= 1, f'{where}: no call of _submit_job_bunches')
    for n, c in job:
        doms = [gn for gn, gc in grp if g.dominated_by(n, lambda x, gn=gn: x is gn) and pf.node_has_await(gn)
                and len(gc.args) >= 2 and pf.nsrc(gc.args[1]) == bunches and pf.nsrc(gc.args[0]) == pf.nsrc(c.args[0])]
        arg_ok = len(c.args) >= 2 and pf.nsrc(c.args[1]) == bunches
        branch = 'create' if any(pf.dotted(x.func) == 'self._open_batch' for x in pf.calls_in(fn) if g.node_of(x) and g.dominated_by(n, lambda y, x=x: y is g.node_of(x)[0])) else 'update'
        ctx.check(bool(doms) and arg_ok, 'R4', f'{where}::{branch}: job groups before jobs',
                  f'`{pf.nsrc(c)}` is not dominated by an awaited `self._submit_job_group_bunches(<same update>, {bunches}, …)`: jobs can be submitted before the job groups '
                  f'they belong to, or a different list of bunches is submitted', m.path, c.lineno)
    # single-bunch fast paths take bunch 0
    for name in ('_create_fast', '_update_fast'):
        cs = call_nodes(name)
        ctx.need(len(cs) == 1, f'{where}: expected one call of {name}')
        ctx.check(pf.nsrc(cs[0][1].args[0]) == f'{bunches}[0]', 'R4', f'{where}::{name} receives the only bunch', f'`{pf.nsrc(cs[0][1])}` does not pass `{bunches}[0]`', m.path, cs[0][1].lineno)


def _filter(ctx: Ctx, fn: pf.FuncDef, where: str, src_param: str) -> Dict[str, str]:
    """name -> SpecType member for `name = [s.spec_bytes for s in <src_param> if s.typ == SpecType.X]`."""
    out: Dict[str, str] = {}
    for st in fn.body:
        if isinstance(st, ast.Assign) and len(st.targets) == 1 and isinstance(st.targets[0], ast.Name) and isinstance(st.value, ast.ListComp):
            lc = st.value
            if len(lc.generators) == 1 and isinstance(lc.generators[0].iter, ast.Name) and lc.generators[0].iter.id == src_param and isinstance(lc.generators[0].target, ast.Name):
                v = lc.generators[0].target.id
                ctx.need(pf.nsrc(lc.elt) == f'{v}.spec_bytes' and len(lc.generators[0].ifs) == 1, f'{where}: `{pf.nsrc(st)}` is not a typed projection')
                t = lc.generators[0].ifs[0]
                ctx.need(isinstance(t, ast.Compare) and len(t.ops) == 1 and isinstance(t.ops[0], (ast.Eq, ast.Is)) and pf.nsrc(t.left) == f'{v}.typ'
                         and (pf.dotted(t.comparators[0]) or '').startswith('SpecType.'), f'{where}: filter `{pf.nsrc(t)}` not recognised')
                out[st.targets[0].id] = pf.dotted(t.comparators[0]).split('.')[1]  # type: ignore[union-attr]
    return out


def _submitters(ctx: Ctx, m: pf.Module) -> None:
    # per-bunch submitters: filter <-> endpoint
    for name, typ, suffix in (('_submit_jobs', 'JOB', '/jobs/create'), ('_submit_job_groups', 'JOB_GROUP', '/job-groups/create')):
        fn = m.func(f'{CLS}.{name}')
        where = f'{F}::{CLS}.{name}'
        ctx.need(len(fn.args.args) >= 3, f'{where}: parameters changed')
        fl = _filter(ctx, fn, where, fn.args.args[2].arg)
        ctx.need(len(fl) == 1, f'{where}: expected one typed projection of the bunch')
        lst, got = next(iter(fl.items()))
        calls = [c for c in pf.calls_in(fn) if pf.dotted(c.func) == 'self._submit_spec_bunch']
        ctx.need(len(calls) == 1 and len(calls[0].args) >= 2, f'{where}: expected one _submit_spec_bunch call')
        url = pf.fstring_template(calls[0].args[0], lambda e: '{}')
        ctx.need(url is not None, f'{where}: url not a string template')
        ctx.check(got == typ and url.endswith(suffix) and pf.nsrc(calls[0].args[1]) == lst, 'R4', f'{where}::filter matches endpoint',
                  f'specs of type SpecType.{got} (`{lst}`) are posted as `{pf.nsrc(calls[0].args[1])}` to `…{url[-24:]}`; expected SpecType.{typ} -> …{suffix}', m.path, calls[0].lineno)
    # fast paths: JSON key <-> list
    for name in ('_create_fast', '_update_fast'):
        fn = m.func(f'{CLS}.{name}')
        where = f'{F}::{CLS}.{name}'
        fl = _filter(ctx, fn, where, fn.args.args[1].arg)
        ctx.need(sorted(fl.values()) == ['JOB', 'JOB_GROUP'], f'{where}: expected one JOB and one JOB_GROUP projection, found {fl}')
        key = None
        pairs = []
        for st in fn.body:
            if isinstance(st, ast.Expr) and isinstance(st.value, ast.Call) and isinstance(st.value.func, ast.Attribute) and st.value.func.attr == 'extend' \
                    and len(st.value.args) == 1 and isinstance(st.value.args[0], ast.Constant) and isinstance(st.value.args[0].value, bytes):
                txt = st.value.args[0].value.decode()
                if txt.rstrip().endswith(':'):
                    key = txt.strip('{,: ').strip('"')
            elif isinstance(st, ast.For) and isinstance(st.iter, ast.Call) and pf.dotted(st.iter.func) == 'enumerate' and len(st.iter.args) == 1 and isinstance(st.iter.args[0], ast.Name):
                lst = st.iter.args[0].id
                ctx.need(lst in fl and key is not None and isinstance(st.target, ast.Tuple) and len(st.target.elts) == 2, f'{where}: serialisation loop over `{lst}` not recognised')
                el = pf.nsrc(st.target.elts[1])
                ext = [c for c in pf.calls_in(st) if isinstance(c.func, ast.Attribute) and c.func.attr == 'extend' and [pf.nsrc(a) for a in c.args] == [el]]
                ctx.need(len(ext) == 1, f'{where}: loop over `{lst}` does not write each element once')
                pairs.append((key, fl[lst]))
                key = None
        want = {'bunch': 'JOB', 'job_groups': 'JOB_GROUP'}
        ctx.need(sorted(k for k, _ in pairs) == sorted(want), f'{where}: JSON keys written are {[k for k, _ in pairs]}')
        wrong = [(k, t) for k, t in pairs if want[k] != t]
        ctx.check(not wrong, 'R4', f'{where}::JSON key matches spec type', f'the request field {wrong[0][0] if wrong else ""!r} is filled with SpecType.{wrong[0][1] if wrong else ""} specs: '
                  f'job specs are sent as job groups (or vice versa)', m.path, fn.lineno)
    # bunch lists reach the submitters in order
    fn = m.func(f'{CLS}._submit_job_group_bunches')
    where = f'{F}::{CLS}._submit_job_group_bunches'
    prm = fn.args.args[2].arg
    loops = [st for st in fn.body if isinstance(st, ast.For) and isinstance(st.iter, ast.Name) and st.iter.id == prm and isinstance(st.target, ast.Name)]
    ok = False
    if len(loops) == 1:
        aw = [x for x in ast.walk(loops[0]) if isinstance(x, ast.Await) and isinstance(x.value, ast.Call) and pf.dotted(x.value.func) == 'self._submit_job_groups'
              and len(x.value.args) >= 2 and pf.nsrc(x.value.args[1]) == loops[0].target.id]
        ok = len(aw) == 1
    ctx.check(ok, 'R4', f'{where}::sequential, in order', f'job-group bunches are not awaited one after the other in list order (a job group must be submitted after its parents)', m.path, fn.lineno)
    fn = m.func(f'{CLS}._submit_job_bunches')
    where = f'{F}::{CLS}._submit_job_bunches'
    prm = fn.args.args[2].arg
    comps = [x for x in ast.walk(fn) if isinstance(x, (ast.ListComp, ast.GeneratorExp)) and len(x.generators) == 1 and pf.nsrc(x.generators[0].iter) == prm and not x.generators[0].ifs]
    ok = False
    if len(comps) == 1 and isinstance(comps[0].elt, ast.Call) and isinstance(comps[0].generators[0].target, ast.Name):
        e = comps[0].elt
        tv = comps[0].generators[0].target.id
        args = [pf.nsrc(a) for a in e.args]
        ok = (pf.dotted(e.func) == 'functools.partial' and args[:1] == ['self._submit_jobs'] and len(args) >= 3 and args[2] == tv) or \
             (pf.dotted(e.func) == 'self._submit_jobs' and len(args) >= 2 and args[1] == tv)
    ctx.check(ok, 'R4', f'{where}::every bunch submitted', f'not every bunch of `{prm}` is handed to self._submit_jobs exactly once', m.path, fn.lineno)
    ctx.unit('functions', 6)


def run(ctx: Ctx) -> None:
    ctx.level = 'other'
    ctx.exhaustive = True
    ctx.explanation = ('All paths through the body of the bunching loop are enumerated on the CFG and checked for linear use of the spec and of the current bunch; guards and '
                       'byte accounting are compared in linear normal form; submitter filters are matched with their endpoints / JSON keys; nothing is run.')
    ctx.rule('R1', 'iterable = [*JOB_GROUP-tagged(param 1), *JOB-tagged(param 2)] from unfiltered comprehensions; _submit passes (job group specs, job specs, byte limit, count limit)', 3)
    ctx.rule('R2', 'on every path through the loop body the spec is consumed exactly once, bunch is rebound only right after being flushed, lists start empty, residual bunch appended', 3)
    ctx.rule('R3', 'append guarded by bytes + n <= max_bytes and len + 1 <= max_size; tracked bytes >= actual bytes on every path; fresh [spec] preceded by n <= max_bytes; n_bytes = len(spec_bytes)', 4)
    ctx.rule('R4', 'submitters filter by the SpecType of their endpoint / JSON key; bunches passed unchanged and in order; job-group bunches awaited before job bunches in both multi-bunch paths', 10)
    ctx.assume('spec sizes are non-negative and assert statements are enabled (a spec larger than the byte limit is rejected by the assert, not bunched)')
    m = pf.load(F)
    ctx.unit('files')
    _bunching(ctx, m)
    _submit_call(ctx, m)
    _submitters(ctx, m)
