"""C19 Client spec bunching preserves order and limits.

Decides (from the syntax tree of hailtop/batch_client/aioclient.py; nothing is run; statement-level same-class helpers of `_create_bunches`
are inlined first, static methods included):
  R1  source and order: the bunching loop iterates [*<JOB_GROUP-tagged specs of parameter 1>, *<JOB-tagged specs of parameter 2>] built by
      unfiltered comprehensions whose element is SpecBytes(dumps(x), tag) directly or through a helper every return of which is that
      constructor; every name on the way (source list, comprehension iterable, type tag) is followed through the definitions that REACH it on
      the CFG, so the comprehension must range over the parameter itself - a parameter or source list that was rebound to sorted(..) /
      reversed(..) / a slice / a filtered copy, or sorted / reversed / shuffled in place, is an order (or completeness) violation, list(..) /
      [:] / .copy() are not; a source that on some path is an ATTRIBUTE of the object (bytes serialised by another method at another time)
      is a provenance violation when that method stores a caller-owned object in the spec by reference (snapshot != specification passed in);
      `_submit` passes (self._job_group_specs, self._job_specs, max_bunch_bytesize, max_bunch_size) in that order,
      `submit` forwards ITS OWN limit arguments to `_submit`, and no statement of the file re-orders the two spec lists between creation and bunching
  R2  linear use, on every path through the loop body (all paths are enumerated on the CFG): the spec is consumed exactly once, by
      `bunch.append(spec)` or by the fresh `[spec]`; `bunch` is rebound only right after it was appended to the result and a flushed bunch
      is never touched again; after the loop the residual non-empty bunch is appended (several `return <result>` are accepted)
  R3  limits in linear normal form: the appending path is guarded by  bytes + n <= max_bytes  and  len(bunch) + 1 <= max_size  (or
      something stronger), the tracked byte count is an upper bound of the bunch's bytes on every path (+= n on append, reset to >= n with the
      fresh bunch, 0 initially), and a fresh single-spec bunch is preceded by a check  n <= max_bytes.  The compared bound must be THIS
      CALL's limit parameter or a value provably <= it (a local defined as `min(.., <param>, ..)` or linearly from it); per-spec facts are
      taken from the loop body (assert / if-raise, also inside an inlined helper), from the rejecting comparisons of a serialisation helper
      used in the source comprehensions (its parameters translated to the caller's arguments) and from `assert all(.. for s in <specs>)`
      before the loop - a check against a class constant establishes nothing about the parameter
  R4  submitters: each submitter filters by the SpecType that matches the endpoint / JSON key it feeds, bunches reach the submitters
      unchanged and in list order, and in both multi-bunch paths of `_submit` the job-group bunches are submitted (awaited) before the job bunches
  R5  who may mutate the result structure (decided over EVERY statement of the function, alias-aware): a spec is only appended to the current
      bunch, a bunch only appended at the end of the result list; inserting into / extending / overwriting an element of the result list
      reached through an index or through a variable bound while iterating the result (zip / enumerate / slices included), insert at a
      position other than the end, sort / reverse / shuffle, prepending, and returning a re-ordered copy are order violations; merging into
      result[-1], removals and escapes of the list are declined
Does not decide: that orjson.dumps is deterministic; server-side handling; the bytes the JSON array adds around the specs (brackets, commas).
"""
from __future__ import annotations

import ast
from typing import Dict, List, Optional, Set, Tuple

import copy

from engines import c1819facts as facts, inline, linform, pyfacts as pf
from engines.common import AnalysisError, Ctx
from engines.linform import Lin

META = dict(
    category='other',
    text='Linear-use analysis by exhaustive enumeration of the (acyclic) paths through the bunching loop body, with the guards and the byte accounting '
         'compared in linear normal form; def-use of the iterable; dominance of job-group submission over job submission. Every path of the loop body is an '
         'obligation and all are discharged, but list semantics are taken from the recognised idioms (append / [spec] / rebinding), so the level is "other".',
    note='Trusted: CPython ast; engines/pyfacts CFG; engines/linform; list.append appends at the end; assert statements are enabled. Spec sizes are non-negative.',
    technique='static analysis: path enumeration on the CFG (linear use), linear normal forms, reaching definitions with an order relation over sequence wrappers, dominance, helper inlining, who-may-mutate / who-may-reorder rules with aliases',
    design_ref='DESIGN.md §3 C19',
)

F = 'hail/python/hailtop/batch_client/aioclient.py'
CLS = 'Batch'


def _stmts(fn: ast.AST) -> List[ast.stmt]:
    return [n for n in pf.walk_shallow(fn) if isinstance(n, ast.stmt) and n is not fn]


def _inside(outer: ast.AST, inner: ast.AST) -> bool:
    return any(x is inner for x in ast.walk(outer)) and outer is not inner


def _conjuncts(test: ast.AST, truth: bool) -> List[Tuple[ast.AST, bool]]:
    """Facts known when `test` evaluated to `truth`: list of (atom, polarity)."""
    if isinstance(test, ast.UnaryOp) and isinstance(test.op, ast.Not):
        return _conjuncts(test.operand, not truth)
    if isinstance(test, ast.BoolOp):
        if (isinstance(test.op, ast.And) and truth) or (isinstance(test.op, ast.Or) and not truth):
            out: List[Tuple[ast.AST, bool]] = []
            for v in test.values:
                out += _conjuncts(v, truth)
            return out
        return []
    return [(test, truth)]


def _le0(atom: ast.AST, pol: bool, env: Dict[str, ast.AST]) -> Optional[Lin]:
    try:
        L = linform.cmp_le0(atom, env)
    except AnalysisError:
        return None
    return L if pol else linform.const(1) - L


def _nonneg_const(d: Lin) -> bool:
    return d.is_const() and d.const >= 0


ELEM = '<spec>.n_bytes'
REORDER_FUNCS = ('sorted', 'reversed')


def _prepared(m: pf.Module) -> Tuple[pf.Module, List[Tuple[str, int]]]:
    """A copy of the module in which the statement-level same-class helper calls of `_create_bunches` are inlined (engines/inline).  Static
    methods are first turned into ordinary methods (receiver added, `Batch.h(..)` rewritten to `self.h(..)`) so that they are inlined too."""
    tree = copy.deepcopy(m.tree)
    m1 = pf.Module(m.rel, m.path, m.src, tree)
    cls = m1.cls(CLS)
    target = None
    for f in cls.body:
        if isinstance(f, ast.FunctionDef) and f.name == '_create_bunches':
            target = f
    if target is None or not target.args.args:
        return m, []
    recv = target.args.args[0].arg
    statics = set()
    for f in cls.body:
        if isinstance(f, ast.FunctionDef) and pf.decorator_names(f) == ['staticmethod'] and recv not in {a.arg for a in f.args.args} \
                and not any(isinstance(x, ast.Name) and x.id == recv for x in ast.walk(f)):
            f.decorator_list = []
            f.args.args.insert(0, ast.arg(arg=recv))
            statics.add(f.name)
    for x in ast.walk(target):
        if isinstance(x, ast.Call) and isinstance(x.func, ast.Attribute) and isinstance(x.func.value, ast.Name) and x.func.value.id == CLS and x.func.attr in statics:
            x.func.value = ast.copy_location(ast.Name(id=recv, ctx=ast.Load()), x.func.value)
    ast.fix_missing_locations(tree)
    m2, il = inline.inline_methods(m1, CLS, '_create_bunches')
    return m2, il.inlined


def _weaken(L: Lin, bounds: Dict[str, str]) -> List[Lin]:
    """L <= 0 with a term  -c * min(.., P, ..)  (c > 0) implies the same fact with P in place of the min: min(..) <= P."""
    out = [L]
    for s0, c in list(L.coef.items()):
        if c < 0 and s0.startswith('min('):
            try:
                e = ast.parse(s0, mode='eval').body
            except SyntaxError:
                continue
            if isinstance(e, ast.Call) and not e.keywords:
                for a in e.args:
                    if pf.nsrc(a) in bounds:
                        out.append(L - Lin({s0: c}) + Lin({bounds[pf.nsrc(a)]: c}))
    return out


def _paths_to_returns(g: pf.CFG, limit: int = 64) -> List[Tuple[List[Tuple[pf.Node, str]], pf.Node]]:
    """All acyclic entry -> return paths of a small helper (AnalysisError when there are loops or too many)."""
    out: List[Tuple[List[Tuple[pf.Node, str]], pf.Node]] = []

    def dfs(n: pf.Node, acc: List[Tuple[pf.Node, str]], seen: Set[int]) -> None:
        if len(out) > limit:
            raise AnalysisError('too many paths through the helper')
        if n.kind == 'return':
            out.append((acc, n))
            return
        for nxt, lab in n.succ:
            if nxt is g.raise_exit or nxt.kind == 'raise':
                continue
            if nxt.id in seen:
                raise AnalysisError('the helper contains a loop')
            dfs(nxt, acc + [(n, lab)], seen | {nxt.id})
    dfs(g.entry, [], {g.entry.id})
    return out


def _elem_ctor(ctx: Ctx, m: pf.Module, elt: ast.AST, where: str) -> Tuple[ast.AST, ast.AST, List[Lin], str]:
    """The element expression of a source comprehension as (payload expression, type tag, facts about the element's byte size that hold for every
    element, description).  `SpecBytes(<bytes>, <tag>)` directly, or a call of a same-class / module-level helper every return of which is such a
    constructor call; the helper's rejecting comparisons (raise / assert) become facts `L <= 0` over ELEM and the CALLER's argument expressions."""
    if isinstance(elt, ast.Call) and pf.dotted(elt.func) == 'SpecBytes' and len(elt.args) == 2 and not elt.keywords:
        return elt.args[0], elt.args[1], [], 'SpecBytes(...)'
    ctx.need(isinstance(elt, ast.Call) and not any(isinstance(a, ast.Starred) for a in elt.args) and not any(k.arg is None for k in elt.keywords),
             f'{where}: `{pf.nsrc(elt)}` is not SpecBytes(<bytes>, <type>)')
    f = elt.func  # type: ignore[union-attr]
    h: Optional[ast.FunctionDef] = None
    drop = 0
    if isinstance(f, ast.Attribute) and isinstance(f.value, ast.Name) and f.value.id in ('self', 'cls', CLS):
        for d in m.cls(CLS).body:
            if isinstance(d, ast.FunctionDef) and d.name == f.attr:
                h = d
        if h is not None:
            decs = pf.decorator_names(h)
            ctx.need(all(d in ('staticmethod', 'classmethod') for d in decs), f'{where}: helper `{f.attr}` is decorated with {decs}')
            drop = 0 if 'staticmethod' in decs else 1
    elif isinstance(f, ast.Name):
        for d in m.tree.body:
            if isinstance(d, ast.FunctionDef) and d.name == f.id:
                h = d
    ctx.need(h is not None, f'{where}: `{pf.nsrc(elt)}` is not SpecBytes(<bytes>, <type>) and not a call of a helper defined in this module')
    assert h is not None
    hw = f'{F}::{h.name}'
    a = h.args
    ctx.need(not (a.vararg or a.kwarg or a.posonlyargs), f'{hw}: star parameters')
    def _reraising(t: ast.Try) -> bool:
        # `try: <body> except X: ...; raise ...`: every handler ends by raising, nothing is swallowed, so a normal completion went through the body only
        return not t.finalbody and not t.orelse and all(hd.body and isinstance(hd.body[-1], ast.Raise) and not any(isinstance(y, ast.Return) for z in hd.body for y in ast.walk(z))
                                                         for hd in t.handlers)
    ctx.need(not any(isinstance(x, (ast.For, ast.While, ast.AsyncFor, ast.With, ast.Await, ast.Yield, ast.YieldFrom, ast.Lambda)) or (isinstance(x, ast.Try) and not _reraising(x))
                     for x in pf.walk_shallow(h)),
             f'{hw}: loops / try / with in the serialisation helper (not analysed)')
    params = [x.arg for x in a.args][drop:] + [x.arg for x in a.kwonlyargs]
    bound: Dict[str, ast.AST] = {}
    ctx.need(len(elt.args) <= len(a.args) - drop, f'{hw}: too many arguments in `{pf.nsrc(elt)}`')  # type: ignore[union-attr]
    for p_, v in zip(params, elt.args):  # type: ignore[union-attr]
        bound[p_] = v
    for k in elt.keywords:  # type: ignore[union-attr]
        ctx.need(k.arg in params and k.arg not in bound, f'{hw}: keyword `{k.arg}` does not bind')
        bound[k.arg] = k.value  # type: ignore[index]
    pos = [x.arg for x in a.args][drop:]
    for p_, dflt in list(zip(pos[len(pos) - len(a.defaults):], a.defaults)) + [(x.arg, d) for x, d in zip(a.kwonlyargs, a.kw_defaults) if d is not None]:
        bound.setdefault(p_, dflt)
    ctx.need(all(p_ in bound for p_ in params), f'{hw}: unbound parameter in `{pf.nsrc(elt)}`')
    rets = [st for st in _stmts(h) if isinstance(st, ast.Return)]
    ctx.need(bool(rets), f'{hw}: no return')
    ctors = []
    for r in rets:
        v = pf.resolve_expr(h, r.value) if r.value is not None else None
        ctx.need(isinstance(v, ast.Call) and pf.dotted(v.func) == 'SpecBytes' and len(v.args) == 2 and not v.keywords,
                 f'{hw}: `{pf.nsrc(r)}` does not return SpecBytes(<bytes>, <type>)')
        ctors.append((r, v))
    ctx.need(len({pf.nsrc(v) for _, v in ctors}) == 1, f'{hw}: returns different constructor calls')
    ctor = ctors[0][1]
    pay = pf.resolve_expr(h, ctor.args[0])  # type: ignore[union-attr]
    tag = ctor.args[1]  # type: ignore[union-attr]

    class _Sub(ast.NodeTransformer):
        def visit_Name(self, n: ast.Name):
            if isinstance(n.ctx, ast.Load) and n.id in bound:
                return copy.deepcopy(bound[n.id])
            return n
    locals_ = {n.id for n in pf.walk_shallow(h) if isinstance(n, ast.Name) and isinstance(n.ctx, ast.Store)}
    ctx.need(not (locals_ & set(params)), f'{hw}: a parameter is re-assigned')
    pay_c = _Sub().visit(copy.deepcopy(pay))
    tag_c = _Sub().visit(copy.deepcopy(pf.resolve_expr(h, tag)))
    # names for the element's size inside the helper
    env: Dict[str, object] = {}
    E = linform.sym(ELEM)
    obj_names = [n for n, ds in pf.assignments(h).items() if len(ds) == 1 and ds[0] is ctor]
    bytes_names = [n for n, ds in pf.assignments(h).items() if len(ds) == 1 and ds[0] is pay]
    for on in obj_names:
        env[f'{on}.n_bytes'] = E
        env[f'len({on}.spec_bytes)'] = E
    for bn in bytes_names:
        env[f'len({bn})'] = E
    env[f'len({pf.nsrc(pay)})'] = E
    for n, ds in pf.assignments(h).items():
        if len(ds) == 1 and isinstance(ds[0], ast.expr) and n not in obj_names and n not in bytes_names and n not in params:
            env[n] = ds[0]
    g = pf.cfg(h)
    try:
        paths = _paths_to_returns(g)
    except AnalysisError as e:
        raise AnalysisError(f'{hw}: {e}') from e
    ctx.need(bool(paths), f'{hw}: no path reaches a return')
    per_path: List[List[Lin]] = []
    for path, _ret in paths:
        fs: List[Lin] = []
        for n, lab in path:
            atoms: List[Tuple[ast.AST, bool]] = []
            if n.kind == 'test' and lab in ('T', 'F'):
                atoms = _conjuncts(n.ast, lab == 'T')  # type: ignore[arg-type]
            elif n.kind == 'stmt' and isinstance(n.ast, ast.Assert):
                atoms = _conjuncts(n.ast.test, True)
            for atom, pol in atoms:
                L = _le0(atom, pol, env)  # type: ignore[arg-type]
                if L is not None and ELEM in L.coef:
                    fs.append(L)
        per_path.append(fs)
    common = [L for L in per_path[0] if all(any(L == L2 for L2 in fs) for fs in per_path[1:])]
    # translate helper parameters into the caller's expressions; drop facts over helper locals
    out: List[Lin] = []
    for L in common:
        T = Lin({}, L.const)
        ok = True
        for s0, c in L.coef.items():
            if s0 == ELEM:
                T = T + Lin({ELEM: c})
            elif s0 in bound:
                try:
                    T = T + linform.lin(bound[s0]).scale(c)
                except AnalysisError:
                    ok = False
            else:
                try:
                    names = pf.names_in(ast.parse(s0, mode='eval').body)
                except SyntaxError:
                    names = {s0}
                if names & (locals_ | set(params)):
                    ok = False
                T = T + Lin({s0: c})
        if ok:
            out.append(T)
    return pay_c, tag_c, out, f'helper {h.name}'


def _who_may_mutate(ctx: Ctx, m: pf.Module, fn: pf.FuncDef, where: str, result: str, bunch: str, loop: ast.For) -> None:
    """R5: the only mutations of the result structure are (i) appending to the CURRENT bunch and (ii) appending a bunch at the END of the result list.
    Every statement of the function that touches the result list, an element of it (through an index or an alias bound while iterating it) or the
    current bunch is classified; inserting into / extending an earlier bunch and any re-ordering break "concatenated in original order"."""
    aliases = facts.element_aliases(fn, result)
    par: Dict[ast.AST, ast.AST] = {}
    for p_ in ast.walk(fn):
        for c in ast.iter_child_nodes(p_):
            par[c] = p_
    tail_ = 'a job can also land in front of a job group, and the server reads a job spec at offset job_id - start_job_id of its bunch'
    stories = {
        'earlier': f'the concatenation of the bunches is no longer the original sequence: e.g. four jobs packed as [j1] [j2] [j3] [j4] come out as [j1, j4] [j2] [j3]; {tail_}',
        'result': f'the concatenation of the bunches is no longer the original sequence: e.g. bunches [j1, j2] [j3, j4] [j5] come out in another order such as [j5] [j1, j2] [j3, j4]; {tail_}',
        'bunch': f'the specs inside a bunch are no longer in the original order: e.g. j1, j2, j3 are submitted as the bunch [j3, j2, j1]; the server reads a job spec at offset '
                 f'job_id - start_job_id of its bunch',
    }
    seen_keys: Dict[str, int] = {}

    def key(st: ast.AST) -> str:
        k = pf.nsrc(st)
        role = 'in the loop' if _inside(loop, st) else 'after the loop' if getattr(st, 'lineno', 0) > loop.lineno else 'before the loop'
        k = f'{where}::{k} ({role})'
        seen_keys[k] = seen_keys.get(k, 0) + 1
        return k if seen_keys[k] == 1 else f'{k} #{seen_keys[k]}'

    def recv_kind(e: ast.AST) -> Optional[str]:
        if isinstance(e, ast.Name):
            if e.id == result:
                return 'result'
            if e.id == bunch:
                return 'bunch'
            if e.id in aliases:
                return {'earlier': 'element', 'last': 'elem-last', 'unknown': 'elem-unknown'}[facts.alias_kind(fn, aliases[e.id], result)]
            return None
        if isinstance(e, ast.Subscript) and isinstance(e.value, ast.Name) and e.value.id == result:
            if isinstance(e.slice, ast.Slice):
                return 'slice'
            return {'last': 'elem-last', 'earlier': 'element', 'unknown': 'elem-unknown'}[facts.index_kind(fn, e.slice, result)]
        if isinstance(e, ast.Subscript) and isinstance(e.value, ast.Name) and e.value.id in (bunch,) + tuple(aliases):
            return 'inside-' + ('bunch' if e.value.id == bunch else 'element')
        return None

    def alias_text(e: ast.AST) -> str:
        if isinstance(e, ast.Name) and e.id in aliases:
            site = aliases[e.id]
            how = f'`for {pf.nsrc(site.target)} in {pf.nsrc(site.iter)}`' if isinstance(site, (ast.For, ast.AsyncFor)) else f'`{pf.nsrc(site)}`'
            return f'`{e.id}` (an element of `{result}` bound by {how}, i.e. a bunch that was already flushed and is in general not the last one)'
        return f'`{pf.nsrc(e)}` (a bunch of `{result}` that was already flushed and is not the last one)'

    def bad(st: ast.AST, msg: str, story: str = 'earlier') -> None:
        ctx.bad('R5', key(st), msg + ': ' + stories[story], m.path, getattr(st, 'lineno', 0))

    def ok(st: ast.AST, what: str) -> None:
        ctx.ok('R5', key(st), what)

    INPLACE = ('append', 'extend', 'insert', 'remove', 'pop', 'clear', 'sort', 'reverse')
    handled_calls: Set[int] = set()
    for st in _stmts(fn):
        # ---- method calls
        if isinstance(st, ast.Expr) and isinstance(st.value, ast.Call) and isinstance(st.value.func, ast.Attribute):
            c = st.value
            meth = c.func.attr  # type: ignore[attr-defined]
            rk = recv_kind(c.func.value)  # type: ignore[attr-defined]
            if rk is None or meth not in INPLACE:
                continue
            handled_calls.add(id(c))
            rtxt = pf.nsrc(c.func.value)  # type: ignore[attr-defined]
            if rk in ('result', 'bunch'):
                if meth in ('append', 'extend'):
                    ok(st, 'appends at the end')
                elif meth == 'insert':
                    if len(c.args) == 2 and pf.nsrc(c.args[0]) == f'len({rtxt})':
                        ok(st, 'insert at the end')
                    else:
                        bad(st, f'`{pf.nsrc(st)}` inserts at a position other than the end of `{rtxt}`', rk)
                elif meth in ('sort', 'reverse'):
                    bad(st, f'`{pf.nsrc(st)}` re-orders `{rtxt}`', rk)
                else:
                    raise AnalysisError(f'{where}: `{pf.nsrc(st)}` removes from `{rtxt}` (not analysed)')
            elif rk in ('element', 'inside-element'):
                bad(st, f'`{pf.nsrc(st)}` modifies {alias_text(c.func.value)}')  # type: ignore[attr-defined]
            else:
                raise AnalysisError(f'{where}: `{pf.nsrc(st)}` mutates `{rtxt}` ({rk}: a different bunching design, not analysed)')
            continue
        # ---- assignments
        if isinstance(st, (ast.Assign, ast.AugAssign, ast.AnnAssign)):
            tgs = st.targets if isinstance(st, ast.Assign) else [st.target]
            flat: List[ast.AST] = []
            for t in tgs:
                flat += list(t.elts) if isinstance(t, (ast.Tuple, ast.List)) else [t]
            for t in flat:
                rk = recv_kind(t) if isinstance(t, ast.Subscript) else None
                if rk in ('element', 'slice', 'elem-unknown', 'elem-last'):
                    if rk == 'elem-last' or (rk == 'elem-unknown' and len(flat) == 1):
                        raise AnalysisError(f'{where}: `{pf.nsrc(st)}` assigns into `{pf.nsrc(t)}` (not analysed)')
                    bad(st, f'`{pf.nsrc(st)}` assigns into `{result}` at a position other than its end', 'result')
                elif rk == 'inside-element':
                    bad(st, f'`{pf.nsrc(st)}` overwrites a spec inside {alias_text(t.value)}')  # type: ignore[attr-defined]
                elif rk == 'inside-bunch':
                    bad(st, f'`{pf.nsrc(st)}` overwrites a spec already collected in `{bunch}`', 'bunch')
                elif isinstance(t, ast.Name) and t.id in aliases and isinstance(st, ast.AugAssign):
                    if recv_kind(t) != 'element':
                        raise AnalysisError(f'{where}: `{pf.nsrc(st)}` extends `{t.id}` ({recv_kind(t)}: a different bunching design, not analysed)')
                    bad(st, f'`{pf.nsrc(st)}` extends {alias_text(t)} in place')
                elif isinstance(t, ast.Name) and t.id == result and st.value is not None:
                    v = st.value
                    if isinstance(st, ast.AugAssign):
                        if isinstance(st.op, ast.Add):
                            ok(st, 'extends at the end')
                        else:
                            raise AnalysisError(f'{where}: `{pf.nsrc(st)}` not analysed')
                    elif isinstance(v, ast.List) and not v.elts:
                        pass
                    elif _reorders(v, result):
                        bad(st, f'`{pf.nsrc(st)}` re-orders `{result}`', 'result')
                    elif isinstance(v, ast.BinOp) and isinstance(v.op, ast.Add) and isinstance(v.left, ast.Name) and v.left.id == result:
                        ok(st, 'concatenates at the end')
                    elif isinstance(v, ast.BinOp) and isinstance(v.op, ast.Add) and isinstance(v.right, ast.Name) and v.right.id == result:
                        bad(st, f'`{pf.nsrc(st)}` puts a bunch in FRONT of the bunches flushed so far', 'result')
                    else:
                        raise AnalysisError(f'{where}: `{pf.nsrc(st)}` re-binds the result list (not analysed)')
                elif isinstance(t, ast.Name) and t.id == bunch and isinstance(st, ast.AugAssign):
                    if isinstance(st.op, ast.Add):
                        ok(st, 'extends at the end')
                    else:
                        raise AnalysisError(f'{where}: `{pf.nsrc(st)}` not analysed')
                elif isinstance(t, ast.Name) and t.id == bunch and st.value is not None and not isinstance(st, ast.AugAssign):
                    v = st.value
                    front = (isinstance(v, ast.BinOp) and isinstance(v.op, ast.Add) and isinstance(v.right, ast.Name) and v.right.id == bunch) or \
                        (isinstance(v, ast.List) and len(v.elts) >= 2 and isinstance(v.elts[-1], ast.Starred) and pf.nsrc(v.elts[-1].value) == bunch)
                    if front:
                        bad(st, f'`{pf.nsrc(st)}` puts a spec in FRONT of the specs already collected in `{bunch}`', 'bunch')
            continue
        if isinstance(st, ast.Delete):
            for t in st.targets:
                if recv_kind(t) is not None or (isinstance(t, ast.Subscript) and recv_kind(t.value) is not None):
                    raise AnalysisError(f'{where}: `{pf.nsrc(st)}` deletes from the result structure (not analysed)')
    # ---- escapes: the result list / an element alias handed to code we do not see
    PURE = facts.PURE_FUNCS | {'range'}
    for c in pf.calls_in(fn):
        if id(c) in handled_calls:
            continue
        if isinstance(c.func, ast.Attribute) and c.func.attr in INPLACE and recv_kind(c.func.value) is not None:
            raise AnalysisError(f'{where}: `{pf.nsrc(c)}` mutates the result structure inside an expression (not analysed)')
        argn = [a_ for a_ in list(c.args) + [k.value for k in c.keywords] if isinstance(a_, ast.Name) and (a_.id == result or a_.id in aliases)]
        if not argn:
            continue
        fname = pf.dotted(c.func) or ''
        if isinstance(c.func, ast.Name) and c.func.id in PURE:
            continue
        if fname.split('.')[-1] == 'shuffle':
            st = par.get(c)
            while st is not None and not isinstance(st, ast.stmt):
                st = par.get(st)
            bad(st or c, f'`{pf.nsrc(c)}` shuffles `{argn[0].id}`', 'result')
            continue
        raise AnalysisError(f'{where}: `{pf.nsrc(c)}` receives `{argn[0].id}` (the result structure escapes; not analysed)')


def _reorders(v: ast.AST, result: str) -> bool:
    """v is a re-ordered copy of the list `result`: sorted(result..), reversed(result), result[::-1], list(<one of these>)."""
    if isinstance(v, ast.Call) and isinstance(v.func, ast.Name) and v.func.id in ('list', 'tuple') and len(v.args) == 1:
        return _reorders(v.args[0], result)
    if isinstance(v, ast.Call) and isinstance(v.func, ast.Name) and v.func.id in REORDER_FUNCS and v.args and isinstance(v.args[0], ast.Name) and v.args[0].id == result:
        return True
    if isinstance(v, ast.Subscript) and isinstance(v.value, ast.Name) and v.value.id == result and isinstance(v.slice, ast.Slice) and v.slice.step is not None \
            and pf.nsrc(v.slice.step) != '1':
        return True
    if isinstance(v, (ast.ListComp, ast.GeneratorExp)) and len(v.generators) == 1 and _reorders(v.generators[0].iter, result):
        return True
    return False


def _resolve_names(g: pf.CFG, e: ast.AST, at: pf.Node, keep: Set[str]) -> ast.AST:
    """Copy of e in which every local name (not in keep) whose only definition reaching CFG node `at` is `name = <expression>` is replaced by that
    expression (one level; e.g. the `typ = SpecType.JOB` an inlined helper call leaves in front of its body)."""
    class _S(ast.NodeTransformer):
        def visit_Name(self, n: ast.Name):
            if isinstance(n.ctx, ast.Load) and n.id not in keep:
                ds, entry = facts.reaching_defs(g, n.id, at)
                if not entry and len(ds) == 1 and isinstance(ds[0].ast, ast.Assign) and len(ds[0].ast.targets) == 1 and isinstance(ds[0].ast.targets[0], ast.Name) \
                        and isinstance(ds[0].ast.value, (ast.Attribute, ast.Constant, ast.Name)):
                    return copy.deepcopy(ds[0].ast.value)
            return n

        def visit_Lambda(self, n):
            return n
    return _S().visit(copy.deepcopy(e))


def _enum_members(m: pf.Module) -> Set[str]:
    """`Cls.MEMBER` for every member of an Enum class of the module whose members are bound to pairwise different constants."""
    out: Set[str] = set()
    for c in m.classes():
        if not any((pf.dotted(b) or '').split('.')[-1] in ('Enum', 'IntEnum', 'StrEnum') for b in c.bases):
            continue
        mem = [(st.targets[0].id, st.value.value) for st in c.body if isinstance(st, ast.Assign) and len(st.targets) == 1 and isinstance(st.targets[0], ast.Name)
               and isinstance(st.value, ast.Constant)]
        if len({v for _, v in mem}) == len(mem):
            out |= {f'{c.name}.{n}' for n, _ in mem}
    return out


_IMMUTABLE_ANN = {'bool', 'int', 'str', 'float', 'bytes', 'Optional[bool]', 'Optional[int]', 'Optional[str]', 'Optional[float]', 'Optional[bytes]'}


def _provenance(ctx: Ctx, m: pf.Module, fn: pf.FuncDef, where: str, prov_bad: List[Tuple[str, ast.AST, str]], recv: str, loop: ast.For) -> None:
    """R1: what the bunches carry must be serialised, inside this call, from the specs passed to this call.  A source list that is (on some path) an
    attribute of the object - filled by another method at another time - is a snapshot: it is compared here with how the live spec dicts are built."""
    cons = f'{where}::bunch contents are serialised from the arguments of this call'
    if not prov_bad:
        ctx.ok('R1', cons, 'every source list is a comprehension over a parameter evaluated in this call')
        return
    src, leaf, role = prov_bad[0]
    attr = leaf.attr  # type: ignore[attr-defined]
    cls = m.cls(CLS)

    def is_attr(e: ast.AST, r: str) -> bool:
        return isinstance(e, ast.Attribute) and e.attr == attr and isinstance(e.value, ast.Name) and e.value.id == r

    growers: List[Tuple[pf.FuncDef, ast.AST, ast.AST]] = []
    for f in cls.body:
        if not isinstance(f, (ast.FunctionDef, ast.AsyncFunctionDef)) or not f.args.args:
            continue
        r = f.args.args[0].arg
        for x in pf.walk_shallow(f):
            v = None
            if isinstance(x, ast.Call) and isinstance(x.func, ast.Attribute) and x.func.attr in ('append', 'extend', 'insert') and is_attr(x.func.value, r) and x.args:
                v = x.args[-1]
            elif isinstance(x, ast.AugAssign) and is_attr(x.target, r):
                v = x.value
            elif isinstance(x, ast.Assign) and any(isinstance(t, ast.Subscript) and is_attr(t.value, r) for t in x.targets):
                v = x.value
            elif isinstance(x, ast.Assign) and any(is_attr(t, r) for t in x.targets) and not (isinstance(x.value, ast.List) and not x.value.elts):
                v = x.value
            if v is not None:
                ctx.need(f is not fn, f'{where}: `{recv}.{attr}` is also written inside this call (`{pf.nsrc(x)[:80]}`): a cache maintained during bunching is not analysed')
                growers.append((f, x, v))
    ctx.need(bool(growers), f'{where}: `{pf.nsrc(leaf)}` feeds the bunches but no method of {CLS} fills it (not analysed)')
    alias: Optional[Tuple[pf.FuncDef, ast.AST, str, str]] = None
    for f, x, v in growers:
        mparams = {a.arg: (pf.nsrc(a.annotation) if a.annotation is not None else '') for a in list(f.args.args)[1:] + list(f.args.kwonlyargs)}
        vx = pf.resolve_expr(f, v)
        dicts = [n.id for n in ast.walk(vx) if isinstance(n, ast.Name) and n.id not in mparams]
        for d in dicts:
            for st in pf.walk_shallow(f):
                if isinstance(st, ast.Assign) and len(st.targets) == 1 and isinstance(st.targets[0], ast.Subscript) and isinstance(st.targets[0].value, ast.Name) \
                        and st.targets[0].value.id == d and isinstance(st.value, ast.Name) and st.value.id in mparams and mparams[st.value.id] not in _IMMUTABLE_ANN:
                    alias = alias or (f, st, st.value.id, d)
    ctx.need(alias is not None, f'{where}: `{pf.nsrc(leaf)}` (filled by {sorted({f.name for f, _, _ in growers})}) feeds the bunches instead of a serialisation of `{src}` made in this call, '
             f'but it could not be established that a specification can change between the two moments (no caller-owned object stored by reference was found)')
    f, st, prm, d = alias  # type: ignore[misc]
    ctx.bad('R1', cons, f'on some path the {role} source `{src}` is `{pf.nsrc(leaf)}` - bytes serialised earlier by {CLS}.{growers[0][0].name} (`{pf.nsrc(growers[0][1])[:90]}`), not a '
            f'serialisation of the specs passed to this call. The spec dicts keep caller-owned objects by reference ({CLS}.{f.name}: `{pf.nsrc(st)}`), so the history '
            f'{f.name.lstrip("_")}(..., {prm}=x); x[<new key>] = <value>; submit() hands _create_bunches a list whose spec contains the new entry while the bunch carries the bytes '
            f'taken before the edit: the concatenated bunches are not the original specifications (and n_bytes, hence the split points and the byte limit, are computed from the stale bytes)',
            m.path, loop.lineno)


def _bunching(ctx: Ctx, m0: pf.Module) -> None:
    m, inlined = _prepared(m0)
    if inlined:
        ctx.extra_cov['inlined_helpers'] = sorted({n for n, _ in inlined})
    fn = m.func(f'{CLS}._create_bunches')
    where = f'{F}::{CLS}._create_bunches'
    # n_bytes is the length of the serialised spec
    nb = m.func('SpecBytes.n_bytes')
    r0 = [st for st in _stmts(nb) if isinstance(st, ast.Return)]
    ctx.need(len(r0) == 1, f'{F}::SpecBytes.n_bytes: expected one return')
    nbv = pf.expand_locals(nb, r0[0].value) if r0[0].value is not None else None
    ctx.need(nbv is not None, f'{F}::SpecBytes.n_bytes: returns nothing')
    try:
        nbl = linform.lin(nbv)  # type: ignore[arg-type]
    except AnalysisError as ex:
        raise AnalysisError(f'{F}::SpecBytes.n_bytes: `{pf.nsrc(r0[0])}` not recognised ({ex})') from ex
    nself = nb.args.args[0].arg if nb.args.args else 'self'
    ctx.need(all(s_.startswith(f'len({nself}.') or s_.startswith(f'{nself}.') for s_ in nbl.symbols()) or nbl.is_const(), f'{F}::SpecBytes.n_bytes: `{pf.nsrc(r0[0])}` not recognised')
    ctx.check(nbl == linform.sym(f'len({nself}.spec_bytes)'), 'R3', f'{F}::SpecBytes.n_bytes', f'`{pf.nsrc(r0[0])}` (= `{nbl!r}`) is not the length of the serialised spec', m.path, r0[0].lineno)

    g = pf.cfg(fn)
    params = [a.arg for a in fn.args.args]
    ctx.need(len(params) == 5, f'{where}: parameters changed: {params}')
    p_groups, p_jobs, p_bytes, p_size = params[1:]

    loops = [st for st in fn.body if isinstance(st, ast.For)]
    ctx.need(len(loops) == 1 and isinstance(loops[0].target, ast.Name) and not loops[0].orelse, f'{where}: expected one top-level for loop')
    loop = loops[0]
    spec = loop.target.id
    rets = [st for st in _stmts(fn) if isinstance(st, ast.Return)]
    ctx.need(bool(rets) and all(r.value is not None for r in rets), f'{where}: expected `return <result list>`')
    lists0 = {t.id for st in fn.body if isinstance(st, (ast.Assign, ast.AnnAssign)) and isinstance(st.value, ast.List) and not st.value.elts
              for t in (st.targets if isinstance(st, ast.Assign) else [st.target]) if isinstance(t, ast.Name)}
    rnames: Set[str] = set()
    reordered_rets: List[ast.Return] = []
    for r in rets:
        v = pf.resolve_expr(fn, r.value) if not (isinstance(r.value, ast.Name) and r.value.id in lists0) else r.value  # type: ignore[arg-type]
        if isinstance(v, ast.Name):
            rnames.add(v.id)
            continue
        cand = sorted(pf.names_in(v) & lists0)
        ctx.need(len(cand) == 1 and _reorders(v, cand[0]), f'{where}: expected `return <result list>`, found `{pf.nsrc(r)}`')
        rnames.add(cand[0])
        reordered_rets.append(r)
    ctx.need(len(rnames) == 1, f'{where}: the returns name different lists: {sorted(rnames)}')
    result = rnames.pop()

    # ---- R1 source and order
    it = pf.resolve_expr(fn, loop.iter)
    iter_rel, iter_via = 'same', ''
    for _ in range(4):
        pe = facts.peel_order(it)
        if pe is None or isinstance(it, (ast.List, ast.Tuple)):
            break
        if pe[0] != 'same' and not iter_via:
            iter_via = pf.nsrc(it)[:120]
        iter_rel = facts.worse(iter_rel, pe[0])
        it = pf.resolve_expr(fn, pe[1])
    srcs: Optional[List[ast.AST]] = None
    if isinstance(it, ast.List) and all(isinstance(e, ast.Starred) for e in it.elts):
        srcs = [e.value for e in it.elts]  # type: ignore[attr-defined]
    elif isinstance(it, ast.BinOp) and isinstance(it.op, ast.Add):
        srcs = [it.left, it.right]
    elif isinstance(it, ast.Call) and (pf.dotted(it.func) or '').endswith('chain') and not it.keywords:
        srcs = list(it.args)
    ctx.need(srcs is not None, f'{where}: loop iterable `{pf.nsrc(it)}` not recognised')
    tagged = []
    src_facts: List[Tuple[str, List[Lin]]] = []   # per source list: facts L <= 0 over ELEM that hold for each of its elements
    src_stmts: List[ast.stmt] = []
    H_ = [n for n in g.nodes if n.ast is loop and n.kind == 'loop']
    ctx.need(len(H_) == 1, f'{where}: loop head')
    pset = set(params)
    order_bad: List[str] = []
    if iter_rel != 'same':
        order_bad.append(f'the loop iterates `{iter_via}`, a {iter_rel} view of the serialised specs: the bunches are filled in another order than the specs were given (a stable sort on '
                         f'anything but a constant also moves job specs in front of job-group specs or the other way round); e.g. j1, j2, j3 are packed as j3, j1, j2')
    prov_bad: List[Tuple[str, ast.AST, str]] = []
    seq_names: Set[str] = {p_groups, p_jobs} | {x.id for x in ast.walk(loop.iter) if isinstance(x, ast.Name)}
    roles = ['job-group', 'job']

    def order_story(role: str) -> str:
        return ('three job groups created as g1 = b.create_job_group(); g2 = g1.create_job_group(); g3 = b.create_job_group() have in_update_parent_id 0, 1, 0 and must be '
                'submitted as 1, 2, 3; re-ordered (e.g. parents first: 1, 3, 2) they reach the server out of sequence - the front end derives the next id from the first spec of each request and answers '
                '400 "job group specs were not submitted in order" as soon as the sequence straddles a bunch boundary') if role == 'job-group' else \
               ('jobs j1, j2, j3 come out in another order; the server reads a job spec at offset job_id - start_job_id of its bunch, and a child can precede its parent')

    enum_members = _enum_members(m)

    def decide(test: ast.AST, at_: pf.Node) -> Optional[bool]:
        # `<name> == <Enum>.<MEMBER>` where the only definition of <name> reaching this point is another / the same member of that enum
        if not (isinstance(test, ast.Compare) and len(test.ops) == 1 and isinstance(test.ops[0], (ast.Eq, ast.Is, ast.NotEq, ast.IsNot))):
            return None
        a_, b_ = _resolve_names(g, test.left, at_, pset), _resolve_names(g, test.comparators[0], at_, pset)
        da, db = pf.dotted(a_), pf.dotted(b_)
        if da is None or db is None or da not in enum_members or db not in enum_members or da.split('.')[0] != db.split('.')[0]:
            return None
        eq = da == db
        return eq if isinstance(test.ops[0], (ast.Eq, ast.Is)) else not eq

    for k_, s in enumerate(srcs):  # type: ignore[union-attr]
        role = roles[k_] if k_ < 2 and len(srcs) == 2 else 'spec'  # type: ignore[arg-type]
        alts = facts.origins(g, s, H_[0], pset, decide=decide)
        seq_names |= {x.id for x in ast.walk(s) if isinstance(x, ast.Name)}
        fresh = [o for o in alts if isinstance(o.leaf, ast.ListComp) and o.rel != 'unknown']
        other = [o for o in alts if not any(o is f_ for f_ in fresh)]
        for o in other:
            # a source that is NOT computed from the parameter inside this call: stored state of the object
            attrs = [x for x in ast.walk(o.leaf) if isinstance(x, ast.Attribute) and isinstance(x.value, ast.Name) and x.value.id == params[0]]
            if o.rel != 'unknown' and isinstance(o.leaf, ast.Attribute) and attrs and not (pf.names_in(o.leaf) & (pset - {params[0]})):
                prov_bad.append((pf.nsrc(s), o.leaf, role))
            else:
                raise AnalysisError(f'{where}: `{pf.nsrc(s)}` is not a simple list comprehension (one of its possible values is `{pf.nsrc(o.leaf)[:100]}`'
                                    + (f' via {o.via[-1]}' if o.via else '') + ')')
        ctx.need(len(fresh) == 1, f'{where}: `{pf.nsrc(s)}` is not a simple list comprehension ({len(fresh)} comprehensions can reach the loop)')
        o = fresh[0]
        e = o.leaf
        ctx.need(len(e.generators) == 1 and isinstance(e.generators[0].target, ast.Name), f'{where}: `{pf.nsrc(s)}` is not a simple list comprehension')  # type: ignore[attr-defined]
        if o.rel != 'same':
            order_bad.append(f'the serialised {role} specs pass through {o.via[-1] if o.via else "a re-ordering / filtering expression"} before they are packed ({o.rel}): '
                             + (order_story(role) if o.rel == 'reordered' else 'specs are dropped'))
        gen = e.generators[0]  # type: ignore[attr-defined]
        elt = e.elt  # type: ignore[attr-defined]
        at = o.node if o.node is not None else H_[0]
        # the element's type tag and other names in the comprehension are read where the comprehension is evaluated
        elt_r = _resolve_names(g, elt, at, pset | {gen.target.id})
        payload, tag, efacts, how = _elem_ctor(ctx, m, elt_r, where)
        pay_ok = isinstance(payload, ast.Call) and len(payload.args) == 1 and isinstance(payload.args[0], ast.Name) and payload.args[0].id == gen.target.id
        # evidence of a spec that is not serialised: the payload does not read the loop variable at all; another expression over it is not decided
        ctx.need(pay_ok or gen.target.id not in pf.names_in(payload), f'{where}: the {role} payload `{pf.nsrc(payload)[:80]}` is not `<dumps>({gen.target.id})` (not analysed)')
        ctx.need(pf.nsrc(tag) in enum_members, f'{where}: the type tag `{pf.nsrc(tag)}` of the {role} source is not a member of an Enum of this module (not analysed)')
        ios = facts.origins(g, gen.iter, at, pset)
        seq_names |= {x.id for x in ast.walk(gen.iter) if isinstance(x, ast.Name)}
        ctx.need(len(ios) == 1 and ios[0].rel != 'unknown', f'{where}: the iterable `{pf.nsrc(gen.iter)}` of the {role} comprehension has {len(ios)} possible origins (not analysed)')
        io = ios[0]
        ctx.need(io.at_entry or isinstance(io.leaf, ast.Attribute), f'{where}: the iterable `{pf.nsrc(gen.iter)}` of the {role} comprehension resolves to `{pf.nsrc(io.leaf)[:80]}`, '
                 f'which is neither a parameter nor an attribute (not analysed)')
        base = pf.nsrc(io.leaf)
        if io.rel != 'same':
            order_bad.append(f'the {role} specs are taken from {io.via[-1] if io.via else pf.nsrc(gen.iter)} ({io.rel} with respect to parameter `{base}`) before they are serialised and packed: '
                             + (f'the concatenated bunches are no longer the original specifications in order; {order_story(role)}' if io.rel == 'reordered' else 'specs are dropped'))
        tagged.append((base, pf.nsrc(tag), bool(gen.ifs), pay_ok, e))  # type: ignore[union-attr]
        src_facts.append((pf.nsrc(s), list(efacts)))
        src_stmts += [st for st in fn.body if isinstance(st, (ast.Assign, ast.AnnAssign)) and st.value is e]
        src_stmts += [st for st in fn.body if isinstance(st, ast.Assign) and len(st.targets) == 1 and isinstance(st.targets[0], ast.Name) and st.targets[0].id in pf.names_in(gen.iter) | pf.names_in(s)
                      and facts.peel_order(st.value) is not None]
    # in-place re-ordering of a parameter / source list before the loop
    for st in _stmts(fn):
        for c in pf.calls_in(st) if isinstance(st, (ast.Expr, ast.Assign, ast.AugAssign, ast.AnnAssign)) else []:
            tgt = None
            if isinstance(c.func, ast.Attribute) and isinstance(c.func.value, ast.Name) and c.func.value.id in seq_names and c.func.attr in ('sort', 'reverse'):
                tgt = c.func.value.id
            elif (pf.dotted(c.func) or '').split('.')[-1] == 'shuffle' and c.args and isinstance(c.args[0], ast.Name) and c.args[0].id in seq_names:
                tgt = c.args[0].id
            before_loop = not _inside(loop, st) and any(H_[0].id in g.reachable_from(n_) for n_ in g.node_of(c))
            if tgt is not None and tgt != result and before_loop:
                role = 'job-group' if 'group' in tgt else 'job'
                order_bad.append(f'`{pf.nsrc(c)[:100]}` re-orders `{tgt}` in place before the specs are packed: {order_story(role)}')
            elif isinstance(c.func, ast.Attribute) and isinstance(c.func.value, ast.Name) and c.func.value.id in seq_names - {result} \
                    and c.func.attr in ('pop', 'remove', 'clear', 'insert', 'append', 'extend') and not _inside(loop, st):
                raise AnalysisError(f'{where}: `{pf.nsrc(c)[:100]}` changes a source list in place (not analysed)')
    want = [(p_groups, 'SpecType.JOB_GROUP'), (p_jobs, 'SpecType.JOB')]
    got = [(a, b) for a, b, _, _, _ in tagged]
    ctx.check(got == want, 'R1', f'{where}::iterable = job groups then jobs',
              f'the loop iterates {got} (source, tag); expected {want}: ' + ('job specs come before job-group specs' if got == list(reversed(want)) else
                                                                              'specs are tagged with the wrong SpecType or taken from the wrong parameter'),
              m.path, loop.lineno)
    ctx.check(not any(f for _, _, f, _, _ in tagged) and all(ok for _, _, _, ok, _ in tagged), 'R1', f'{where}::every spec is serialised',
              'a source comprehension filters its input or does not serialise its own loop variable: specs are dropped or duplicated', m.path, loop.lineno)
    ctx.check(not order_bad, 'R1', f'{where}::sources keep the order of the parameters',
              (order_bad[0] if order_bad else '') + (f' (+{len(order_bad) - 1} more)' if len(order_bad) > 1 else ''), m.path, loop.lineno, extra=order_bad[:6])
    _provenance(ctx, m, fn, where, prov_bad, params[0], loop)

    # ---- events
    H = [n for n in g.nodes if n.ast is loop and n.kind == 'loop']
    ctx.need(len(H) == 1, f'{where}: loop head')
    H0 = H[0]
    body_nodes = {n.id for n in g.nodes if n.ast is not None and any(_inside(st, n.ast) or st is n.ast for st in loop.body)}

    bunch_names = {c.func.value.id for st in loop.body for c in pf.calls_in(st)
                   if isinstance(c.func, ast.Attribute) and c.func.attr in ('append', 'insert', 'extend') and isinstance(c.func.value, ast.Name)
                   and any(isinstance(a, ast.Name) and a.id == spec for a in c.args)}
    for st in _stmts(loop):
        if isinstance(st, ast.Assign) and len(st.targets) == 1 and isinstance(st.targets[0], ast.Name) and isinstance(st.value, ast.List) \
                and any(isinstance(e, ast.Name) and e.id == spec for e in st.value.elts):
            bunch_names.add(st.targets[0].id)
    bunch_names.discard(result)
    bunch_names -= set(facts.element_aliases(fn, result))   # a name bound to an element of the result list is an already flushed bunch, not the current one
    ctx.need(len(bunch_names) == 1, f'{where}: cannot identify the current-bunch variable (candidates {sorted(bunch_names)})')
    bunch = bunch_names.pop()

    # ---- R5 who may mutate the result structure (runs before the shape-specific analysis below, which may decline)
    _who_may_mutate(ctx, m, fn, where, result, bunch, loop)
    for r in rets:
        if any(r is x for x in reordered_rets):
            ctx.bad('R5', f'{where}::{pf.nsrc(r)}', f'`{pf.nsrc(r)}` returns a re-ordered copy of `{result}`: the bunches are not submitted in the order the specs were given '
                    f'(job-group bunches are submitted sequentially in list order, and a job must not precede its job group)', m.path, r.lineno)
    if not reordered_rets:
        ctx.ok('R5', f'{where}::every return yields the result list itself', {'returns': len(rets)})
    ctx.need(not any(f_.rule == 'R5' for f_ in ctx.findings), f'{where}: the linear-use and limit analysis below assumes an append-only result structure; it is not run after the '
             f'order violation(s) above')

    def event(n: pf.Node) -> Optional[str]:
        a = n.ast
        if n.kind != 'stmt' or a is None:
            return None
        if isinstance(a, ast.Expr) and isinstance(a.value, ast.Call) and isinstance(a.value.func, ast.Attribute) and isinstance(a.value.func.value, ast.Name):
            c = a.value
            recv, meth = c.func.value.id, c.func.attr  # type: ignore[attr-defined]
            args = [pf.nsrc(x) for x in c.args]
            if recv == bunch and meth == 'append' and args == [spec] and not c.keywords:
                return 'app'
            if recv == bunch and meth == 'extend' and args in ([f'[{spec}]'], [f'({spec},)']) and not c.keywords:
                return 'app'
            if recv == bunch and meth == 'insert' and args == [f'len({bunch})', spec] and not c.keywords:
                return 'app'
            if recv == result and meth == 'append' and args == [bunch] and not c.keywords:
                return 'flush'
            if recv == result and meth == 'extend' and args == [f'[{bunch}]'] and not c.keywords:
                return 'flush'
            if recv in (bunch, result):
                return f'other:{pf.nsrc(a)}'
            if spec in args:
                return f'other:{pf.nsrc(a)}'
            return None
        if isinstance(a, (ast.Assign, ast.AnnAssign, ast.AugAssign)):
            tg = a.targets if isinstance(a, ast.Assign) else [a.target]
            names = {x.id for t in tg for x in ast.walk(t) if isinstance(x, ast.Name) and isinstance(x.ctx, ast.Store)}
            if bunch in names:
                v = a.value
                if isinstance(a, ast.AugAssign) and isinstance(a.target, ast.Name) and isinstance(a.op, ast.Add) and isinstance(v, (ast.List, ast.Tuple)) \
                        and [pf.nsrc(e) for e in v.elts] == [spec]:
                    return 'app'      # bunch += [spec]
                if isinstance(a, ast.AugAssign) or len(tg) != 1 or not isinstance(tg[0], ast.Name):
                    return f'other:{pf.nsrc(a)}'
                if pf.nsrc(v) in (f'{bunch} + [{spec}]', f'[*{bunch}, {spec}]'):
                    return 'app'      # bunch = bunch + [spec]
                if isinstance(v, ast.List) and [pf.nsrc(e) for e in v.elts] == [spec]:
                    return 'new1'
                if isinstance(v, ast.List) and not v.elts:
                    return 'new0'
                return f'other:{pf.nsrc(a)}'
            if result in names:
                if isinstance(a, ast.AugAssign) and isinstance(a.target, ast.Name) and isinstance(a.op, ast.Add) and isinstance(a.value, ast.List) \
                        and [pf.nsrc(e) for e in a.value.elts] == [bunch]:
                    return 'flush'
                if isinstance(a, (ast.Assign, ast.AnnAssign)) and len(tg) == 1 and isinstance(tg[0], ast.Name) and a.value is not None \
                        and pf.nsrc(a.value) in (f'{result} + [{bunch}]', f'[*{result}, {bunch}]'):
                    return 'flush'
                return f'other:{pf.nsrc(a)}'
        return None

    ctx.need(not any(isinstance(x, (ast.For, ast.While, ast.AsyncFor, ast.Try, ast.With, ast.Break, ast.Return, ast.FunctionDef, ast.Lambda)) for st in loop.body for x in ast.walk(st)),
             f'{where}: loop body contains a nested loop/try/break/return (not the recognised straight-line shape)')
    # ---- enumerate the paths of one iteration
    paths: List[List[Tuple[pf.Node, str]]] = []

    def dfs(n: pf.Node, acc: List[Tuple[pf.Node, str]]) -> None:
        ctx.need(len(paths) < 512, f'{where}: too many paths through the loop body')
        for nxt, lab in n.succ:
            if n is H0 and lab != 'T':
                continue
            if nxt is H0:
                paths.append(acc + [(n, lab)])
            elif nxt is g.raise_exit:
                continue  # a failed assert / exception: nothing is returned
            elif nxt.id in body_nodes:
                dfs(nxt, acc + [(n, lab)])
            else:
                raise AnalysisError(f'{where}: the loop body is left towards `{nxt.text()}`')

    dfs(H0, [])
    ctx.need(paths, f'{where}: no path through the loop body')
    ctx.unit('loop_paths', len(paths))

    # size variable and environment of single definitions in the body
    env: Dict[str, ast.AST] = {}
    for st in loop.body:
        if isinstance(st, ast.Assign) and len(st.targets) == 1 and isinstance(st.targets[0], ast.Name) and st.targets[0].id not in (bunch, result):
            nm = st.targets[0].id
            if sum(1 for x in _stmts(fn) if isinstance(x, (ast.Assign, ast.AugAssign)) and any(isinstance(y, ast.Name) and y.id == nm and isinstance(y.ctx, ast.Store) for y in ast.walk(x))) == 1:
                env[nm] = st.value
    size = linform.sym(f'{spec}.n_bytes')
    LIM_B, LIM_N = linform.sym(p_bytes), linform.sym(p_size)
    LEN = linform.sym(f'len({bunch})')
    bounds = {p_bytes: p_bytes, p_size: p_size}

    # ---- statements outside the loop: locals that are linear in the parameters, per-element facts, and what is not recognised
    pre_env: Dict[str, ast.AST] = {}
    recognised: List[ast.stmt] = list(src_stmts)
    all_facts: List[Tuple[Optional[str], Lin]] = []   # (source list text or None for every element, fact over ELEM)
    src_names = [t for t, _ in src_facts]
    E = linform.sym(ELEM)
    for st in fn.body:
        if st is loop or not isinstance(st, (ast.Assign, ast.AnnAssign, ast.Assert)):
            continue
        if isinstance(st, ast.Assert):
            t = st.test
            if isinstance(t, ast.Call) and isinstance(t.func, ast.Name) and t.func.id == 'all' and len(t.args) == 1 and isinstance(t.args[0], (ast.GeneratorExp, ast.ListComp)) \
                    and len(t.args[0].generators) == 1 and not t.args[0].generators[0].ifs and isinstance(t.args[0].generators[0].target, ast.Name) \
                    and st.lineno < loop.lineno:
                ge = t.args[0]
                v = ge.generators[0].target.id
                it_txt = pf.nsrc(ge.generators[0].iter)
                cover: Optional[str]
                if it_txt in src_names:
                    cover = it_txt
                elif it_txt == pf.nsrc(loop.iter) or it_txt == pf.nsrc(it):
                    cover = None
                else:
                    continue
                venv = {f'{v}.n_bytes': E, f'len({v}.spec_bytes)': E}
                got_any = False
                for atom, pol in _conjuncts(ge.elt, True):
                    L = _le0(atom, pol, {**pre_env, **venv})  # type: ignore[arg-type]
                    if L is not None and ELEM in L.coef:
                        all_facts.append((cover, L))
                        got_any = True
                if got_any:
                    recognised.append(st)
                continue
            if all(_le0(atom, pol, pre_env) is not None for atom, pol in _conjuncts(t, True)) and _conjuncts(t, True):
                recognised.append(st)
            continue
        tg = st.targets if isinstance(st, ast.Assign) else [st.target]
        if len(tg) == 1 and isinstance(tg[0], ast.Name) and st.value is not None and tg[0].id not in (bunch, result) and st.lineno < loop.lineno \
                and len(pf.assignments(fn).get(tg[0].id, [])) == 1:
            try:
                linform.lin(st.value, pre_env)
            except AnalysisError:
                continue
            pre_env[tg[0].id] = st.value
            recognised.append(st)
    env = {**pre_env, **env}
    elem_facts: List[Lin] = []
    per_src: List[List[Lin]] = []
    for txt, fs in src_facts:
        per_src.append(list(fs) + [L for c, L in all_facts if c is None or c == txt])
    if per_src:
        for L in per_src[0]:
            if all(any(L == L2 for L2 in other) for other in per_src[1:]):
                elem_facts.append(L - Lin({ELEM: L.coef[ELEM]}) + size.scale(L.coef[ELEM]))
    unrecognised = [st for st in fn.body if st is not loop and not any(st is r_ for r_ in recognised) and not isinstance(st, ast.Return)
                    and (p_bytes in pf.names_in(st) or any(isinstance(x, ast.Attribute) and x.attr in ('n_bytes', 'spec_bytes') for x in ast.walk(st)))]

    lin_bad: List[str] = []
    lim_bad: List[str] = []
    acct_bad: List[str] = []
    fresh_bad: List[str] = []
    not_seen: List[str] = []      # reasons why a missing guard is NOT evidence: something on the path is not understood
    counter: Optional[str] = None
    n_counter: Optional[str] = None     # a local that counts the specs of the current bunch, used in place of len(bunch)
    n_app = n_new = 0

    # Boolean locals of the loop body (`too_many_bytes = current + n >= max_bytes` ... `if too_many_bytes or ...:`): a test that names one is read as its
    # definition, provided the definition lies earlier on the path and nothing in between stores a name it reads or changes the current bunch
    n_stores: Dict[str, int] = {}
    for x in _stmts(fn):
        if isinstance(x, (ast.Assign, ast.AugAssign, ast.AnnAssign, ast.For)):
            for y in ast.walk(x.target if isinstance(x, (ast.AugAssign, ast.AnnAssign, ast.For)) else ast.Tuple(elts=list(x.targets), ctx=ast.Store())):
                if isinstance(y, ast.Name) and isinstance(y.ctx, ast.Store):
                    n_stores[y.id] = n_stores.get(y.id, 0) + 1
    flags: Dict[str, ast.Assign] = {}
    for st in _stmts(loop):
        if isinstance(st, ast.Assign) and len(st.targets) == 1 and isinstance(st.targets[0], ast.Name) and n_stores.get(st.targets[0].id) == 1 \
                and (isinstance(st.value, (ast.Compare, ast.BoolOp)) or (isinstance(st.value, ast.UnaryOp) and isinstance(st.value.op, ast.Not))):
            flags[st.targets[0].id] = st

    def flag_value(name: str, path: List[Tuple[pf.Node, str]], pos: int) -> Optional[ast.AST]:
        st = flags.get(name)
        if st is None:
            return None
        at = [k for k, (n_, _) in enumerate(path[:pos]) if n_.ast is st]
        if len(at) != 1:
            return None
        reads = pf.names_in(st.value)
        for n_, _ in path[at[0] + 1:pos]:
            if event(n_) in ('app', 'new0', 'new1') or any(facts.stores_name(n_, r_) for r_ in reads):
                return None
        return st.value

    def leaves(test: ast.AST, path: List[Tuple[pf.Node, str]], pos: int, depth: int = 3) -> List[ast.AST]:
        """The atoms of the Boolean structure of a test (Boolean locals expanded)."""
        if isinstance(test, ast.UnaryOp) and isinstance(test.op, ast.Not):
            return leaves(test.operand, path, pos, depth)
        if isinstance(test, ast.BoolOp):
            return [a_ for v in test.values for a_ in leaves(v, path, pos, depth)]
        if isinstance(test, ast.Name) and depth > 0:
            fv = flag_value(test.id, path, pos)
            if fv is not None:
                return leaves(fv, path, pos, depth - 1)
        return [test]

    def conj(test: ast.AST, truth: bool, path: List[Tuple[pf.Node, str]], pos: int, depth: int = 3) -> List[Tuple[ast.AST, bool]]:
        """_conjuncts with Boolean locals expanded."""
        if isinstance(test, ast.UnaryOp) and isinstance(test.op, ast.Not):
            return conj(test.operand, not truth, path, pos, depth)
        if isinstance(test, ast.BoolOp):
            if (isinstance(test.op, ast.And) and truth) or (isinstance(test.op, ast.Or) and not truth):
                return [a_ for v in test.values for a_ in conj(v, truth, path, pos, depth)]
            return []
        if isinstance(test, ast.Name) and depth > 0:
            fv = flag_value(test.id, path, pos)
            if fv is not None:
                return conj(fv, truth, path, pos, depth - 1)
        return [(test, truth)]

    def atom_le0(atom: ast.AST, pol: bool) -> Optional[Lin]:
        # truthiness of the current bunch is a fact about its length
        if isinstance(atom, ast.Name) and atom.id == bunch:
            L0 = linform.const(1) - LEN       # bunch  <=>  len(bunch) >= 1
            return L0 if pol else linform.const(1) - L0
        if isinstance(atom, ast.Compare) and len(atom.ops) == 1 and isinstance(atom.ops[0], (ast.Eq, ast.NotEq)) and pf.nsrc(atom.left) == bunch \
                and isinstance(atom.comparators[0], ast.List) and not atom.comparators[0].elts:
            L0 = LEN                           # bunch == []  <=>  len(bunch) <= 0
            if isinstance(atom.ops[0], ast.NotEq):
                pol = not pol
            return L0 if pol else linform.const(1) - L0
        return _le0(atom, pol, env)

    for path in paths:
        evs = [(event(n), n) for n, _ in path if event(n) is not None]
        desc = ' -> '.join(f'{n.text()}[{lab}]' if n.kind == 'test' else n.text() for n, lab in path if n.kind in ('test',) or event(n) is not None) or '(no effect)'
        other = [e for e, _ in evs if e.startswith('other:')]  # type: ignore[union-attr]
        ctx.need(not other, f'{where}: unrecognised use of `{bunch}`/`{result}`/`{spec}`: {other}')
        kinds = [e for e, _ in evs]
        consumed = kinds.count('app') + kinds.count('new1')
        if consumed != 1:
            lin_bad.append(f'on the path {desc} the spec is consumed {consumed} times (it is {"dropped" if consumed == 0 else "duplicated"})')
        for i, k in enumerate(kinds):
            if k == 'flush' and (i + 1 >= len(kinds) or kinds[i + 1] not in ('new0', 'new1')):
                lin_bad.append(f'on the path {desc} `{result}.append({bunch})` is not followed by rebinding `{bunch}`: the flushed bunch is modified or flushed again')
            if k in ('new0', 'new1') and (i == 0 or kinds[i - 1] != 'flush'):
                lin_bad.append(f'on the path {desc} `{bunch}` is rebound without first being appended to `{result}`: the specs collected so far are lost')
        # facts along the path
        pfacts: List[Lin] = []
        pos_of = {}
        opaque: List[Tuple[int, str]] = []     # (position, text) of test atoms that are not linear comparisons: what they establish is not known
        for L0 in elem_facts:
            for L in _weaken(L0, bounds):
                pfacts.append(L)
                pos_of[id(L)] = -1
        for i, (n, lab) in enumerate(path):
            atoms: List[Tuple[ast.AST, bool]] = []
            tst: Optional[ast.AST] = None
            if n.kind == 'test' and lab in ('T', 'F'):
                tst = n.ast
                atoms = conj(n.ast, lab == 'T', path, i)  # type: ignore[arg-type]
            elif n.kind == 'stmt' and isinstance(n.ast, ast.Assert):
                tst = n.ast.test
                atoms = conj(n.ast.test, True, path, i)
            if tst is not None:
                for lf in leaves(tst, path, i):
                    if atom_le0(lf, True) is None:
                        opaque.append((i, pf.nsrc(lf)[:80]))
            for atom, pol in atoms:
                L0 = atom_le0(atom, pol)
                if L0 is not None:
                    for L in _weaken(L0, bounds):
                        pfacts.append(L)
                        pos_of[id(L)] = i
        # a call statement on the path that receives the spec / the limits may be a check that is not seen through
        for i, (n, _) in enumerate(path):
            if n.kind == 'stmt' and isinstance(n.ast, ast.Expr) and isinstance(n.ast.value, ast.Call) and event(n) is None:
                if pf.names_in(n.ast.value) & {spec, p_bytes, p_size, bunch} | {x for x in pf.names_in(n.ast.value) if x in env and spec in pf.names_in(env[x])}:
                    opaque.append((i, pf.nsrc(n.ast)[:80]))

        def unseen(upto: int, what: str) -> bool:
            """Is something in front of position `upto` not understood?  Then a guard that was not found is no evidence of a violation."""
            op = [t for i_, t in opaque if i_ < upto]
            if op:
                not_seen.append(f'{what} on the path {desc} was not found, but `{op[0]}` is not a linear comparison: what it establishes is not decided')
            return bool(op)

        if 'app' in kinds:
            n_app += 1
            app_i = [i for i, (n, _) in enumerate(path) if event(n) == 'app'][0]
            before = [L for L in pfacts if pos_of[id(L)] < app_i]
            # count limit
            if not any(_nonneg_const(L - (LEN + linform.const(1) - LIM_N)) for L in before):
                ncands = []
                for L in before:
                    d = L - (linform.const(1) - LIM_N)      # <counter> + 1 <= max_size
                    syms = d.symbols()
                    if len(syms) == 1 and d.coef[syms[0]] == 1 and d.const >= 0 and syms[0].isidentifier() and syms[0] not in (p_bytes, p_size):
                        ncands.append(syms[0])
                if ncands:
                    ctx.need(n_counter in (None, ncands[0]), f'{where}: two different spec counters')
                    n_counter = ncands[0]
                elif not unseen(app_i, f'a guard len({bunch}) + 1 <= {p_size}'):
                    lim_bad.append(f'`{bunch}.append({spec})` on the path {desc} is not guarded by len({bunch}) + 1 <= {p_size}: with {p_size} = k a bunch receives k + 1 specs')
            # byte limit: find the counter
            cands = []
            for L in before:
                d = L - (size - LIM_B)
                syms = d.symbols()
                if len(syms) == 1 and d.coef[syms[0]] == 1 and d.const >= 0 and syms[0].isidentifier():
                    cands.append(syms[0])
            if not cands:
                if not unseen(app_i, f'a guard <bytes so far> + {spec}.n_bytes <= {p_bytes}'):
                    lim_bad.append(f'`{bunch}.append({spec})` on the path {desc} is not guarded by <bytes so far> + {spec}.n_bytes <= {p_bytes}: a bunch can exceed the byte limit')
            else:
                ctx.need(counter in (None, cands[0]), f'{where}: two different byte counters')
                counter = cands[0]
        if 'new1' in kinds:
            n_new += 1
            new_i = [i for i, (n, _) in enumerate(path) if event(n) == 'new1'][0]
            before = [L for L in pfacts if pos_of[id(L)] < new_i]
            if not any(_nonneg_const(L - (size - LIM_B)) for L in before) and not unseen(new_i, f'a check {spec}.n_bytes <= {p_bytes}'):
                sz = f'{spec}.n_bytes'
                others = [size - L for L in before if L.coef.get(sz) == 1 and not any(s_ == f'len({bunch})' for s_ in L.coef)
                          and (counter is None or counter not in L.coef) and p_bytes not in L.coef]
                extra = ''
                if others:
                    extra = (f'; the only per-spec bound established is {sz} <= {others[0]!r}, which is not this call\'s parameter `{p_bytes}` (submit() forwards a caller-chosen limit): '
                             f'with {p_bytes}=65536 a spec of 200000 bytes passes that check and is returned as a bunch of 200000 bytes')
                fresh_bad.append(f'the fresh bunch `[{spec}]` on the path {desc} is not preceded by a check {spec}.n_bytes <= {p_bytes}: a spec larger than the limit becomes a bunch of its own' + extra)
    ctx.need(not not_seen or lin_bad, f'{where}: ' + (not_seen[0] if not_seen else ''))

    # accounting along each path (needs the counters found above): the tracked value is an upper bound of what it stands for
    def account(cname: str, unit: Lin, what: str, thing: str) -> List[str]:
        bad_: List[str] = []
        B0 = linform.sym(cname)
        for path in paths:
            kinds = [event(n) for n, _ in path if event(n) is not None]
            cur = B0
            for n, _ in path:
                a = n.ast
                if facts.stores_name(n, cname) and not (n.kind == 'stmt' and ((isinstance(a, ast.AugAssign) and isinstance(a.target, ast.Name))
                                                                               or (isinstance(a, ast.Assign) and all(isinstance(t, ast.Name) for t in a.targets))
                                                                               or (isinstance(a, ast.AnnAssign) and isinstance(a.target, ast.Name) and a.value is not None))):
                    raise AnalysisError(f'{where}: `{n.text()[:80]}` writes the {what} `{cname}` in a way that is not followed')
                if n.kind == 'stmt' and isinstance(a, ast.AnnAssign) and isinstance(a.target, ast.Name) and a.target.id == cname and a.value is not None:
                    cur = linform.lin(a.value, {**env, cname: cur})
                if n.kind == 'stmt' and isinstance(a, ast.AugAssign) and isinstance(a.target, ast.Name) and a.target.id == cname:
                    ctx.need(isinstance(a.op, (ast.Add, ast.Sub)), f'{where}: `{pf.nsrc(a)}` not recognised')
                    d = linform.lin(a.value, env)
                    cur = cur + d if isinstance(a.op, ast.Add) else cur - d
                elif n.kind == 'stmt' and isinstance(a, ast.Assign) and any(isinstance(t, ast.Name) and t.id == cname for t in a.targets):
                    cur = linform.lin(a.value, {**env, cname: cur})
            desc = ' -> '.join(n.text() for n, _ in path if event(n) is not None)
            if 'new1' in kinds or 'new0' in kinds:
                d = cur - (unit if ('new1' in kinds or 'app' in kinds) else linform.const(0))
                ok = d.const >= 0 and all(s == cname and c >= 0 for s, c in d.coef.items())
                if not ok:
                    bad_.append(f'after starting a new bunch ({desc}) the tracked {what} is `{cur!r}`, which is not >= the {thing} of the new bunch `{unit!r}`')
            elif 'app' in kinds:
                if not _nonneg_const(cur - (B0 + unit)):
                    bad_.append(f'after `{bunch}.append({spec})` ({desc}) the tracked {what} is `{cur!r}`, not `{cname} + {unit!r}`: the guard under-estimates the bunch')
        # the initial value: the definitions of the counter outside the loop body; a shape that is not a plain `counter = <linear expression>` in front of the loop is declined
        outside = [n for n in g.nodes if n.id not in body_nodes and n is not H0 and facts.stores_name(n, cname)]
        ctx.need(len(outside) == 1 and outside[0].kind == 'stmt' and isinstance(outside[0].ast, (ast.Assign, ast.AnnAssign)) and outside[0].ast.value is not None
                 and all(isinstance(t, ast.Name) for t in (outside[0].ast.targets if isinstance(outside[0].ast, ast.Assign) else [outside[0].ast.target]))
                 and g.dominated_by(H0, lambda n: n is outside[0]),
                 f'{where}: the initial value of the {what} `{cname}` is not a single plain assignment in front of the loop')
        try:
            c0 = linform.lin(outside[0].ast.value, pre_env)  # type: ignore[union-attr]
        except AnalysisError as ex:
            raise AnalysisError(f'{where}: initial value `{pf.nsrc(outside[0].ast)}` of the {what} not recognised') from ex
        ctx.need(c0.is_const(), f'{where}: initial value `{pf.nsrc(outside[0].ast)}` of the {what} is not a constant')
        if c0.const < 0:
            bad_.append(f'`{cname}` starts at {c0.const} (`{pf.nsrc(outside[0].ast)}`), below the {thing} of the empty bunch: the guard under-estimates every bunch')
        return bad_

    if counter is not None:
        acct_bad += account(counter, size, 'byte count', 'bytes')
    if n_counter is not None:
        # a count variable used instead of len(bunch): the guard is as good as len(bunch) + 1 <= max_size when the variable never under-counts the bunch
        cb_ = account(n_counter, linform.const(1), 'spec count', 'number of specs')
        if cb_:
            lim_bad.append(f'the count guard compares `{n_counter}` (not len({bunch})) with {p_size}, and {cb_[0]}: a bunch can receive more than {p_size} specs')

    def report(rule: str, name: str, bad: List[str], detail=None) -> None:
        cons = f'{where}::{name}'
        if bad:
            ctx.bad(rule, cons, bad[0] + (f' (+{len(bad) - 1} more)' if len(bad) > 1 else ''), m.path, loop.lineno, extra=bad[:8])
        else:
            ctx.ok(rule, cons, detail)

    ctx.need(not ((lim_bad or fresh_bad) and unrecognised), f'{where}: a limit check would be reported missing, but statements outside the loop mention the byte limit / spec sizes in a '
             f'form that is not analysed: {[pf.nsrc(st)[:80] for st in unrecognised]}')
    report('R2', 'each spec consumed exactly once, bunch rebound only after flush', lin_bad, {'paths': len(paths), 'appending': n_app, 'fresh': n_new})
    ctx.need(n_app >= 1 and n_new >= 1 or lin_bad, f'{where}: expected an appending path and a fresh-bunch path')
    report('R3', 'append guarded by both limits', lim_bad, {'counter': counter})
    report('R3', 'byte count is an upper bound of the bunch bytes', acct_bad if counter is not None else ['no byte counter identified'] if not lim_bad else [])
    report('R3', 'fresh bunch respects the byte limit', fresh_bad)
    # ---- before and after the loop
    inits_bad: List[str] = []
    for nm in (bunch, result):
        outs_ = [n for n in g.nodes if n.id not in body_nodes and n is not H0 and facts.stores_name(n, nm) and H0.id in g.reachable_from(n)]
        ctx.need(len(outs_) == 1 and outs_[0].kind == 'stmt' and isinstance(outs_[0].ast, (ast.Assign, ast.AnnAssign)) and outs_[0].ast.value is not None
                 and all(isinstance(t, ast.Name) for t in (outs_[0].ast.targets if isinstance(outs_[0].ast, ast.Assign) else [outs_[0].ast.target]))
                 and g.dominated_by(H0, lambda n, d=outs_[0]: n is d),
                 f'{where}: `{nm}` is not initialised by a single plain assignment in front of the loop')
        v0 = outs_[0].ast.value  # type: ignore[union-attr]
        if (isinstance(v0, ast.List) and not v0.elts) or pf.nsrc(v0) == 'list()':
            continue
        ctx.need(isinstance(v0, (ast.List, ast.ListComp)) or (isinstance(v0, ast.Name) and v0.id in params),
                 f'{where}: initial value `{pf.nsrc(outs_[0].ast)}` not recognised')
        inits_bad.append(f'`{pf.nsrc(outs_[0].ast)}`')
    ctx.check(not inits_bad, 'R2', f'{where}::starts empty', f'{", ".join(inits_bad)}: `{bunch}` / `{result}` do not start as the empty list: specs that were never passed in are '
              f'submitted / a bunch is shared between calls', m.path, fn.lineno)

    def nonempty_label(t: ast.AST) -> Optional[str]:
        """The label of the edge taken when the bunch is NOT empty, for a test that is exactly about the emptiness of the bunch."""
        flip = False
        while isinstance(t, ast.UnaryOp) and isinstance(t.op, ast.Not):
            t, flip = t.operand, not flip
        lab: Optional[str] = None
        if pf.nsrc(t) in (bunch, f'len({bunch})', f'bool({bunch})', f'{bunch} != []', f'[] != {bunch}', f'len({bunch}) != 0', f'0 != len({bunch})'):
            lab = 'T'
        elif pf.nsrc(t) in (f'{bunch} == []', f'[] == {bunch}', f'len({bunch}) == 0', f'0 == len({bunch})'):
            lab = 'F'
        else:
            L = _le0(t, True, {})
            if L is not None and L == linform.const(1) - LEN:
                lab = 'T'
            elif L is not None and L == LEN:
                lab = 'F'
        if lab is None:
            return None
        return lab if not flip else ('F' if lab == 'T' else 'T')

    after_tests = {}
    for n in g.nodes:
        if n.kind == 'test' and n.id not in body_nodes and n.ast is not None:
            t_ = n.ast if bunch in pf.names_in(n.ast) else pf.expand_locals(fn, n.ast)     # `leftover = len(bunch) > 0` ... `if leftover:`
            if bunch not in pf.names_in(t_):
                continue
            lab = nonempty_label(t_)
            ctx.need(lab is not None, f'{where}: test `{pf.nsrc(n.ast)}` after the loop not recognised')
            after_tests[n.id] = lab

    def is_flush(n: pf.Node) -> bool:
        return event(n) == 'flush'

    def edge_ok(a: pf.Node, b: pf.Node, lab: str) -> bool:
        if a is H0:
            return lab == 'F'
        if a.id in after_tests:
            return lab == after_tests[a.id]
        return True

    p = g.path_avoiding(H0, lambda n: n is g.exit, is_flush, edge_ok=edge_ok)
    if p is not None:
        free = [n for n in p[1:] if n.kind in ('test', 'loop') and n.id not in after_tests]
        ctx.need(not free, f'{where}: after the loop the residual bunch is appended under `{free[0].text() if free else ""}`, which is not a test of the emptiness of `{bunch}` (not analysed)')
    ctx.check(p is None, 'R2', f'{where}::residual bunch appended', f'after the loop a non-empty `{bunch}` can reach `return {result}` without `{result}.append({bunch})`: '
              f'the last bunch (all specs when everything fits in one bunch) is never submitted', m.path, rets[0].lineno)
    # nothing after the loop may touch the result otherwise
    tail = [event(n) for n in g.nodes if n.id not in body_nodes and n.ast is not None and g.dominated_by(n, lambda x: x is H0) and event(n) is not None]
    ctx.need(all(e == 'flush' for e in tail) and len(tail) <= 1, f'{where}: unrecognised statements after the loop: {tail}')


def _bound_args(call: ast.Call, callee: pf.FuncDef, drop_first: bool = True) -> Optional[Dict[str, ast.AST]]:
    """parameter name -> argument expression of a call of `callee` (positional and keyword arguments; defaults are not filled in)."""
    a = callee.args
    if any(isinstance(x, ast.Starred) for x in call.args) or any(k.arg is None for k in call.keywords) or a.vararg or a.posonlyargs:
        return None
    pos = [x.arg for x in a.args][1 if drop_first else 0:]
    names = pos + [x.arg for x in a.kwonlyargs]
    if len(call.args) > len(pos):
        return None
    out: Dict[str, ast.AST] = dict(zip(pos, call.args))
    for k in call.keywords:
        if k.arg in out or (k.arg not in names and not a.kwarg):
            return None
        out[k.arg] = k.value  # type: ignore[index]
    return out


SUBMIT_KEEP = ('_create_bunches', '_submit_job_group_bunches', '_submit_job_bunches', '_create_fast', '_update_fast', '_open_batch', '_create_update', '_commit_update',
               '_submit', '_submit_jobs', '_submit_job_groups', '_submit_spec_bunch')


def _inlined(m: pf.Module, qual: str) -> Tuple[pf.Module, pf.FuncDef]:
    """The function with the statement-level helpers a refactoring may have extracted inlined (the calls the rules look for by name stay calls)."""
    from engines import c17facts
    m2, fn, _il = c17facts.inline_site(m, qual, exclude=SUBMIT_KEEP)
    return m2, fn


def _submit_call(ctx: Ctx, m0: pf.Module) -> None:
    m, fn = _inlined(m0, f'{CLS}._submit')
    where = f'{F}::{CLS}._submit'
    g = pf.cfg(fn)
    calls = [c for c in pf.calls_in(fn) if pf.dotted(c.func) == 'self._create_bunches']
    ctx.need(len(calls) == 1, f'{where}: expected one call of self._create_bunches')
    cb = m.func(f'{CLS}._create_bunches')
    callee = [a.arg for a in cb.args.args][1:]
    ctx.need(len(callee) == 4, f'{where}: _create_bunches parameters changed: {callee}')
    bound = _bound_args(calls[0], cb)
    ctx.need(bound is not None and set(bound) == set(callee), f'{where}: arguments of `{pf.nsrc(calls[0])[:100]}` do not bind to {callee}')
    params = [a.arg for a in fn.args.args]
    # the limit parameters of _submit by POSITION (what `submit` passes), not by name
    ctx.need(len(params) >= 3, f'{where}: parameters changed')
    lim_b, lim_n = params[1], params[2]
    asg = pf.assignments(fn)
    ctx.need(all(len(asg.get(x, [])) == 1 for x in (lim_b, lim_n)), f'{where}: a limit parameter is re-assigned (not analysed)')
    roles = {'self._job_group_specs': 'the job-group specs', 'self._job_specs': 'the job specs', lim_b: 'the byte limit', lim_n: 'the count limit'}
    want = ['self._job_group_specs', 'self._job_specs', lim_b, lim_n]
    got = []
    for p_ in callee:
        e = facts.expand_locals_except(fn, bound[p_], stop={lim_b, lim_n}, depth=3)  # type: ignore[index]
        got.append(pf.nsrc(e))
    ctx.need(all(x in roles for x in got), f'{where}: `{pf.nsrc(calls[0])[:120]}` passes {got}; expected a permutation of {want} (not analysed)')
    ctx.check(got == want, 'R1', f'{where}::arguments of _create_bunches', f'_create_bunches{tuple(callee)} is called with {got}: '
              + ('job specs are tagged as job groups and vice versa' if got[:2] == want[1::-1] else 'the byte limit and the count limit are interchanged' if got[2:] == want[:1:-1] else 'wrong arguments'),
              m.path, calls[0].lineno)
    # the public entry point hands ITS limit arguments on (the dual of checking against the class defaults inside _create_bunches)
    m_s, sub = _inlined(m0, f'{CLS}.submit')
    swhere = f'{F}::{CLS}.submit'
    sparams = [a.arg for a in sub.args.args + sub.args.kwonlyargs]
    ctx.need(len(sub.args.args) >= 3, f'{swhere}: parameters changed')
    s_b, s_n = sub.args.args[1].arg, sub.args.args[2].arg
    ctx.need('bytesize' in s_b and 'size' in s_n, f'{swhere}: limit parameters {s_b, s_n} not recognised')
    ctx.need(not any(n_ in pf.assignments(sub) and len(pf.assignments(sub)[n_]) != 1 for n_ in (s_b, s_n)), f'{swhere}: a limit parameter is re-assigned (not analysed)')
    inner = [c for c in pf.calls_in(sub) if pf.dotted(c.func) == 'self._submit']
    ctx.need(len(inner) >= 1, f'{swhere}: no call of self._submit')
    fn_orig = m0.func(f'{CLS}._submit')
    for i, c in enumerate(inner, start=1):
        b = _bound_args(c, fn_orig)
        ctx.need(b is not None and lim_b in b and lim_n in b, f'{swhere}: arguments of `{pf.nsrc(c)[:100]}` do not bind')
        got2 = [pf.nsrc(facts.expand_locals_except(sub, b[x], stop={s_b, s_n}, depth=3)) for x in (lim_b, lim_n)]  # type: ignore[index]
        if got2 != [s_b, s_n]:
            # evidence: a limit of _submit is fed from the OTHER parameter, from a constant or from a class attribute - anything else is not decided
            def foreign(t: str) -> bool:
                try:
                    e = ast.parse(t, mode='eval').body
                except SyntaxError:
                    return False
                return t in (s_b, s_n) or isinstance(e, ast.Constant) or (pf.dotted(e) is not None and '.' in t and not (pf.names_in(e) & set(sparams[1:])))
            ctx.need(all(t == w or foreign(t) for t, w in zip(got2, (s_b, s_n))), f'{swhere}: `{pf.nsrc(c)[:100]}` passes {got2} as limits (not analysed)')
        ctx.check(got2 == [s_b, s_n], 'R1', f'{swhere}::limits forwarded to _submit #{i}',
                  f'`{pf.nsrc(c)}` passes {got2} as (max_bunch_bytesize, max_bunch_size): the limits the caller of submit() asked for are not the ones the bunches are built with '
                  f'(e.g. submit(max_bunch_bytesize=65536) still produces bunches of up to the other value)', m_s.path, c.lineno)
    bvar = [t.id for st in _stmts(fn) if isinstance(st, (ast.Assign, ast.AnnAssign)) and st.value is calls[0]
            for t in (st.targets if isinstance(st, ast.Assign) else [st.target]) if isinstance(t, ast.Name)]
    ctx.need(len(bvar) == 1 and len(pf.assignments(fn).get(bvar[0], [])) == 1, f'{where}: result of _create_bunches is not bound once')
    bunches = bvar[0]

    def is_bunches(e: Optional[ast.AST]) -> bool:
        return e is not None and pf.nsrc(facts.expand_locals_except(fn, e, stop={bunches}, depth=3)) == bunches

    def call_nodes(name: str) -> List[Tuple[pf.Node, ast.Call, Dict[str, ast.AST]]]:
        out = []
        for c in pf.calls_in(fn):
            if pf.dotted(c.func) == f'self.{name}':
                ns = g.node_of(c)
                ctx.need(len(ns) == 1, f'{where}: node of {name}')
                b = _bound_args(c, m.func(f'{CLS}.{name}'))
                ctx.need(b is not None, f'{where}: arguments of `{pf.nsrc(c)[:100]}` do not bind')
                out.append((ns[0], c, b))
        return out

    def param(name: str, idx: int) -> str:
        ps = [a.arg for a in m.func(f'{CLS}.{name}').args.args]
        ctx.need(len(ps) > idx, f'{F}::{CLS}.{name}: parameters changed')
        return ps[idx]

    grp, job = call_nodes('_submit_job_group_bunches'), call_nodes('_submit_job_bunches')
    ctx.need(len(job) >= 1, f'{where}: no call of _submit_job_bunches')
    g_upd, g_b = param('_submit_job_group_bunches', 1), param('_submit_job_group_bunches', 2)
    j_upd, j_b = param('_submit_job_bunches', 1), param('_submit_job_bunches', 2)
    for n, c, b in job:
        ctx.need(j_b in b and j_upd in b, f'{where}: `{pf.nsrc(c)[:100]}` does not pass the update id and the bunches')
        same_upd = [(gn, gc, gb) for gn, gc, gb in grp if g_upd in gb and pf.nsrc(gb[g_upd]) == pf.nsrc(b[j_upd])]
        doms = [gn for gn, gc, gb in same_upd if g.dominated_by(n, lambda x, gn=gn: x is gn) and pf.node_has_await(gn) and is_bunches(gb.get(g_b))]
        arg_ok = is_bunches(b[j_b])
        if not arg_ok:
            # evidence only when a recognisably different list is submitted (an element / slice / re-ordered copy of the bunches); an unknown expression is declined
            e_ = facts.expand_locals_except(fn, b[j_b], stop={bunches}, depth=3)
            ctx.need(bunches in pf.names_in(e_) and (isinstance(e_, ast.Subscript) or _reorders(e_, bunches)), f'{where}: `{pf.nsrc(c)[:100]}` submits `{pf.nsrc(e_)[:60]}` (not analysed)')
        branch = 'create' if any(pf.dotted(x.func) == 'self._open_batch' for x in pf.calls_in(fn) if g.node_of(x) and g.dominated_by(n, lambda y, x=x: y is g.node_of(x)[0])) else 'update'
        ctx.check(bool(doms) and arg_ok, 'R4', f'{where}::{branch}: job groups before jobs',
                  f'`{pf.nsrc(c)}` is not dominated by an awaited `self._submit_job_group_bunches(<same update>, {bunches}, …)`: jobs can be submitted before the job groups '
                  f'they belong to, or a different list of bunches is submitted', m.path, c.lineno)
    # single-bunch fast paths take bunch 0
    for name in ('_create_fast', '_update_fast'):
        cs = call_nodes(name)
        ctx.need(len(cs) == 1, f'{where}: expected one call of {name}')
        p0 = param(name, 1)
        ctx.need(p0 in cs[0][2], f'{where}: `{pf.nsrc(cs[0][1])[:100]}` does not pass the bunch')
        e0 = facts.expand_locals_except(fn, cs[0][2][p0], stop={bunches}, depth=3)
        first = pf.nsrc(e0) in (f'{bunches}[0]', f'{bunches}[-1]')     # the path is taken when there is exactly one bunch
        ctx.need(first or (isinstance(e0, ast.Subscript) and pf.nsrc(e0.value) == bunches) or pf.nsrc(e0) == bunches, f'{where}: `{pf.nsrc(cs[0][1])[:100]}` passes `{pf.nsrc(e0)[:60]}` (not analysed)')
        ctx.check(first, 'R4', f'{where}::{name} receives the only bunch', f'`{pf.nsrc(cs[0][1])}` does not pass `{bunches}[0]`', m.path, cs[0][1].lineno)


def _spec_lists_keep_order(ctx: Ctx, m: pf.Module) -> None:
    """R1 (who may re-order): "the original specifications in order" is the order of creation, i.e. the order of `self._job_group_specs` / `self._job_specs`, which
    `_submit` hands to `_create_bunches`.  Every syntactic use of the two attributes in the file is classified: appending and reading keep the order; sort / reverse /
    shuffle / insert at the front / re-binding to a re-ordered or filtered copy break it; removals and escapes are declined."""
    par = m.parents()
    for attr in ('_job_group_specs', '_job_specs'):
        cons = f'{F}::{CLS}::self.{attr} keeps creation order until it is bunched'
        role = 'job-group' if 'group' in attr else 'job'
        bad: List[Tuple[ast.AST, str]] = []
        n_uses = 0
        for node in ast.walk(m.tree):
            if not (isinstance(node, ast.Attribute) and node.attr == attr):
                continue
            n_uses += 1
            p = par.get(node)
            st: Optional[ast.AST] = node
            while st is not None and not isinstance(st, ast.stmt):
                st = par.get(st)
            txt = pf.nsrc(st)[:110] if st is not None else pf.nsrc(node)

            def same_attr(x: ast.AST) -> bool:
                return isinstance(x, ast.Attribute) and x.attr == attr and pf.nsrc(x.value) == pf.nsrc(node.value)
            if isinstance(node.ctx, ast.Store):
                if isinstance(p, (ast.Assign, ast.AnnAssign)) and p.value is not None:
                    v = p.value
                    if isinstance(v, ast.List) and not v.elts:
                        continue
                    rel = 'same'
                    cur: ast.AST = v
                    for _ in range(6):
                        pe = facts.peel_order(cur)
                        if pe is None:
                            break
                        rel = facts.worse(rel, pe[0])
                        cur = pe[1]
                    if same_attr(cur) and rel == 'same':
                        continue
                    if same_attr(cur):
                        bad.append((p, f'`{txt}` re-binds the list to a {rel} copy of itself'))
                        continue
                elif isinstance(p, (ast.AnnAssign,)):
                    continue
                raise AnalysisError(f'{F}: `{txt}` writes `{attr}` in a way that is not analysed')
            if isinstance(node.ctx, ast.Del):
                raise AnalysisError(f'{F}: `{txt}` deletes `{attr}` (not analysed)')
            if isinstance(p, ast.Attribute) and p.value is node and isinstance(par.get(p), ast.Call) and par[p].func is p:
                c = par[p]
                if p.attr == 'append':
                    continue
                if p.attr in ('sort', 'reverse'):
                    bad.append((c, f'`{txt}` re-orders the list in place'))
                    continue
                if p.attr == 'insert':
                    if len(c.args) == 2 and pf.nsrc(c.args[0]) == f'len({pf.nsrc(node)})':
                        continue
                    bad.append((c, f'`{txt}` inserts a specification in front of specifications created earlier'))
                    continue
                if p.attr in ('copy', 'index', 'count', '__len__'):
                    continue
                raise AnalysisError(f'{F}: `{txt}` calls .{p.attr}() on `{attr}` (not analysed)')
            if isinstance(p, ast.Subscript) and p.value is node:
                if isinstance(p.ctx, ast.Load):
                    continue
                raise AnalysisError(f'{F}: `{txt}` assigns into `{attr}` (not analysed)')
            if isinstance(p, ast.keyword) and isinstance(par.get(p), ast.Call):
                p = par[p]
            if isinstance(p, (ast.Assign, ast.AnnAssign)) and p.value is node and isinstance(p.targets[0] if isinstance(p, ast.Assign) else p.target, ast.Name) \
                    and (not isinstance(p, ast.Assign) or len(p.targets) == 1):
                # a local alias of the list: every use of the alias in that function must be a plain read (argument of _create_bunches / a pure builtin, iteration)
                al = (p.targets[0] if isinstance(p, ast.Assign) else p.target).id  # type: ignore[union-attr]
                fdef = m.enclosing_func(node)
                ok_alias = fdef is not None and len(pf.assignments(fdef).get(al, [])) == 1
                for x in (ast.walk(fdef) if ok_alias else []):
                    if isinstance(x, ast.Name) and x.id == al and isinstance(x.ctx, ast.Load):
                        px = par.get(x)
                        if isinstance(px, ast.keyword):
                            px = par.get(px)
                        fn_ = (pf.dotted(px.func) or '') if isinstance(px, ast.Call) else ''
                        if isinstance(px, ast.Call) and px.func is not x and ((isinstance(px.func, ast.Name) and px.func.id in facts.PURE_FUNCS) or fn_.endswith('._create_bunches')):
                            continue
                        if isinstance(px, (ast.For, ast.AsyncFor, ast.comprehension)) and px.iter is x:
                            continue
                        ok_alias = False
                if ok_alias:
                    continue
                raise AnalysisError(f'{F}: `{txt}` aliases `{attr}` and the alias is used in a way that is not analysed')
            if isinstance(p, ast.Call) and (any(a is node for a in p.args) or any(k.value is node for k in p.keywords)):
                fname = pf.dotted(p.func) or ''
                if fname.split('.')[-1] == 'shuffle':
                    bad.append((p, f'`{txt}` shuffles the list'))
                    continue
                if (isinstance(p.func, ast.Name) and p.func.id in facts.PURE_FUNCS) or fname.endswith('._create_bunches'):
                    continue
                raise AnalysisError(f'{F}: `{txt}` hands `{attr}` to `{fname or pf.nsrc(p.func)}` (not analysed)')
            if isinstance(p, (ast.For, ast.AsyncFor, ast.comprehension)) and p.iter is node:
                continue
            if isinstance(p, (ast.Compare, ast.BoolOp, ast.UnaryOp, ast.FormattedValue, ast.Starred)) or (isinstance(p, (ast.If, ast.While, ast.IfExp, ast.Assert)) and getattr(p, 'test', None) is node):
                continue
            if isinstance(p, ast.AugAssign) and p.target is node:
                if isinstance(p.op, ast.Add):
                    continue
                raise AnalysisError(f'{F}: `{txt}` (not analysed)')
            raise AnalysisError(f'{F}: `{txt}`: use of `{attr}` not analysed')
        ctx.need(n_uses >= 3, f'{F}: `{attr}` is hardly used any more ({n_uses} uses): the spec lists were renamed / restructured')
        if bad:
            node0, why = bad[0]
            ctx.bad('R1', cons, f'{why}: the list `_submit` hands to `_create_bunches` is no longer in creation order, so the concatenated bunches are not the original {role} specifications '
                    f'in order (ids are assigned at creation, the server reads a job spec at offset job_id - start_job_id of its bunch and requires job-group ids to arrive consecutively)'
                    + (f' (+{len(bad) - 1} more)' if len(bad) > 1 else ''), m.path, getattr(node0, 'lineno', 0))
        else:
            ctx.ok('R1', cons, {'uses': n_uses})


def _filter(ctx: Ctx, fn: pf.FuncDef, where: str, src_param: str) -> Dict[str, str]:
    """name -> SpecType member for `name = [s.spec_bytes for s in <src_param> if s.typ == SpecType.X]`."""
    out: Dict[str, str] = {}
    for st in fn.body:
        if isinstance(st, ast.Assign) and len(st.targets) == 1 and isinstance(st.targets[0], ast.Name) and isinstance(st.value, ast.ListComp):
            lc = st.value
            if len(lc.generators) == 1 and isinstance(lc.generators[0].iter, ast.Name) and lc.generators[0].iter.id == src_param and isinstance(lc.generators[0].target, ast.Name):
                v = lc.generators[0].target.id
                ctx.need(pf.nsrc(lc.elt) == f'{v}.spec_bytes' and len(lc.generators[0].ifs) == 1, f'{where}: `{pf.nsrc(st)}` is not a typed projection')
                t = lc.generators[0].ifs[0]
                ctx.need(isinstance(t, ast.Compare) and len(t.ops) == 1 and isinstance(t.ops[0], (ast.Eq, ast.Is)) and pf.nsrc(t.left) == f'{v}.typ'
                         and (pf.dotted(t.comparators[0]) or '').startswith('SpecType.'), f'{where}: filter `{pf.nsrc(t)}` not recognised')
                out[st.targets[0].id] = pf.dotted(t.comparators[0]).split('.')[1]  # type: ignore[union-attr]
    return out


def _submitters(ctx: Ctx, m0: pf.Module) -> None:
    # per-bunch submitters: filter <-> endpoint
    for name, typ, suffix in (('_submit_jobs', 'JOB', '/jobs/create'), ('_submit_job_groups', 'JOB_GROUP', '/job-groups/create')):
        m, fn = _inlined(m0, f'{CLS}.{name}')
        where = f'{F}::{CLS}.{name}'
        ctx.need(len(fn.args.args) >= 3, f'{where}: parameters changed')
        src_param = fn.args.args[2].arg
        fl = _filter(ctx, fn, where, src_param)
        ctx.need(len(fl) == 1, f'{where}: expected one typed projection of the bunch')
        lst, got = next(iter(fl.items()))
        calls = [c for c in pf.calls_in(fn) if pf.dotted(c.func) == 'self._submit_spec_bunch']
        ctx.need(len(calls) == 1, f'{where}: expected one _submit_spec_bunch call')
        ssb = m.func(f'{CLS}._submit_spec_bunch')
        ctx.need(len(ssb.args.args) >= 3, f'{F}::{CLS}._submit_spec_bunch: parameters changed')
        bd = _bound_args(calls[0], ssb)
        p_url, p_bunch = ssb.args.args[1].arg, ssb.args.args[2].arg
        ctx.need(bd is not None and p_url in bd and p_bunch in bd, f'{where}: arguments of `{pf.nsrc(calls[0])[:100]}` do not bind')
        url = pf.fstring_template(pf.resolve_expr(fn, bd[p_url]), lambda e: '{}')  # type: ignore[index]
        ctx.need(url is not None, f'{where}: url not a string template')
        posted = pf.nsrc(facts.expand_locals_except(fn, bd[p_bunch], stop={lst, src_param}, depth=3))  # type: ignore[index]
        ctx.need(posted in (lst, src_param), f'{where}: `{pf.nsrc(calls[0])[:100]}` posts `{posted[:60]}` (not analysed)')
        ctx.need(url.endswith('/create'), f'{where}: endpoint `…{url[-24:]}` not recognised')
        ctx.check(got == typ and url.endswith(suffix) and posted == lst, 'R4', f'{where}::filter matches endpoint',
                  f'specs of type SpecType.{got} (`{lst}`) are posted as `{posted}` to `…{url[-24:]}`; expected SpecType.{typ} -> …{suffix}', m.path, calls[0].lineno)
    # fast paths: JSON key <-> list
    for name in ('_create_fast', '_update_fast'):
        m, fn = _inlined(m0, f'{CLS}.{name}')
        where = f'{F}::{CLS}.{name}'
        fl = _filter(ctx, fn, where, fn.args.args[1].arg)
        ctx.need(sorted(fl.values()) == ['JOB', 'JOB_GROUP'], f'{where}: expected one JOB and one JOB_GROUP projection, found {fl}')
        key = None
        pairs = []
        for st in fn.body:
            if isinstance(st, ast.Expr) and isinstance(st.value, ast.Call) and isinstance(st.value.func, ast.Attribute) and st.value.func.attr == 'extend' \
                    and len(st.value.args) == 1 and isinstance(st.value.args[0], ast.Constant) and isinstance(st.value.args[0].value, bytes):
                txt = st.value.args[0].value.decode()
                if txt.rstrip().endswith(':'):
                    key = txt.strip('{,: ').strip('"')
            elif isinstance(st, ast.For) and isinstance(st.iter, ast.Call) and pf.dotted(st.iter.func) == 'enumerate' and len(st.iter.args) == 1 and isinstance(st.iter.args[0], ast.Name):
                lst = st.iter.args[0].id
                if lst not in fl:
                    d_ = pf.resolve_expr(fn, st.iter.args[0])     # a local alias of a projection (an argument of an inlined helper)
                    al = [k for k in fl if isinstance(d_, ast.Name) and d_.id == k]
                    lst = al[0] if al else lst
                ctx.need(lst in fl and key is not None and isinstance(st.target, ast.Tuple) and len(st.target.elts) == 2, f'{where}: serialisation loop over `{lst}` not recognised')
                el = pf.nsrc(st.target.elts[1])
                ext = [c for c in pf.calls_in(st) if isinstance(c.func, ast.Attribute) and c.func.attr == 'extend' and [pf.nsrc(a) for a in c.args] == [el]]
                ctx.need(len(ext) == 1, f'{where}: loop over `{lst}` does not write each element once')
                pairs.append((key, fl[lst]))
                key = None
        want = {'bunch': 'JOB', 'job_groups': 'JOB_GROUP'}
        ctx.need(sorted(k for k, _ in pairs) == sorted(want), f'{where}: JSON keys written are {[k for k, _ in pairs]}')
        wrong = [(k, t) for k, t in pairs if want[k] != t]
        ctx.check(not wrong, 'R4', f'{where}::JSON key matches spec type', f'the request field {wrong[0][0] if wrong else ""!r} is filled with SpecType.{wrong[0][1] if wrong else ""} specs: '
                  f'job specs are sent as job groups (or vice versa)', m.path, fn.lineno)
    # bunch lists reach the submitters in order
    m, fn = _inlined(m0, f'{CLS}._submit_job_group_bunches')
    where = f'{F}::{CLS}._submit_job_group_bunches'
    ctx.need(len(fn.args.args) >= 3, f'{where}: parameters changed')
    prm = fn.args.args[2].arg
    sjg = m.func(f'{CLS}._submit_job_groups')
    ctx.need(len(sjg.args.args) >= 3, f'{F}::{CLS}._submit_job_groups: parameters changed')
    p_b = sjg.args.args[2].arg
    refs = [x for x in ast.walk(fn) if isinstance(x, ast.Attribute) and x.attr == '_submit_job_groups']
    ctx.need(bool(refs), f'{where}: self._submit_job_groups is not used')
    par = {c: p_ for p_ in ast.walk(fn) for c in ast.iter_child_nodes(p_)}
    loops = [st for st in _stmts(fn) if isinstance(st, (ast.For, ast.AsyncFor, ast.While))]
    seq_ok = False
    concurrent = None
    if len(loops) == 1 and isinstance(loops[0], ast.For) and len(refs) == 1 and isinstance(par.get(refs[0]), ast.Call) and par[refs[0]].func is refs[0] \
            and isinstance(par.get(par[refs[0]]), ast.Await) and _inside(loops[0], refs[0]) and not loops[0].orelse:
        lp = loops[0]
        it, tgt = lp.iter, lp.target
        if isinstance(it, ast.Call) and pf.dotted(it.func) == 'enumerate' and len(it.args) == 1 and not it.keywords and isinstance(tgt, ast.Tuple) and len(tgt.elts) == 2:
            it, tgt = it.args[0], tgt.elts[1]
        bd = _bound_args(par[refs[0]], sjg)
        if isinstance(tgt, ast.Name) and pf.nsrc(pf.resolve_expr(fn, it)) == prm and bd is not None and p_b in bd and pf.nsrc(bd[p_b]) == tgt.id \
                and not any(isinstance(x, (ast.Break, ast.Continue, ast.Return, ast.If)) for x in pf.walk_shallow(lp)):
            seq_ok = True
    for r_ in refs:
        cur = par.get(r_)
        while cur is not None and not isinstance(cur, ast.stmt):
            if isinstance(cur, (ast.ListComp, ast.GeneratorExp, ast.SetComp, ast.Lambda)) or (isinstance(cur, ast.Call) and (pf.dotted(cur.func) or '').split('.')[-1] in
                                                                                                 ('partial', 'gather', 'bounded_gather', 'create_task', 'ensure_future')):
                concurrent = cur
            cur = par.get(cur)
        call_ = par.get(r_)
        if isinstance(call_, ast.Call) and call_.func is r_ and not isinstance(par.get(call_), ast.Await) and concurrent is None:
            concurrent = call_      # a coroutine object that is not awaited on the spot
    ctx.need(seq_ok or concurrent is not None, f'{where}: the way the job-group bunches are submitted is not recognised (expected `for bunch in {prm}: await self._submit_job_groups(.., bunch, ..)`)')
    ctx.check(seq_ok, 'R4', f'{where}::sequential, in order', f'job-group bunches are not awaited one after the other in list order (`{pf.nsrc(concurrent)[:90] if concurrent is not None else ""}`: '
              f'a job group must be submitted after its parents)', m.path, fn.lineno)
    m, fn = _inlined(m0, f'{CLS}._submit_job_bunches')
    where = f'{F}::{CLS}._submit_job_bunches'
    ctx.need(len(fn.args.args) >= 3, f'{where}: parameters changed')
    prm = fn.args.args[2].arg
    sj = m.func(f'{CLS}._submit_jobs')
    ctx.need(len(sj.args.args) >= 3, f'{F}::{CLS}._submit_jobs: parameters changed')
    comps = [x for x in ast.walk(fn) if isinstance(x, (ast.ListComp, ast.GeneratorExp)) and len(x.generators) == 1 and pf.nsrc(pf.resolve_expr(fn, x.generators[0].iter)) == prm]
    floops = [x for x in _stmts(fn) if isinstance(x, ast.For) and pf.nsrc(pf.resolve_expr(fn, x.iter)) == prm]
    ok = False
    lossy = None
    if len(comps) == 1 and not floops and isinstance(comps[0].elt, ast.Call) and isinstance(comps[0].generators[0].target, ast.Name):
        e = comps[0].elt
        tv = comps[0].generators[0].target.id
        args = [pf.nsrc(a) for a in e.args]
        hit = (pf.dotted(e.func) in ('functools.partial', 'partial') and args[:1] == ['self._submit_jobs'] and len(args) >= 3 and args[2] == tv) or \
              (pf.dotted(e.func) == 'self._submit_jobs' and len(args) >= 2 and args[1] == tv)
        if hit and comps[0].generators[0].ifs:
            lossy = f'`{pf.nsrc(comps[0])[:100]}` filters the bunches'
        ok = hit and not comps[0].generators[0].ifs
    elif len(floops) == 1 and not comps and isinstance(floops[0].target, ast.Name) and not floops[0].orelse:
        tv = floops[0].target.id
        cs = [c for c in pf.calls_in(floops[0]) if pf.dotted(c.func) == 'self._submit_jobs' or (pf.dotted(c.func) in ('functools.partial', 'partial') and c.args and pf.nsrc(c.args[0]) == 'self._submit_jobs')]
        if len(cs) == 1 and tv in [pf.nsrc(a) for a in cs[0].args] and not any(isinstance(x, (ast.Break, ast.Continue, ast.Return, ast.If)) for x in pf.walk_shallow(floops[0])):
            ok = True
    if not ok and lossy is None:
        sl = [x for x in ast.walk(fn) if isinstance(x, ast.Subscript) and pf.nsrc(x.value) == prm]
        if sl:
            lossy = f'`{pf.nsrc(sl[0])}` takes only part of the bunches'
    ctx.need(ok or lossy is not None, f'{where}: the way the job bunches are handed to self._submit_jobs is not recognised')
    ctx.check(ok, 'R4', f'{where}::every bunch submitted', f'not every bunch of `{prm}` is handed to self._submit_jobs exactly once ({lossy})', m.path, fn.lineno)
    ctx.unit('functions', 6)


def run(ctx: Ctx) -> None:
    ctx.level = 'other'
    ctx.exhaustive = True
    ctx.explanation = ('All paths through the body of the bunching loop are enumerated on the CFG and checked for linear use of the spec and of the current bunch; guards and '
                       'byte accounting are compared in linear normal form; submitter filters are matched with their endpoints / JSON keys; nothing is run.')
    ctx.rule('R1', 'iterable = [*JOB_GROUP-tagged(param 1), *JOB-tagged(param 2)] from unfiltered comprehensions (element constructor seen through helpers) over the PARAMETERS themselves '
                   '(followed through reaching definitions: no sorted / reversed / filtered / in-place re-ordered derivative) and serialised inside this call (not a snapshot kept on the '
                   'object); _submit passes (job group specs, job specs, byte limit, count limit); submit() forwards its own limit arguments; nothing in the file re-orders '
                   'self._job_group_specs / self._job_specs between creation and bunching', 9)
    ctx.rule('R2', 'on every path through the loop body the spec is consumed exactly once, bunch is rebound only right after being flushed, lists start empty, residual bunch appended', 3)
    ctx.rule('R3', 'append guarded by bytes + n <= max_bytes and len + 1 <= max_size against the limit PARAMETERS of this call (or values provably <= them); tracked bytes >= actual bytes on '
                   'every path; fresh [spec] preceded by n <= max_bytes (facts from the loop, from serialisation helpers and from all()-asserts); n_bytes = len(spec_bytes)', 4)
    ctx.rule('R4', 'submitters filter by the SpecType of their endpoint / JSON key; bunches passed unchanged and in order; job-group bunches awaited before job bunches in both multi-bunch paths', 10)
    ctx.rule('R5', 'who may mutate the result structure: specs are only appended to the CURRENT bunch and bunches only appended at the END of the result list; no statement inserts into / '
                   'extends / overwrites an already flushed bunch (index or iteration alias), re-orders a list, or returns a re-ordered copy', 4)
    ctx.assume('spec sizes are non-negative and assert statements are enabled (a spec larger than the byte limit is rejected by the assert, not bunched)')
    m = pf.load(F)
    ctx.unit('files')
    _bunching(ctx, m)
    _submit_call(ctx, m)
    _spec_lists_keep_order(ctx, m)
    _submitters(ctx, m)
