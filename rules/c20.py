"""C20 Bounded gather respects its bound and its error contract.

Decides from the syntax tree / CFG of hailtop/utils/utils.py (nothing is run):
  R1 bound     every invocation of a user partial function inside bounded_gather2_* / OnlineBoundedGather2.call is lexically inside
               `async with <the semaphore>`
  R2 parent    every await of asyncio.gather / asyncio.wait / _done_event.wait by the parent is inside `async with WithoutSemaphore(<sema>)`
  R3 order     tasks are built by an order-preserving comprehension over *pfs, every result return is `await asyncio.gather(*tasks)`,
               and bounded_gather / bounded_gather2 forward *pfs and the two flags unchanged
  R4 errors    return_exceptions wraps each pf in a catch-all that returns (value, None) / (None, exc); the raise variant's wrapper has no handler
               that can complete without re-raising; with cancel_on_error the finally
               block, on the exceptional path, cancels every task that is not done (no early exit from the loop) and awaits all tasks
  R5 online    OnlineBoundedGather2: call registers the task and clears the event; run_and_cleanup deregisters on every normal exit;
               only the first exception is kept; __aexit__ leaves only through the false edge of `while self._pending` with no await after it
  R6 pairing   WithoutSemaphore releases exactly once on enter and re-acquires on *every* exit (the enclosing holder releases again); the exit
               condition is evaluated per use: truth table of the tests of __aexit__ with the exception parameters fixed by the kind of exit and
               the constructor flags fixed by the call site (keyword or default)
  R7 holder    a semaphore handed to bounded_gather2* by code in this file is either a parameter (the caller's protocol) or a local
               semaphore of which the caller holds a slot; a freshly built, un-held semaphore is raised to N+1 by WithoutSemaphore
  R8 flow      every parameter of a public wrapper (bounded_gather, bounded_gather2, any other bounded_gather* / caller-of-the-gatherers in
               this file) reaches the machinery on every value-returning path: it is forwarded into the delegation call or tested on the path
  R9 confined  the partial functions handed to a wrapper reach the machinery only: `*pfs` goes into a delegation call (or a length / truth
               test); iterating, indexing or calling them, or asyncio.gather/wait/create_task/ensure_future in a wrapper, is a bypass of the
               bound / cancel / await discipline that R1-R6 establish for the machinery
  R10 prompt   cancel_on_error: between the failure of `await asyncio.gather(*tasks)` and the loop that cancels the unfinished tasks nothing waits
               for the (shared, possibly saturated) semaphore or for the tasks: every `async with` the exception leaves on its way to the finally
               block is evaluated for an exceptional exit (WithoutSemaphore with the flags of that site must not acquire), and the finally block
               reaches the cancel loop without `await <sema>.acquire()` / `async with <sema>` / an un-timed wait for the tasks
Does not decide: schedules as such; with cancel_on_error=False the documented behaviour is that the remaining tasks keep running after
the first error is raised; whether callers in other files hold a slot (thorough tier lists them as INFO).
"""
from __future__ import annotations

import ast
from typing import Dict, List, Optional, Sequence, Set, Tuple

from engines import asyncfacts as af
from engines import pyfacts as pf
from engines.common import AnalysisError, Ctx

META = dict(
    category='other',
    text='Structural necessary conditions decided on the AST/CFG: lexical enclosure of every user-function call by the semaphore and of every '
         'parent wait by WithoutSemaphore, order-preserving construction and return of the task list, path enumeration through the clean-up '
         'loops (cancel-or-done on every iteration path, no early exit, all tasks awaited), exit-edge analysis of OnlineBoundedGather2.__aexit__, '
         'release/acquire pairing of WithoutSemaphore on all exits, the holder protocol at the call sites in this file, and parameter-flow / confinement of the '
         'partial functions in the public wrappers (every contract parameter reaches the machinery on every value-returning path; the wrappers never start '
         'the partial functions themselves).  Not a proof over interleavings.',
    note='Trusted: CPython ast; engines/pyfacts CFG; asyncio.Semaphore.release is unbounded (value may exceed the initial value); asyncio.gather '
         'returns results in argument order and propagates the first exception immediately.',
    technique='static analysis: lexical enclosure + CFG path enumeration + release/acquire pairing on all exits (truth table of the exit condition per call site) + parameter-flow on CFG paths',
    design_ref='DESIGN.md §3 C20',
)

F = 'hail/python/hailtop/utils/utils.py'
GR = 'bounded_gather2_raise_exceptions'
GE = 'bounded_gather2_return_exceptions'
G2 = 'bounded_gather2'
G1 = 'bounded_gather'
WS = 'WithoutSemaphore'
OBG = 'OnlineBoundedGather2'
GATHERERS = (GR, GE, G2)


def _nested_defs(fn: pf.FuncDef) -> List[pf.FuncDef]:
    return [n for n in ast.walk(fn) if isinstance(n, (ast.FunctionDef, ast.AsyncFunctionDef)) and n is not fn]


def _own_nodes(fn: pf.FuncDef):
    return pf.walk_shallow(fn)


def _with_items(m: pf.Module, fn: pf.FuncDef, node: ast.AST) -> List[Tuple[ast.AST, ast.expr]]:
    out = []
    for w in af.enclosing_with(m, fn, node):
        for it in w.items:  # type: ignore[attr-defined]
            out.append((w, it.context_expr))
    return out


# ------------------------------------------------------------------------------------------------
# seeing through the usual behaviour-preserving rewrites
# ------------------------------------------------------------------------------------------------

ANALYSED_METHODS = ('__init__', '__aenter__', '__aexit__', 'call', 'wait', '_shutdown')


def _prepared(m: pf.Module) -> pf.Module:
    """The module with private helpers inlined into the functions the rules look at (extract-method is the most common refactor): helper
    methods of OnlineBoundedGather2 / WithoutSemaphore other than the analysed ones, and module-level helpers called from the gatherers.
    Whatever the inliner cannot expand stays a call (the rules then decline or see nothing, as before)."""
    from engines import inline as inl
    m2 = m
    fam = tuple(_family(m))
    mod_funcs = {st.name for st in m.tree.body if isinstance(st, (ast.FunctionDef, ast.AsyncFunctionDef))} - set(fam)

    def calls_helper(fn: pf.FuncDef, cls: Optional[ast.ClassDef]) -> bool:
        if cls is not None:
            names = {f.name for f in cls.body if isinstance(f, (ast.FunctionDef, ast.AsyncFunctionDef))} - set(ANALYSED_METHODS)
            recv = fn.args.args[0].arg if fn.args.args else 'self'
            return any(isinstance(c, ast.Call) and isinstance(c.func, ast.Attribute) and isinstance(c.func.value, ast.Name) and c.func.value.id == recv and c.func.attr in names
                       for c in ast.walk(fn))
        return any(isinstance(c, ast.Call) and isinstance(c.func, ast.Name) and c.func.id in mod_funcs for c in ast.walk(fn))
    try:
        for cname, meths in ((OBG, ('__aexit__', 'wait', 'call', '_shutdown')), (WS, ('__aenter__', '__aexit__'))):
            for meth in meths:
                if calls_helper(af.method(m2, m2.cls(cname), meth), m2.cls(cname)):
                    m2, _ = inl.inline_methods(m2, cname, meth, exclude=ANALYSED_METHODS)
        for fn in (GR, GE):
            if calls_helper(m2.func(fn), None):
                m2, _ = inl.inline_functions(m2, fn, exclude=fam)
    except AnalysisError:
        raise
    except Exception as e:  # the inliner met something it was not written for: analyse the module as it is
        raise AnalysisError(f'helper inlining failed ({type(e).__name__}: {e})')
    return m2


_obg_cache: Dict[int, Dict[str, str]] = {}


def _obg_attrs(ctx: Ctx, m: pf.Module) -> Dict[str, str]:
    """The private attributes of OnlineBoundedGather2 by ROLE (read off __init__), as source texts: the semaphore (bound to the constructor
    parameter), the done-event (`asyncio.Event()`), the table of pending tasks (an empty dict) and the stored first exception (None)."""
    if id(m) in _obg_cache:
        return _obg_cache[id(m)]
    cls = m.cls(OBG)
    init = af.method(m, cls, '__init__')
    ctx.need(len(init.args.args) >= 2, f'{OBG}.__init__: no semaphore parameter')
    me, semp = init.args.args[0].arg, init.args.args[1].arg
    roles: Dict[str, List[str]] = {'sema': [], 'event': [], 'pending': [], 'exc': []}
    for st in af.body_no_doc(init):
        if isinstance(st, ast.Assign) and len(st.targets) == 1:
            t, v = st.targets[0], st.value
        elif isinstance(st, ast.AnnAssign) and st.value is not None:
            t, v = st.target, st.value
        else:
            continue
        if not (isinstance(t, ast.Attribute) and isinstance(t.value, ast.Name) and t.value.id == me):
            continue
        src = f'self.{t.attr}'
        if isinstance(v, ast.Name) and v.id == semp:
            roles['sema'].append(src)
        elif isinstance(v, ast.Call) and pf.dotted(v.func) in ('asyncio.Event', 'Event'):
            roles['event'].append(src)
        elif (isinstance(v, ast.Dict) and not v.keys) or (isinstance(v, ast.Call) and pf.dotted(v.func) == 'dict' and not v.args and not v.keywords):
            roles['pending'].append(src)
        elif isinstance(v, ast.Constant) and v.value is None:
            roles['exc'].append(src)
    ctx.need(me == 'self' and all(len(v) == 1 for k, v in roles.items() if k != 'event') and len(roles['event']) <= 1,
             f'{OBG}.__init__: the attributes holding the semaphore / done-event / pending table / first exception are not recognised ({ {k: v for k, v in roles.items() if len(v) != 1} })')
    out = {k: (v[0] if v else None) for k, v in roles.items()}  # no asyncio.Event at all: the rules about the event are not applicable (see R5)
    _obg_cache[id(m)] = out
    return out


def _res(fn: Optional[pf.FuncDef], e: ast.AST) -> ast.AST:
    """`e` with a local that is bound exactly once followed to its defining expression (also an awaited one)."""
    return pf.resolve_expr(fn, e) if fn is not None and isinstance(e, ast.Name) else e


def _xt(fn: Optional[pf.FuncDef], test: ast.AST) -> ast.AST:
    """A test with boolean locals (`finished = t.done()`) replaced by what they hold."""
    return pf.expand_locals(fn, test) if fn is not None else test


def _forces(test: ast.AST, lab: str, allowed) -> Optional[bool]:
    """Does leaving `test` through the edge `lab` ('T' / 'F') force the property P?  `allowed(atom, P)` gives the truth values the atom can take
    when P has that value (None: the atom says nothing about P).  True / False = P is forced to that value, None = not forced."""
    import itertools
    from engines import absdom
    atoms = absdom.bool_atoms(test)
    keys = [absdom.atom_key(x) for x in atoms]
    want = lab == 'T'
    possible: Dict[bool, bool] = {}
    related = False
    for P in (True, False):
        doms = []
        for x in atoms:
            d = allowed(x, P)
            if d is not None:
                related = True
            doms.append(sorted(d) if d is not None else [False, True])
        possible[P] = any(absdom.eval_bool(test, lambda x, v=dict(zip(keys, combo)): v[absdom.atom_key(x)]) == want for combo in itertools.product(*doms))
    if not related:
        return None
    if possible[True] and not possible[False]:
        return True
    if possible[False] and not possible[True]:
        return False
    return None


def _cmp_const_right(a: ast.AST) -> ast.AST:
    """`0 < len(x)` as `len(x) > 0`."""
    flip = {ast.Lt: ast.Gt, ast.LtE: ast.GtE, ast.Gt: ast.Lt, ast.GtE: ast.LtE, ast.Eq: ast.Eq, ast.NotEq: ast.NotEq}
    if isinstance(a, ast.Compare) and len(a.ops) == 1 and isinstance(a.left, ast.Constant) and not isinstance(a.comparators[0], ast.Constant) and type(a.ops[0]) in flip:
        return ast.Compare(left=a.comparators[0], ops=[flip[type(a.ops[0])]()], comparators=[a.left])
    return a


def _sem_nonempty(x: str):
    """P: the container `x` is neither None nor empty."""
    def allowed(a: ast.AST, P: bool):
        a = _cmp_const_right(a)
        s = pf.nsrc(a)
        if s in (x, f'bool({x})', f'len({x})'):
            return {P}
        if isinstance(a, ast.Compare) and len(a.ops) == 1 and isinstance(a.comparators[0], ast.Constant):
            l, op, k = pf.nsrc(a.left), type(a.ops[0]), a.comparators[0].value
            if l == f'len({x})' and isinstance(k, int) and not isinstance(k, bool):
                if (op, k) in ((ast.Gt, 0), (ast.NotEq, 0), (ast.GtE, 1)):
                    return {P}
                if (op, k) in ((ast.Eq, 0), (ast.Lt, 1), (ast.LtE, 0)):
                    return {not P}
            if l == x and k is None:
                if op in (ast.Is, ast.Eq):
                    return {False} if P else {True, False}
                if op in (ast.IsNot, ast.NotEq):
                    return {True} if P else {True, False}
        return None
    return allowed


def _sem_none(x: str):
    """P: `x` is None."""
    def allowed(a: ast.AST, P: bool):
        s = pf.nsrc(a)
        if s in (x, f'bool({x})'):
            return {False} if P else {True, False}
        if isinstance(a, ast.Compare) and len(a.ops) == 1 and isinstance(a.comparators[0], ast.Constant) and a.comparators[0].value is None and pf.nsrc(a.left) == x:
            if isinstance(a.ops[0], (ast.Is, ast.Eq)):
                return {P}
            if isinstance(a.ops[0], (ast.IsNot, ast.NotEq)):
                return {not P}
        return None
    return allowed


def _sem_truthy(xs: Sequence[str]):
    """P: the value of (any of the aliases) `xs` is truthy / not None (an exception object, a flag, the result of a call such as `t.done()`)."""
    xs = set(xs)

    def allowed(a: ast.AST, P: bool):
        s = pf.nsrc(a)
        if s in xs or (isinstance(a, ast.Call) and pf.dotted(a.func) == 'bool' and len(a.args) == 1 and pf.nsrc(a.args[0]) in xs):
            return {P}
        if isinstance(a, ast.Compare) and len(a.ops) == 1 and isinstance(a.comparators[0], ast.Constant) and pf.nsrc(a.left) in xs:
            k, op = a.comparators[0].value, a.ops[0]
            if k is None or k is False:
                if isinstance(op, (ast.Is, ast.Eq)):
                    return {not P}
                if isinstance(op, (ast.IsNot, ast.NotEq)):
                    return {P}
            if k is True:
                if isinstance(op, (ast.Is, ast.Eq)):
                    return {P}
                if isinstance(op, (ast.IsNot, ast.NotEq)):
                    return {not P}
        return None
    return allowed


def _every_path_forces(cfg: pf.CFG, node: pf.Node, allowed, value: bool, fn: Optional[pf.FuncDef] = None) -> bool:
    """Every path entry -> node takes an edge that forces P == value."""
    def forcing(a: pf.Node, lab: str) -> bool:
        return a.kind == 'test' and lab in ('T', 'F') and _forces(_xt(fn, a.ast), lab, allowed) is value
    return cfg.path_avoiding(cfg.entry, lambda n: n is node, lambda n: False, edge_ok=lambda a, b, lab: not forcing(a, lab)) is None


def _is_sema(fn: Optional[pf.FuncDef], e: ast.AST, sema: str, chain: Sequence[pf.FuncDef] = ()) -> bool:
    """`e` denotes the semaphore `sema` (directly or through a local alias bound once, in the function or an enclosing one)."""
    if pf.nsrc(e) == sema:
        return True
    if isinstance(e, ast.Name):
        for f in [fn] + list(chain):
            if f is None:
                continue
            d = pf.single_def(f, e.id)
            if isinstance(d, ast.expr):
                return pf.nsrc(d) == sema
    return False


def _ws_of(fn: Optional[pf.FuncDef], e: ast.AST) -> Optional[ast.Call]:
    """The `WithoutSemaphore(...)` call a context expression denotes (directly or through a local bound once)."""
    e = _res(fn, e)
    return e if isinstance(e, ast.Call) and pf.dotted(e.func) == WS else None


def _ws_sema_arg(c: ast.Call) -> Optional[ast.AST]:
    if c.args and not isinstance(c.args[0], ast.Starred):
        return c.args[0]
    for k in c.keywords:
        if k.arg in ('sema', 'semaphore'):
            return k.value
    return None


def _manual(fn: pf.FuncDef, sema_aliases, attr: str) -> List[ast.Call]:
    """Calls `<sema>.acquire()` / `<sema>.release()` written out by hand anywhere in fn (nested defs included)."""
    return [c for c in ast.walk(fn) if isinstance(c, ast.Call) and isinstance(c.func, ast.Attribute) and c.func.attr == attr and sema_aliases(c.func.value)]


def _manual_hold(m: pf.Module, host: pf.FuncDef, c: ast.AST, is_sema) -> Tuple[Optional[str], int]:
    """The acquire / try / finally-release protocol written out by hand around the call `c`:
         'held'   await s.acquire() is a statement ahead of the `try` (same block), the `finally` of that try releases, `c` is in its body
         'leaky'  the acquire is INSIDE the body of the try whose finally releases (the release also runs when the acquire never completed)
         None     anything else."""
    par = m.parents()

    def is_call(st: ast.AST, attr: str, awaited: bool) -> bool:
        v = st.value if isinstance(st, ast.Expr) else None
        if awaited:
            v = v.value if isinstance(v, ast.Await) else None
        return isinstance(v, ast.Call) and isinstance(v.func, ast.Attribute) and v.func.attr == attr and is_sema(v.func.value)
    cur: ast.AST = c
    while cur is not host:
        p = par[cur]
        if isinstance(p, ast.Try) and any(cur is s for s in p.body) and any(is_call(s, 'release', False) for s in p.finalbody):
            inside = [s for s in p.body if is_call(s, 'acquire', True)]
            if inside:
                return 'leaky', inside[0].lineno
            block = next((getattr(par[p], f) for f in ('body', 'orelse', 'finalbody') if isinstance(getattr(par[p], f, None), list) and any(x is p for x in getattr(par[p], f))), None)
            if block is not None:
                i = next(k for k, x in enumerate(block) if x is p)
                ahead = [s for s in block[:i] if is_call(s, 'acquire', True)]
                between_ok = i >= 1 and is_call(block[i - 1], 'acquire', True)
                if len(ahead) == 1 and between_ok:
                    return 'held', p.lineno
            return None, p.lineno
        cur = p
    return None, getattr(c, 'lineno', 0)


# ------------------------------------------------------------------------------------------------
# R1
# ------------------------------------------------------------------------------------------------


def _r1(ctx: Ctx, m: pf.Module) -> None:
    A = _obg_attrs(ctx, m)
    targets = [(GR, m.func(GR), None), (GE, m.func(GE), None), (f'{OBG}.call', m.func(f'{OBG}.call'), A['sema'])]
    par = m.parents()
    for qn, outer, sema in targets:
        if sema is None:
            sema = outer.args.args[0].arg
        vararg = outer.args.vararg.arg if outer.args.vararg else None
        user: Set[str] = set()
        if qn.endswith('.call'):
            user.add(outer.args.args[1].arg)
        nested = _nested_defs(outer)
        for nd in nested:
            for a in nd.args.args:
                user.add(a.arg)
        for n in ast.walk(outer):
            if isinstance(n, ast.comprehension) and isinstance(n.iter, ast.Name) and n.iter.id == vararg and isinstance(n.target, ast.Name):
                user.add(n.target.id)
            if isinstance(n, (ast.For, ast.AsyncFor)) and isinstance(n.iter, ast.Name) and n.iter.id == vararg and isinstance(n.target, ast.Name):
                user.add(n.target.id)
        user -= {'self', sema}
        calls = [c for c in ast.walk(outer) if isinstance(c, ast.Call) and ((isinstance(c.func, ast.Name) and c.func.id in user) or (
            vararg is not None and isinstance(c.func, ast.Subscript) and isinstance(c.func.value, ast.Name) and c.func.value.id == vararg))]
        ctx.need(calls, f'{qn}: no invocation of a user function found (idiom not recognised)')

        def held_at(node: ast.AST, host: pf.FuncDef) -> bool:
            chain = [f for f in [outer] + nested if f is not host]
            return any(isinstance(w, ast.AsyncWith) and _is_sema(host, e, sema, chain) for w, e in _with_items(m, host, node))  # type: ignore[arg-type]

        by_hand = _manual(outer, lambda v: _is_sema(None, v, sema) or isinstance(v, ast.Name), 'acquire')
        for c in calls:
            host = m.enclosing_func(c)
            cons = f'{F}::{m.qualname(host)}::{pf.nsrc(c)}'
            held = held_at(c, host)
            if not held and host is not outer and host in nested:
                # a helper of the wrapper: the slot is held when every use of the helper is a call made while holding it
                uses = [n for n in ast.walk(outer) if isinstance(n, ast.Name) and n.id == host.name and isinstance(n.ctx, ast.Load)]
                sites = [par.get(u) for u in uses]
                if uses and all(isinstance(s2, ast.Call) and s2.func is u and held_at(s2, m.enclosing_func(s2)) for s2, u in zip(sites, uses)):
                    held = True
            if not held and by_hand:
                verdict, where = _manual_hold(m, host, c, lambda v: _is_sema(host, v, sema, [f for f in [outer] + nested if f is not host]))
                if verdict == 'leaky':
                    ctx.bad('R1', f'{F}::{m.qualname(host)}::releases only a slot it holds',
                            f'`await {sema}.acquire()` sits inside the `try` whose `finally` calls `{sema}.release()`: a task that is cancelled (cancel_on_error, a cancelled caller) while '
                            f'it is still queued for a slot never got one, yet its finally releases one - asyncio.Semaphore is unbounded, so the value grows by one per such task and more '
                            f'partial functions than the bound run at once from then on', m.path, where)
                    continue
                ctx.need(verdict == 'held', f'{qn}: `{pf.nsrc(by_hand[0])}` acquires the semaphore by hand; whether `{pf.nsrc(c)}` runs while the slot is held is not decided')
                held = True
            ctx.check(held, 'R1', cons, f'the user function is invoked outside `async with {sema}`: it runs without holding a slot, so more than the bound run at once',
                      m.path, c.lineno)


# ------------------------------------------------------------------------------------------------
# R2
# ------------------------------------------------------------------------------------------------


def _is_parent_wait(a: ast.Await, event: str) -> bool:
    n = pf.call_name(a)
    return n in ('asyncio.gather', 'asyncio.wait') or n == f'{event}.wait'


def _r2(ctx: Ctx, m: pf.Module) -> None:
    A = _obg_attrs(ctx, m)
    sites = [(GR, m.func(GR), None), (GE, m.func(GE), None), (f'{OBG}.wait', m.func(f'{OBG}.wait'), A['sema']),
             (f'{OBG}.__aexit__', m.func(f'{OBG}.__aexit__'), A['sema'])]
    for qn, fn, sema in sites:
        if sema is None:
            sema = fn.args.args[0].arg
        by_hand = _manual(fn, lambda v: _is_sema(fn, v, sema), 'release')
        seen: Dict[str, int] = {}
        for a in _own_nodes(fn):
            if isinstance(a, ast.Await) and _is_parent_wait(a, A['event']):
                txt = pf.nsrc(a)
                seen[txt] = seen.get(txt, 0) + 1
                cons = f'{F}::{qn}::{txt}' + (f'#{seen[txt]}' if seen[txt] > 1 else '')
                ok = False
                for w, e in _with_items(m, fn, a):
                    c = _ws_of(fn, e) if isinstance(w, ast.AsyncWith) else None
                    if c is not None and _ws_sema_arg(c) is not None and _is_sema(fn, _ws_sema_arg(c), sema):
                        ok = True
                if not ok:
                    ctx.need(not by_hand, f'{qn}: the semaphore is released by hand (`{pf.nsrc(by_hand[0]) if by_hand else ""}`); whether the parent still holds its slot at `{txt}` is not decided')
                ctx.check(ok, 'R2', cons, f'the parent waits for its children while still holding its slot of `{sema}` (not inside `async with {WS}({sema})`): '
                          f'with all slots held by waiting parents no child can start and the gather never returns', m.path, a.lineno)


# ------------------------------------------------------------------------------------------------
# R3
# ------------------------------------------------------------------------------------------------


TASK_MAKERS = ('asyncio.create_task', 'asyncio.ensure_future')
UNORDERED = ('set', 'frozenset', 'reversed', 'sorted', 'random.sample', 'random.shuffle')


def _task_list(ctx: Ctx, fn: pf.FuncDef, qn: str, vararg: str):
    """The statement that builds the task list and the list as a comprehension: `tasks = [create_task(w(pf)) for pf in pfs]` or the loop
    `tasks = []; for pf in pfs: tasks.append(create_task(w(pf)))` it abbreviates."""
    makes = lambda e: any(isinstance(c, ast.Call) and pf.dotted(c.func) in TASK_MAKERS for c in ast.walk(e))  # noqa: E731
    comps = [(st, st.value, st.targets[0] if isinstance(st, ast.Assign) else st.target) for st in fn.body
             if ((isinstance(st, ast.Assign) and len(st.targets) == 1) or (isinstance(st, ast.AnnAssign) and st.value is not None))
             and isinstance(st.value, (ast.ListComp, ast.GeneratorExp, ast.SetComp, ast.Call)) and makes(st.value)]
    loops = [st for st in fn.body if isinstance(st, ast.For) and makes(st)]
    if len(comps) == 1 and not loops and isinstance(comps[0][2], ast.Name):
        st, comp, tgt = comps[0]
        return st, comp, tgt.id, None
    ctx.need(len(loops) == 1 and not comps, f'{qn}: task list construction not recognised')
    lp = loops[0]
    ok = len(lp.body) == 1 and not lp.orelse and isinstance(lp.body[0], ast.Expr) and isinstance(lp.body[0].value, ast.Call) and isinstance(lp.body[0].value.func, ast.Attribute) \
        and lp.body[0].value.func.attr == 'append' and isinstance(lp.body[0].value.func.value, ast.Name) and len(lp.body[0].value.args) == 1 and not lp.body[0].value.keywords
    ctx.need(ok, f'{qn}: task list construction not recognised (loop body is not a single `<list>.append(<task>)`)')
    app = lp.body[0].value  # type: ignore[attr-defined]
    tname = app.func.value.id
    inits = [st for st in fn.body if ((isinstance(st, ast.Assign) and len(st.targets) == 1 and isinstance(st.targets[0], ast.Name) and st.targets[0].id == tname)
                                      or (isinstance(st, ast.AnnAssign) and isinstance(st.target, ast.Name) and st.target.id == tname and st.value is not None))]
    ctx.need(len(inits) == 1 and ((isinstance(inits[0].value, ast.List) and not inits[0].value.elts) or (isinstance(inits[0].value, ast.Call) and pf.dotted(inits[0].value.func) == 'list'
                                                                                                         and not inits[0].value.args)) and fn.body.index(inits[0]) < fn.body.index(lp),
             f'{qn}: `{tname}` is not initialised to an empty list ahead of the loop that fills it')
    comp = ast.copy_location(ast.ListComp(elt=app.args[0], generators=[ast.comprehension(target=lp.target, iter=lp.iter, ifs=[], is_async=0)]), lp)
    ast.fix_missing_locations(comp)
    return lp, comp, tname, app


def _r3(ctx: Ctx, m: pf.Module) -> Dict[str, str]:
    tasks_name: Dict[str, str] = {}
    for qn in (GR, GE):
        fn = m.func(qn)
        vararg = fn.args.vararg.arg if fn.args.vararg else None
        ctx.need(vararg is not None, f'{qn}: no *pfs parameter')
        wrappers = {nd.name for nd in _nested_defs(fn)}
        st, comp, tname, app = _task_list(ctx, fn, qn, vararg)
        tasks_name[qn] = tname
        cons = f'{F}::{qn}::task list'
        shown = pf.nsrc(st)[:160]
        gens = comp.generators if isinstance(comp, (ast.ListComp, ast.GeneratorExp, ast.SetComp)) else []
        ok = isinstance(comp, ast.ListComp) and len(gens) == 1 and not gens[0].ifs and not gens[0].is_async \
            and isinstance(gens[0].iter, ast.Name) and gens[0].iter.id == vararg and isinstance(gens[0].target, ast.Name)
        if ok:
            v = gens[0].target.id  # type: ignore[union-attr]
            e = comp.elt  # type: ignore[union-attr]
            ok = isinstance(e, ast.Call) and pf.dotted(e.func) in TASK_MAKERS and len(e.args) == 1 \
                and isinstance(e.args[0], ast.Call) and pf.dotted(e.args[0].func) in wrappers and [pf.nsrc(x) for x in e.args[0].args] == [v] and not e.args[0].keywords
        if ok:
            ctx.ok('R3', cons, f'`{shown}`: one task per partial function, in submission order')
        else:
            # positive evidence that the order / the one-to-one correspondence is lost: a set, a filter, a re-ordering of *pfs
            unordered = isinstance(comp, ast.SetComp) or (isinstance(comp, ast.Call) and pf.dotted(comp.func) in UNORDERED) \
                or any(isinstance(c, ast.Call) and pf.dotted(c.func) in UNORDERED and any(isinstance(x, ast.Name) and x.id == vararg for x in ast.walk(c)) for c in ast.walk(comp))
            filtered = any(g.ifs for g in gens)
            if unordered or filtered:
                ctx.bad('R3', cons, f'`{shown}` is not `[asyncio.create_task(<wrapper>(pf)) for pf in {vararg}]`: the tasks are '
                        + ('kept in / taken from an unordered or re-ordered collection' if unordered else 'filtered') + ', so results are not one per partial function in submission order',
                        m.path, st.lineno)
            else:
                direct = isinstance(comp, ast.ListComp) and isinstance(comp.elt, ast.Call) and pf.dotted(comp.elt.func) in TASK_MAKERS and len(comp.elt.args) == 1 \
                    and isinstance(comp.elt.args[0], ast.Call) and isinstance(comp.elt.args[0].func, ast.Name) and len(gens) == 1 and isinstance(gens[0].target, ast.Name) \
                    and comp.elt.args[0].func.id == gens[0].target.id
                # `create_task(pf())`: the partial function itself is the task - order is kept, the missing slot is R1's business
                ctx.need(direct, f'{qn}: `{shown}` is not recognised as one task per partial function in submission order')
                ctx.ok('R3', cons, f'`{shown}`: one task per partial function, in submission order (not wrapped)')
        n_defs = len(pf.assignments(fn).get(tname, []))
        ctx.need(n_defs == 1, f'{qn}: `{tname}` is re-bound')
        muts = [c for c in ast.walk(fn) if isinstance(c, ast.Call) and isinstance(c.func, ast.Attribute) and pf.nsrc(c.func.value) == tname and c is not app
                and c.func.attr in ('sort', 'reverse', 'append', 'insert', 'pop', 'remove', 'extend', 'clear')]
        ctx.need(not muts, f'{qn}: `{tname}` is mutated by `{pf.nsrc(muts[0])}`' if muts else '')
        rets = [r for r in _own_nodes(fn) if isinstance(r, ast.Return)]
        ctx.need(rets, f'{qn}: no return')
        nret = 0
        for r in rets:
            nret += 1
            cons = f'{F}::{qn}::result' + (f'#{nret}' if nret > 1 else '')
            v = _res(fn, r.value) if r.value is not None else None
            g = v.value if isinstance(v, ast.Await) and isinstance(v.value, ast.Call) and pf.dotted(v.value.func) == 'asyncio.gather' else None
            if g is not None and not g.keywords and [pf.nsrc(x) for x in g.args] == [f'*{tname}']:
                ctx.ok('R3', cons, f'`{pf.nsrc(r)}` is `await asyncio.gather(*{tname})`')
                continue
            why = None
            if g is not None:
                kw = {k.arg: k.value for k in g.keywords}
                rex = kw.get('return_exceptions')
                if rex is not None and not (isinstance(rex, ast.Constant) and not rex.value):
                    why = f'passes return_exceptions={pf.nsrc(rex)} to asyncio.gather: exceptions are returned among the results instead of the first one being raised / the pairs being returned'
                elif any(isinstance(c, ast.Call) and pf.dotted(c.func) in UNORDERED for x in g.args for c in ast.walk(x)):
                    why = 'gathers a re-ordered collection of the tasks'
            elif v is not None:
                # results collected from `asyncio.wait` / `as_completed`: completion order, not submission order
                srcs = list(ast.walk(v))
                for n in ast.walk(v):
                    if isinstance(n, ast.Name):
                        for d in pf.assignments(fn).get(n.id, []):
                            if isinstance(d, ast.AST):
                                srcs += list(ast.walk(d))
                if any(isinstance(c, ast.Call) and pf.dotted(c.func) in ('asyncio.wait', 'asyncio.as_completed') for c in srcs):
                    why = 'builds the result from the done-set of asyncio.wait / as_completed: completion order, not submission order'
            ctx.need(why is not None, f'{qn}: `{pf.nsrc(r)[:100]}` is not recognised as returning the gathered task results')
            ctx.bad('R3', cons, f'`{pf.nsrc(r)[:120]}` does not return `await asyncio.gather(*{tname})`: it {why}', m.path, r.lineno)
    # forwarding
    g2 = m.func(G2)
    g2p = [a.arg for a in g2.args.args]
    g2v = g2.args.vararg.arg if g2.args.vararg else None
    ctx.need(len(g2p) == 1 and g2v is not None, f'{G2}: parameters changed')
    calls = [c for c in _own_nodes(g2) if isinstance(c, ast.Call) and pf.dotted(c.func) in (GR, GE)]
    ctx.need({pf.dotted(c.func) for c in calls} == {GR, GE}, f'{G2}: expected calls of both {GR} and {GE}')
    cfg = pf.cfg(g2)
    FLAG, REX = 'cancel_on_error', 'return_exceptions'
    ctx.need(FLAG in [a.arg for a in g2.args.kwonlyargs + g2.args.args] and REX in [a.arg for a in g2.args.kwonlyargs + g2.args.args], f'{G2}: flags renamed')
    ctx.need(len(pf.assignments(g2).get(FLAG, [])) == 1 and len(pf.assignments(g2).get(REX, [])) == 1, f'{G2}: a flag is re-assigned')

    seen: Dict[str, int] = {}
    for c in calls:
        nm = pf.dotted(c.func)
        seen[nm] = seen.get(nm, 0) + 1
        cons = f'{F}::{G2}::{nm}(...)' + (f'#{seen[nm]}' if seen[nm] > 1 else '')
        host = [n for n in cfg.nodes if n.ast is not None and any(x is c for e in pf.node_exprs(n) for x in ast.walk(e))]
        ctx.need(len(host) == 1, f'{G2}: call `{pf.nsrc(c)}` not located in the CFG')
        # (which semaphore is handed on is the business of R7 / R8)
        ctx.need(len(c.args) == 2 and not isinstance(c.args[0], ast.Starred) and pf.nsrc(c.args[1]) == f'*{g2v}' and all(k.arg is not None for k in c.keywords),
                 f'{G2}: `{pf.nsrc(c)[:100]}` does not pass (<semaphore>, *{g2v}) in a recognised form')
        kw = {k.arg: pf.nsrc(pf.expand_locals(g2, k.value)) for k in c.keywords}
        ctx.need(set(kw) <= {FLAG}, f'{G2}: `{pf.nsrc(c)[:100]}` passes unknown keywords')
        if nm == GE:
            ctx.need(not kw, f'{G2}: `{pf.nsrc(c)[:100]}` passes {FLAG} to {GE}')
            ctx.ok('R3', cons, 'forwards the semaphore and *pfs')
            continue
        const_false = kw.get(FLAG, 'False') == 'False'
        if kw.get(FLAG) in (FLAG, f'bool({FLAG})') or (const_false and _every_path_forces(cfg, host[0], _sem_truthy([FLAG]), False, g2)) \
                or (kw.get(FLAG) == 'True' and _every_path_forces(cfg, host[0], _sem_truthy([FLAG]), True, g2)):
            ctx.ok('R3', cons, 'forwards the semaphore, *pfs and cancel_on_error')
        elif const_false or kw.get(FLAG) == 'True' or kw.get(FLAG) == f'not {FLAG}':
            ctx.bad('R3', cons, f'`{pf.nsrc(c)}` does not forward ({g2p[0]}, *{g2v}) and the cancel_on_error flag unchanged: the callee sees '
                    f'{FLAG}={kw.get(FLAG, "False (its default)")} whatever the caller asked for', m.path, c.lineno)
        else:
            raise AnalysisError(f'{G2}: `{pf.nsrc(c)[:100]}`: the value passed as {FLAG} is not understood')
    # dispatch on return_exceptions
    ge_nodes = af.stmt_nodes(cfg, lambda n: af.node_is_call(n, GE) is not None)
    gr_nodes = af.stmt_nodes(cfg, lambda n: af.node_is_call(n, GR) is not None)
    ctx.need(len(ge_nodes) >= 1 and len(gr_nodes) >= 1, f'{G2}: delegations not found in the CFG')
    sem = _sem_truthy([REX])
    right = all(_every_path_forces(cfg, x, sem, True, g2) for x in ge_nodes) and all(_every_path_forces(cfg, x, sem, False, g2) for x in gr_nodes)
    wrong = any(_every_path_forces(cfg, x, sem, False, g2) for x in ge_nodes) or any(_every_path_forces(cfg, x, sem, True, g2) for x in gr_nodes)
    unguarded = not any(t.kind == 'test' and af.mentions(_xt(g2, t.ast), REX) for t in cfg.nodes)
    ctx.need(right or wrong or unguarded, f'{G2}: how {REX} selects between {GE} and {GR} is not understood')
    ctx.check(right, 'R3', f'{F}::{G2}::dispatch', 'bounded_gather2 does not select the return-exceptions variant iff return_exceptions is true'
              + (' (no test looks at the flag)' if unguarded else ' (the variants are selected the other way round)'), m.path, g2.lineno)
    g1 = m.func(G1)
    g1v = g1.args.vararg.arg if g1.args.vararg else None
    calls = [c for c in _own_nodes(g1) if isinstance(c, ast.Call) and pf.dotted(c.func) == G2]
    ctx.need(len(calls) >= 1 and g1v is not None, f'{G1}: expected a call of {G2}')
    for i, c in enumerate(calls):
        cons = f'{F}::{G1}::{G2}(...)' + (f'#{i + 1}' if i else '')
        ctx.need(len(c.args) == 2 and pf.nsrc(c.args[1]) == f'*{g1v}' and all(k.arg is not None for k in c.keywords), f'{G1}: `{pf.nsrc(c)[:100]}` does not pass (<semaphore>, *{g1v}) in a recognised form')
        kw = {k.arg: pf.nsrc(pf.expand_locals(g1, k.value)) for k in c.keywords}
        ok = kw == {REX: REX, FLAG: FLAG}
        if not ok:
            # evidence: a flag the caller may set is not handed on at all, or is replaced by a constant
            lost = [f for f in (REX, FLAG) if f not in kw or kw[f] in ('True', 'False', 'None')]
            ctx.need(bool(lost) and set(kw) <= {REX, FLAG}, f'{G1}: `{pf.nsrc(c)[:100]}`: the flags handed on are not understood ({kw})')
        ctx.check(ok, 'R3', cons, f'`{pf.nsrc(c)}` does not forward *{g1v}, return_exceptions and cancel_on_error unchanged', m.path, c.lineno)
    return tasks_name


# ------------------------------------------------------------------------------------------------
# R4
# ------------------------------------------------------------------------------------------------


def _exc_names(block: Sequence[ast.stmt]) -> Set[str]:
    """Names bound to the in-flight exception via `_, exc, _ = sys.exc_info()` / `exc = sys.exc_info()[1]`."""
    out: Set[str] = set()
    for st in block:
        for n in ast.walk(st):
            if isinstance(n, ast.Assign) and len(n.targets) == 1:
                t, v = n.targets[0], n.value
                if isinstance(v, ast.Call) and pf.dotted(v.func) == 'sys.exc_info' and isinstance(t, ast.Tuple) and len(t.elts) == 3 and isinstance(t.elts[1], ast.Name):
                    out.add(t.elts[1].id)
                if isinstance(v, ast.Subscript) and isinstance(v.value, ast.Call) and pf.dotted(v.value.func) == 'sys.exc_info' and pf.nsrc(v.slice) == '1' \
                        and isinstance(t, ast.Name):
                    out.add(t.id)
    return out


def _sub_cfg(block: Sequence[ast.stmt]) -> pf.CFG:
    fn = ast.AsyncFunctionDef(name='_block', args=ast.arguments(posonlyargs=[], args=[], kwonlyargs=[], kw_defaults=[], defaults=[]),
                              body=list(block), decorator_list=[], returns=None, type_comment=None, lineno=getattr(block[0], 'lineno', 0), col_offset=0)
    return pf.CFG(fn)  # type: ignore[arg-type]


def _iteration_paths(cfg: pf.CFG, H: pf.Node, body_nodes: Set[int], limit: int = 4000):
    """Acyclic paths from the loop header (through its T edge) until the header is reached again or the loop body is left.
    Yields (path of (node, label taken out of it), end_node)."""
    out = []
    stack = [([(H, 'T')], m) for m, lab in H.succ if lab == 'T']
    while stack:
        path, n = stack.pop()
        if len(out) > limit:
            raise AnalysisError('too many paths through the loop body')
        if n is H or n.id not in body_nodes:
            out.append((path, n))
            continue
        if any(n is p for p, _ in path):
            raise AnalysisError('inner loop in the clean-up loop (not analysed)')
        for mnode, lab in n.succ:
            stack.append((path + [(n, lab)], mnode))
    return out


def _loop_verdict(cfg: pf.CFG, loop: ast.For, vars_: Set[str]):
    """For a clean-up loop: (early exits, iteration paths that provably neither cancel nor establish done, iteration paths that are not understood).
    A path is evidence only when every test on it speaks about `<task>.done()` / `<task>.cancelled()` alone; a path through any other test is 'not understood'."""
    from engines import absdom
    H = [n for n in cfg.nodes if n.kind == 'loop' and n.ast is loop][0]
    inside = {id(x) for s in loop.body for x in ast.walk(s)}
    body_nodes = {n.id for n in cfg.nodes if n.ast is not None and id(n.ast) in inside}
    early = []
    uncancelled = []
    unclear = []
    done_sem = _sem_truthy([f'{v}.done()' for v in vars_])
    known = {f'{v}.{meth}()' for v in vars_ for meth in ('done', 'cancelled')}
    for path, end in _iteration_paths(cfg, H, body_nodes):
        cancels = any(any(pf.dotted(c.func) in {f'{v}.cancel' for v in vars_} for c in pf.node_calls(n)) for n, _ in path[1:])
        tests = [(_xt(cfg.fn, n.ast), lab) for n, lab in path[1:] if n.kind == 'test' and lab in ('T', 'F')]
        done = any(_forces(t, lab, done_sem) is True for t, lab in tests)
        understood = all(absdom.atom_key(x) in known for t, _ in tests for x in absdom.bool_atoms(t))
        if end is H:
            if not (cancels or done):
                (uncancelled if understood else unclear).append(path)
        else:
            last = path[-1][0]
            early.append((last, end, cancels or done))
    return early, uncancelled, unclear


def _exit_kind(last: pf.Node) -> str:
    return {'raise': 'raise', 'return': 'return'}.get(last.kind, 'break' if isinstance(last.ast, ast.Break) else last.kind)


def _pair(fn: pf.FuncDef, r: ast.Return) -> Optional[Tuple[ast.AST, ast.AST]]:
    """The two components of a returned pair (`return a, b` or a local bound once to a pair), each followed through locals."""
    v = _res(fn, r.value) if r.value is not None else None
    if isinstance(v, ast.Tuple) and len(v.elts) == 2:
        return _res(fn, v.elts[0]), _res(fn, v.elts[1])
    return None


def _is_none(e: ast.AST) -> bool:
    return isinstance(e, ast.Constant) and e.value is None


def _r4(ctx: Ctx, m: pf.Module, tasks_name: Dict[str, str]) -> None:
    # (a) return_exceptions wrapper
    ge = m.func(GE)
    wrappers = _nested_defs(ge)
    ctx.need(len(wrappers) == 1, f'{GE}: expected one wrapper coroutine')
    w = wrappers[0]
    body = af.body_no_doc(w)
    ctx.need(len(body) == 1 and isinstance(body[0], ast.Try) and not body[0].finalbody and not body[0].orelse, f'{GE}.{w.name}: body is not a single try/except')
    tr = body[0]
    qn = f'{GE}.{w.name}'

    def htypes(h: ast.ExceptHandler) -> List[Optional[str]]:
        return ['BaseException'] if h.type is None else [pf.dotted(x) for x in (h.type.elts if isinstance(h.type, ast.Tuple) else [h.type])]
    ctx.need(all(t is not None for h in tr.handlers for t in htypes(h)), f'{qn}: handler type not resolved')
    first_all = next((i for i, h in enumerate(tr.handlers) if 'BaseException' in htypes(h)), None)
    cons = f'{F}::{qn}::catch-all'
    if first_all is None:
        caught = ', '.join(str(t) for h in tr.handlers for t in htypes(h))
        ctx.bad('R4', cons, f'the wrapper catches only `{caught}`, there is no catch-all handler: '
                'an exception (e.g. CancelledError, KeyboardInterrupt subclasses of BaseException) escapes the task, asyncio.gather raises it and the other results are lost '
                'instead of every exception being returned in place', m.path, tr.lineno)
        af.blocked(ctx, 'R4', 'R4')
    else:
        verdicts = []
        for h in tr.handlers[:first_all + 1]:
            en = _exc_names(h.body) | ({h.name} if h.name else set())
            rets = [r for s in h.body for r in ast.walk(s) if isinstance(r, ast.Return)]
            hcfg = _sub_cfg(h.body)
            falls = hcfg.path_avoiding(hcfg.entry, lambda n: n is hcfg.exit, lambda n: n.kind in ('return', 'raise')) is not None
            raises = any(isinstance(r, ast.Raise) for s in h.body for r in ast.walk(s))
            pairs = [_pair(w, r) for r in rets]
            good = bool(rets) and not falls and not raises and all(p is not None and _is_none(p[0]) and isinstance(p[1], ast.Name) and p[1].id in en for p in pairs)
            # evidence of a failure that is not reported in place: the handler re-raises, falls off its end, or returns the pair the wrong way round / without the exception
            wrong = falls or raises or any(p is not None and ((isinstance(p[0], ast.Name) and p[0].id in en) or (_is_none(p[0]) and _is_none(p[1]))) for p in pairs) \
                or any(r.value is None or _is_none(r.value) for r in rets)
            verdicts.append((h, good, wrong))
        ctx.need(all(g or wr for _, g, wr in verdicts), f'{qn}: what a handler returns is not recognised as the pair (None, <the exception>)')
        badh = next((h for h, g, wr in verdicts if not g), None)
        ctx.check(badh is None, 'R4', cons, 'the catch-all handler does not return (None, <the exception>) on every path: a failure is not reported in place', m.path,
                  (badh or tr.handlers[first_all]).lineno)
        rets = [r for s in tr.body for r in ast.walk(s) if isinstance(r, ast.Return)]
        ctx.need(len(rets) >= 1, f'{qn}: the try body does not return')
        pairs = [_pair(w, r) for r in rets]
        oks = all(p is not None and _is_none(p[1]) and isinstance(p[0], ast.Await) for p in pairs)
        wrongs = any(p is not None and _is_none(p[0]) for p in pairs)
        ctx.need(oks or wrongs, f'{qn}: what the wrapper returns on success is not recognised as the pair (await pf(), None)')
        ctx.check(oks, 'R4', f'{F}::{qn}::success pair', 'the wrapper does not return (await pf(), None) on success: value/exception positions disagree with the failure pair',
                  m.path, tr.lineno)

    # (b) cancel_on_error finally
    gr = m.func(GR)
    # (c) the raise-exceptions wrapper lets the failure of a partial function out of its task
    for wfn in _nested_defs(gr):
        ups = {a.arg for a in wfn.args.args}
        for c in ast.walk(wfn):
            if not (isinstance(c, ast.Call) and isinstance(c.func, ast.Name) and c.func.id in ups):
                continue
            cons = f'{F}::{GR}.{wfn.name}::propagates the failure'
            swallow = None
            cur: ast.AST = c
            parents = m.parents()
            while cur is not wfn:
                p = parents[cur]
                if isinstance(p, ast.Try) and any(cur is s for s in p.body):
                    for h in p.handlers:
                        hc = _sub_cfg(h.body)
                        if hc.path_avoiding(hc.entry, lambda n: n is hc.exit, lambda n: n.kind == 'raise') is not None or \
                                any(isinstance(r, ast.Return) for s2 in h.body for r in ast.walk(s2)):
                            ts = ['BaseException'] if h.type is None else [pf.dotted(x) for x in (h.type.elts if isinstance(h.type, ast.Tuple) else [h.type])]
                            ctx.need(any(t in ('BaseException', 'Exception') for t in ts), f'{GR}.{wfn.name}: `except {pf.nsrc(h.type) if h.type is not None else ""}` can complete without re-raising; '
                                     f'whether it catches the failure of a partial function is not decided')
                            swallow = h
                cur = p
            ctx.check(swallow is None, 'R4', cons,
                      f'`except {pf.nsrc(swallow.type) if swallow is not None and swallow.type is not None else ""}` around `{pf.nsrc(c)}` can complete without re-raising: the task '
                      f'finishes normally, asyncio.gather sees no failure, and bounded_gather2(..., return_exceptions=False) returns a placeholder instead of raising the first exception',
                      m.path, swallow.lineno if swallow is not None else c.lineno)
    tname = tasks_name[GR]
    FLAG = 'cancel_on_error'
    tries = [t for t in _own_nodes(gr) if isinstance(t, ast.Try)]
    consf = f'{F}::{GR}::finally'

    def is_gather(a: ast.AST) -> bool:
        return isinstance(a, ast.Await) and pf.call_name(a) == 'asyncio.gather'
    around = [t for t in tries if any(is_gather(a) for s in t.body for a in ast.walk(s))]
    gather_in_try = [t for t in around if t.finalbody]
    if not gather_in_try:
        # the clean-up written as an exception handler: it must see everything that can end the gather, a cancellation of the caller included
        for t in around:
            for h in t.handlers:
                if any(isinstance(c, ast.Call) and isinstance(c.func, ast.Attribute) and c.func.attr == 'cancel' for s2 in h.body for c in ast.walk(s2)):
                    ts = ['BaseException'] if h.type is None else [pf.dotted(x) for x in (h.type.elts if isinstance(h.type, ast.Tuple) else [h.type])]
                    if all(x is not None for x in ts) and 'BaseException' not in ts and not any((x or '').endswith('CancelledError') for x in ts) and len(t.handlers) == 1:
                        ctx.bad('R4', consf + '::runs on error', f'the tasks are cancelled and awaited in `except {", ".join(str(x) for x in ts)}` only: asyncio.CancelledError (a BaseException) '
                                f'thrown into `await asyncio.gather(...)` when the caller itself is cancelled - e.g. by an enclosing cancel_on_error gather or OnlineBoundedGather2 shutdown - '
                                f'bypasses the handler, so every task keeps running after bounded_gather2 has been left', m.path, h.lineno)
                        af.blocked(ctx, 'R4', 'R4')
                        return
        cancels_somewhere = any(isinstance(c, ast.Call) and isinstance(c.func, ast.Attribute) and c.func.attr == 'cancel' for c in ast.walk(gr))
        ctx.need(not around and not cancels_somewhere, f'{GR}: the gather is not inside a try/finally, but the function handles exceptions / cancels tasks in a form that is not recognised')
        ctx.bad('R4', consf, 'no try/finally encloses the gather: with cancel_on_error=True the unfinished tasks are neither cancelled nor awaited when one fails',
                m.path, gr.lineno)
        af.blocked(ctx, 'R4', 'R4')
        return
    ctx.need(len(gather_in_try) == 1 and len(around) == 1 and not gather_in_try[0].handlers, f'{GR}: several try blocks / exception handlers around gather')
    tr = gather_in_try[0]
    # the non-cancelling gather must be reached only when cancel_on_error is false
    cfg_full = pf.cfg(gr)
    in_try = {id(x) for s2 in tr.body + tr.finalbody for x in ast.walk(s2)}
    reach = cfg_full.reachable_from(cfg_full.entry)
    plain = [n for n in cfg_full.nodes if n.ast is not None and n.id in reach and n.kind in ('stmt', 'return') and id(n.ast) not in in_try
             and any(is_gather(a) for a in pf.walk_shallow(n.ast))]
    sem = _sem_truthy([FLAG])
    ctx.need(len(pf.assignments(gr).get(FLAG, [])) == 1, f'{GR}: {FLAG} is re-assigned')
    consg = f'{F}::{GR}::cancel_on_error selects the try/finally'
    if all(_every_path_forces(cfg_full, n, sem, False, gr) for n in plain):
        ctx.ok('R4', consg, f'{len(plain)} gather(s) outside the try/finally, reached only when cancel_on_error is false')
    else:
        culprit = next(n for n in plain if not _every_path_forces(cfg_full, n, sem, False, gr))

        def says_nothing_or_true(a: pf.Node, lab: str) -> bool:
            return not (a.kind == 'test' and lab in ('T', 'F') and af.mentions(_xt(gr, a.ast), FLAG) and _forces(_xt(gr, a.ast), lab, sem) is not True)
        # evidence: a path to the plain gather on which every test of the flag (if any) has found it true
        wit = cfg_full.path_avoiding(cfg_full.entry, lambda n: n is culprit, lambda n: False, edge_ok=lambda a, b, lab: says_nothing_or_true(a, lab))
        ctx.need(wit is not None, f'{GR}: whether `{culprit.text()}` (outside the try/finally) can be reached with cancel_on_error true is not decided')
        ctx.bad('R4', consg, 'a path with cancel_on_error true returns the gather outside the try/finally: nothing is cancelled on error although asked to', m.path, culprit.lineno)

    fb = tr.finalbody
    en = _exc_names(fb)
    cfg = _sub_cfg(fb)
    loops = [n for s in fb for n in ast.walk(s) if isinstance(n, ast.For) and pf.nsrc(n.iter) == tname and isinstance(n.target, ast.Name)]
    if len(loops) != 1:
        ctx.need(not loops, f'{GR}: several loops over `{tname}` in the finally block')
        other = any(isinstance(n, (ast.For, ast.While, ast.ListComp, ast.GeneratorExp)) or (isinstance(n, ast.Call) and isinstance(n.func, ast.Attribute) and n.func.attr == 'cancel')
                    for s in fb for n in ast.walk(s))
        ctx.need(not other, f'{GR}: the finally block cancels / iterates in a form that is not recognised')
        ctx.bad('R4', consf + '::cancel loop', f'the finally block has no loop over `{tname}`: unfinished tasks are not cancelled on error', m.path, tr.lineno)
        af.blocked(ctx, 'R4', 'R4')
        return
    loop = loops[0]
    H = [n for n in cfg.nodes if n.kind == 'loop' and n.ast is loop][0]
    var = loop.target.id  # type: ignore[union-attr]
    # b1: reached on the exceptional path
    ctx.need(bool(en) or not any(t.kind == 'test' and cfg.dominated_by(H, lambda n, t=t: n is t) for t in cfg.nodes), f'{GR}: the in-flight exception is not read through sys.exc_info() in the finally block')
    esem = _sem_truthy(sorted(en) + ['sys.exc_info()[1]'])
    ok_reach = True
    why = ''
    for t in cfg.nodes:
        if t.kind != 'test' or not cfg.dominated_by(H, lambda n, t=t: n is t):
            continue
        labs = [lab for lab in ('T', 'F') if af.every_path_uses_edge(cfg, H, t, lab)]
        if not labs:
            continue
        lab = labs[0]
        src = pf.nsrc(t.ast)
        forced = _forces(_xt(cfg.fn, t.ast), lab, esem)
        if forced is True:
            continue
        if forced is False:
            ok_reach = False
            why = f'the clean-up loop runs only when `{src}` is {"false" if lab == "F" else "true"}, i.e. when no exception is in flight'
            continue
        raise AnalysisError(f'{GR}: finally block reaches the cancel loop through unrecognised test `{src}`')
    ctx.check(ok_reach, 'R4', consf + '::runs on error', why + ': on error nothing is cancelled (and on success finished tasks are "cancelled")', m.path, loop.lineno)
    # b2: iteration paths
    early, uncancelled, unclear = _loop_verdict(cfg, loop, {var})
    kinds: Dict[str, int] = {}
    for last, end, _ in early:
        k = _exit_kind(last)
        kinds[k] = kinds.get(k, 0) + 1
        ctx.bad('R4', consf + f'::cancel loop left early by {k}' + (f'#{kinds[k]}' if kinds[k] > 1 else ''),
                f'`{last.text()}` leaves the clean-up loop at the first task that has already failed: the tasks after it in `{tname}` are neither cancelled nor awaited '
                f'and the final wait is skipped (asyncio.gather raises as soon as one task fails, so that task is done-with-exception whenever this block runs on an error): '
                f'work keeps running after bounded_gather2(..., cancel_on_error=True) has raised', m.path, last.lineno)
    if not early:
        ctx.ok('R4', consf + '::no early exit', 'every iteration returns to the loop header')
    if uncancelled:
        p = uncancelled[0]
        ctx.bad('R4', consf + '::cancels unfinished tasks', f'an iteration path ({" -> ".join(n.text() for n, _ in p[1:]) or "empty body"}) neither calls {var}.cancel() '
                f'nor has established {var}.done(): running tasks survive the error', m.path, loop.lineno)
    else:
        ctx.need(not unclear, f'{GR}: an iteration of the clean-up loop ({" -> ".join(n.text() for n, _ in unclear[0][1:]) if unclear else ""}) neither cancels the task nor tests '
                 f'{var}.done() in a recognised form')
        ctx.ok('R4', consf + '::cancels unfinished tasks', f'every iteration path calls {var}.cancel() or has tested {var}.done()')
    # b3: all tasks awaited after the loop
    def waits_all(a: ast.AST) -> bool:
        return isinstance(a, ast.Await) and isinstance(a.value, ast.Call) and (
            (pf.call_name(a) == 'asyncio.wait' and [pf.nsrc(_res(cfg.fn, x)) for x in a.value.args] == [tname] and not any(k.arg in ('timeout', 'return_when') for k in a.value.keywords))
            or (pf.call_name(a) == 'asyncio.gather' and [pf.nsrc(x) for x in a.value.args] == [f'*{tname}']
                and any(k.arg == 'return_exceptions' and pf.nsrc(k.value) == 'True' for k in a.value.keywords)))
    waits = [n for n in cfg.nodes if n.ast is not None and n.kind == 'stmt' and any(waits_all(a) for a in ast.walk(n.ast))]
    nsem = _sem_nonempty(tname)

    def empty_edge(a: pf.Node, lab: str) -> bool:
        return a.kind == 'test' and lab in ('T', 'F') and _forces(_xt(cfg.fn, a.ast), lab, nsem) is False
    skip = cfg.path_avoiding(H, lambda n: n is cfg.exit, lambda n: any(n is x for x in waits),
                             edge_ok=lambda a, b, lab: not empty_edge(a, lab) and not (a is H and lab == 'T'))
    if skip is not None:
        # evidence only when the path that skips the wait does not suspend at all (an await in a form that is not recognised may be the wait)
        after = cfg.reachable_from(H, edge_ok=lambda a, b, lab: not (a is H and lab == 'T'))
        others = [n for n in cfg.nodes if n.id in after and n is not H and n.ast is not None and pf.node_has_await(n) and not any(n is x for x in waits) and n.kind != 'with']
        on_path = [n for n in skip if n.ast is not None and pf.node_has_await(n) and n.kind != 'with']
        ctx.need(not on_path and not (others and not waits), f'{GR}: after the cancel loop `{(on_path or others)[0].text() if (on_path or others) else ""}` suspends in a form that is not recognised as '
                 f'waiting for all of `{tname}`')
    ctx.check(skip is None, 'R4', consf + '::awaits all tasks',
              f'after cancelling, some path leaves the finally block without `await asyncio.wait({tname})`: cancelled tasks are still running (their clean-up has not '
              f'finished) when bounded_gather2 raises', m.path, loop.lineno)


# ------------------------------------------------------------------------------------------------
# R10: cancellation is not deferred
# ------------------------------------------------------------------------------------------------


def _r10(ctx: Ctx, m: pf.Module, tasks_name: Dict[str, str]) -> None:
    """"cancel the remaining work when asked to": between the failure of `await asyncio.gather(*tasks)` and the cancel loop of the finally block
    nothing may wait for the semaphore or for the tasks themselves.  The semaphore is the caller's shared one; once it is saturated a waiter queues
    behind everybody else, and the tasks that ought to be cancelled run on (their own release() is what eventually lets the gather proceed)."""
    gr = m.func(GR)
    sema = gr.args.args[0].arg
    tname = tasks_name[GR]
    tries = [t for t in _own_nodes(gr) if isinstance(t, ast.Try) and t.finalbody]
    gather_in_try = [t for t in tries if any(isinstance(a, ast.Await) and pf.call_name(a) == 'asyncio.gather' for s in t.body for a in ast.walk(s))]
    loops = [n for t in gather_in_try for s in t.finalbody for n in ast.walk(s) if isinstance(n, ast.For) and pf.nsrc(n.iter) == tname]
    if len(gather_in_try) != 1 or len(loops) != 1:
        af.blocked(ctx, 'R4', 'R10')   # R4 has reported the missing try/finally / cancel loop
        return
    tr = gather_in_try[0]
    loop = loops[0]
    model = _WSModel(ctx, m)
    parents = m.parents()
    cfg_gr = pf.cfg(gr)
    gparams = {a.arg for a in list(gr.args.args) + list(gr.args.kwonlyargs)}

    def truth(call: ast.Call, e: ast.AST) -> Optional[bool]:
        # a flag handed on from a parameter of the gatherer: settled when every path to the site takes an edge that implies its value
        neg = isinstance(e, ast.UnaryOp) and isinstance(e.op, ast.Not)
        nm = e.operand if neg else e
        if not (isinstance(nm, ast.Name) and nm.id in gparams and len(pf.assignments(gr).get(nm.id, [])) == 1):
            return None
        hosts = [n for n in cfg_gr.node_of(call) if n.kind == 'with'] or cfg_gr.node_of(call)
        if len(hosts) != 1:
            return None
        for val in (True, False):
            if cfg_gr.path_avoiding(cfg_gr.entry, lambda n: n is hosts[0], lambda n: False,
                                    edge_ok=lambda a, b, lab, val=val: not (a.kind == 'test' and lab in ('T', 'F') and af.implied_on_edge(a.ast, lab, nm.id, val))) is None:
                return (not val) if neg else val
        return None
    model.truth = truth
    story = (f'the semaphore is the caller\'s shared one: when it is saturated (all slots busy and somebody queued - copy / rmtree / ls pass one semaphore through nested gathers) the slot '
             f'freed by the failing task goes to the next FIFO waiter and this coroutine queues behind it, so the tasks that ought to be cancelled keep running, typically to completion '
             f'(their own release() is what finally lets it proceed). Schedule: Semaphore(3), the caller holds one slot, bounded_gather2(sema, slow1, slow2, fail, cancel_on_error=True), '
             f'one unrelated coroutine waiting on the semaphore: `fail` raises at once, yet slow1 and slow2 are not cancelled until one of them has finished')
    # (i) what the exception passes on its way from the gather to the finally block
    gathers = [a for s in tr.body for a in ast.walk(s) if isinstance(a, ast.Await) and pf.call_name(a) == 'asyncio.gather']
    seen: Set[int] = set()
    for a in gathers:
        cur: ast.AST = a
        while cur is not tr:
            p = parents[cur]
            if isinstance(p, (ast.With, ast.AsyncWith)) and any(cur is x for x in p.body) and id(p) not in seen:
                seen.add(id(p))
                for it in p.items:
                    e = it.context_expr
                    cons = f'{F}::{GR}::a failure leaves `{"async " if isinstance(p, ast.AsyncWith) else ""}with {pf.nsrc(e)}` without waiting'
                    if isinstance(p, ast.AsyncWith) and isinstance(e, ast.Call) and pf.dotted(e.func) == WS:
                        v, cond = model.exit_acquires(e, exceptional=True)
                        flags = model.site_flags(e)
                        shown = ', '.join(f'{k.lstrip("_")}={v2}' for k, v2 in flags.items() if k != model.sem_attr.split('.')[-1])
                        ctx.need(v != 'may', f'{GR}: whether `async with {pf.nsrc(e)}` re-acquires the semaphore when it is left by an exception depends on `{cond}` with a value '
                                 f'that is not a constant at this site ({shown or "no flags"}): not decided')
                        ctx.check(v == 'never', 'R10', cons,
                                  f'when a partial function fails, `await asyncio.gather(*{tname})` raises inside `async with {pf.nsrc(e)}`; its __aexit__ (condition `{cond}`, at this site '
                                  f'{shown or "no flags"}{"" if e.keywords else " from the constructor default"}) {"awaits" if v == "always" else "may await"} `{model.sem_attr}.acquire()` BEFORE the '
                                  f'finally block cancels the unfinished tasks; {story}', m.path, p.lineno, detail={'exit_on_error': v})
                    elif pf.nsrc(e) == sema:
                        ctx.ok('R10', cons, 'leaving `async with <sema>` releases, it does not wait')
                    else:
                        raise AnalysisError(f'{GR}: the gather is inside `with {pf.nsrc(e)}`, whose exit on error is not modelled')
            elif isinstance(p, ast.Try) and p is not tr and any(cur is x for x in p.body):
                blocks = [h.body for h in p.handlers] + [p.finalbody]
                ctx.need(not any(pf.has_await(st) for b in blocks for st in b), f'{GR}: an inner try around the gather suspends in its handler / finally before the cancelling finally runs (not analysed)')
            cur = p
    if not seen:
        ctx.ok('R10', f'{F}::{GR}::a failure of the gather reaches the finally block directly', 'no context manager between the gather and the try/finally')
    # (ii) the finally block itself: nothing waits before the cancel loop
    cfg = _sub_cfg(tr.finalbody)
    H = [n for n in cfg.nodes if n.kind == 'loop' and n.ast is loop][0]
    before = cfg.reachable_from(cfg.entry, avoid=lambda n: n is H)
    cons2 = f'{F}::{GR}::finally::cancels before it waits'
    bad = None
    for n in cfg.nodes:
        if n is H or n.id not in before or n.ast is None or not pf.node_has_await(n) or H.id not in cfg.reachable_from(n):
            continue
        waits_on = None
        if n.kind == 'with' and isinstance(n.ast, ast.AsyncWith):
            for it in n.ast.items:
                e = it.context_expr
                if pf.nsrc(e) == sema:
                    waits_on = f'`async with {sema}` acquires a slot'
                elif isinstance(e, ast.Call) and pf.dotted(e.func) == WS:
                    if model.exit_acquires(e, exceptional=False)[0] != 'never':
                        waits_on = f'leaving `async with {pf.nsrc(e)}` re-acquires a slot'
                else:
                    raise AnalysisError(f'{GR}: `async with {pf.nsrc(e)}` in the finally block before the cancel loop (not analysed)')
        else:
            for aw in [x for x in pf.walk_shallow(n.ast) if isinstance(x, ast.Await)]:
                cn = pf.call_name(aw) or ''
                args = [pf.nsrc(x) for x in aw.value.args] if isinstance(aw.value, ast.Call) else []
                if cn == f'{sema}.acquire':
                    waits_on = f'`{pf.nsrc(aw)}` waits for a slot'
                elif cn in ('asyncio.wait', 'asyncio.gather') and any(tname in x for x in args) and not any(k.arg in ('timeout', None) for k in aw.value.keywords):  # type: ignore[attr-defined]
                    waits_on = f'`{pf.nsrc(aw)}` waits for the very tasks that are to be cancelled'
                else:
                    raise AnalysisError(f'{GR}: `{pf.nsrc(aw)}` suspends in the finally block before the cancel loop (not analysed)')
        if waits_on is not None and bad is None:
            bad = (n, waits_on)
    if bad is not None:
        ctx.bad('R10', cons2, f'in the finally block {bad[1]} before the loop that cancels the unfinished tasks: the remaining work is cancelled late or only after it has completed; '
                + (story if 'slot' in bad[1] else 'with cancel_on_error=True and one failing partial function the others run to completion before `cancel()` is called on them'),
                m.path, bad[0].lineno)
    else:
        ctx.ok('R10', cons2, 'no suspension point on the way from the entry of the finally block to the cancel loop')


# ------------------------------------------------------------------------------------------------
# R5
# ------------------------------------------------------------------------------------------------


def _r5(ctx: Ctx, m: pf.Module) -> None:
    A = _obg_attrs(ctx, m)
    PEND, EXC, EVT = A['pending'], A['exc'], A['event']
    pend_nonempty = _sem_nonempty(PEND)
    pend_none = _sem_none(PEND)
    exc_set = _sem_truthy([EXC])

    def mentions(fn: Optional[pf.FuncDef], test: ast.AST, text: str) -> bool:
        return af.mentions(_xt(fn, test), text)

    # __aexit__
    ex = m.func(f'{OBG}.__aexit__')
    cfg = pf.cfg(ex)
    whiles = [n for n in _own_nodes(ex) if isinstance(n, ast.While)]
    loops = [n for n in whiles if mentions(ex, n.test, PEND)]
    cons = f'{F}::{OBG}.__aexit__::leaves only when nothing is pending'
    no_loop = not loops
    if not loops:
        ifs = [n for n in _own_nodes(ex) if isinstance(n, ast.If) and mentions(ex, n.test, PEND)]
        ctx.need(bool(ifs) and not whiles and not any(isinstance(n, (ast.For, ast.AsyncFor)) for n in _own_nodes(ex)),
                 f'{OBG}.__aexit__: no `while` re-checks {PEND} and the way it waits is not recognised')
        ctx.bad('R5', cons, f'__aexit__ does not loop `while {PEND}`: _done_event.wait() also returns when the event was set and more tasks were submitted afterwards, '
                'so the context manager can exit (and raise) while background tasks are still running', m.path, ex.lineno)
        af.blocked(ctx, 'R5', 'R5')
    else:
        ctx.need(len(loops) == 1, f'{OBG}.__aexit__: several `while {PEND}` loops')
        Wn = af.test_node(cfg, loops[0].test)
        ctx.need(_forces(_xt(ex, loops[0].test), 'F', pend_nonempty) is False and not loops[0].orelse,
                 f'{OBG}.__aexit__: leaving `while {pf.nsrc(loops[0].test)}` is not recognised as "nothing is pending"')
        ctx.need(not any(isinstance(x, ast.Break) for s2 in loops[0].body for x in ast.walk(s2)), f'{OBG}.__aexit__: `break` inside the pending loop (not analysed)')

        def edge_ok(a: pf.Node, b: pf.Node, lab: str) -> bool:
            if a is Wn and lab == 'F':
                return False
            if isinstance(a.ast, ast.Assert) and b is cfg.raise_exit:
                return False
            return True
        leak = cfg.path_avoiding(cfg.entry, lambda n: n is cfg.exit or n is cfg.raise_exit, lambda n: False, edge_ok=edge_ok)
        after = [cfg.nodes[i] for i in cfg.reachable_from(Wn, edge_ok=lambda a, b, lab: not (a is Wn and lab == 'T'))]
        late = [x for x in after if x is not Wn and pf.node_has_await(x) and not af.direct(cfg, x, Wn)]
        ctx.check(leak is None and not late, 'R5', cons,
                  (f'a path leaves __aexit__ without passing the false edge of `while {PEND}`' + (f' (via `{leak[-2].text()}`)' if leak and len(leak) > 1 else ''))
                  if leak is not None else f'`{late[0].text() if late else ""}` suspends after the last pending-test: new tasks can be submitted before __aexit__ returns',
                  m.path, ex.lineno)
        # body of the loop waits for the event
        waits = [a for s in loops[0].body for a in ast.walk(s) if isinstance(a, ast.Await) and pf.call_name(a) == f'{EVT}.wait']
        if not waits:
            ctx.need(not any(isinstance(a, ast.Await) for s2 in loops[0].body for a in ast.walk(s2)), f'{OBG}.__aexit__: the pending loop suspends, but not in `await self._done_event.wait()` (not recognised)')
        ctx.check(bool(waits), 'R5', f'{F}::{OBG}.__aexit__::waits for the event', f'the `while {PEND}` loop does not await _done_event.wait(): it spins without yielding',
                  m.path, loops[0].lineno)
    # without an asyncio.Event the completion protocol is a different one: only a reported violation above lets the run end (exit 1); else not analysed
    if EVT is None:
        ctx.need(no_loop, f'{OBG}: no asyncio.Event attribute - the way completion is signalled is not recognised')
        return
    # raises the stored exception at the end
    raises = [n for n in cfg.nodes if n.kind == 'raise' and isinstance(n.ast, ast.Raise) and n.ast.exc is not None and pf.nsrc(_res(ex, n.ast.exc)) == EXC]
    consr = f'{F}::{OBG}.__aexit__::raises the first exception'
    okr = False
    if len(raises) >= 1:
        # the exit is reached only on an edge that says "no exception stored"; the raise only on one that says "stored"
        def stored_edge(a: pf.Node, lab: str, val: bool) -> bool:
            return a.kind == 'test' and lab in ('T', 'F') and _forces(_xt(ex, a.ast), lab, exc_set) is val
        silent = cfg.path_avoiding(cfg.entry, lambda n: n is cfg.exit, lambda n: False, edge_ok=lambda a, b, lab: not stored_edge(a, lab, False))
        okr = silent is None and all(cfg.path_avoiding(cfg.entry, lambda n, r=r: n is r, lambda n: False, edge_ok=lambda a, b, lab: not stored_edge(a, lab, True)) is None for r in raises)
    if not okr:
        reads = [x for x in _own_nodes(ex) if isinstance(x, ast.Attribute) and isinstance(x.ctx, ast.Load) and pf.nsrc(x) == EXC]
        other_raise = [n for n in cfg.nodes if n.kind == 'raise' and isinstance(n.ast, ast.Raise) and n.ast.exc is not None and not any(n is r for r in raises)]
        tested = [t for t in cfg.nodes if t.kind == 'test' and mentions(ex, t.ast, EXC) and af.direct(cfg, t, cfg.exit)]
        # evidence: the stored exception is never raised (no `raise self._exception` in any form), or the normal exit does not depend on it
        ctx.need(not raises and not other_raise and (not reads or not tested) or (bool(raises) and not [t for t in tested if any(af.direct(cfg, t, r) for r in raises)]),
                 f'{OBG}.__aexit__: how the stored exception is raised at the end is not recognised')
    ctx.check(okr, 'R5', consr, '__aexit__ does not end with `if self._exception: raise self._exception`: a failed '
              'background task goes unreported', m.path, ex.lineno)

    # first exception kept
    for qn in (f'{OBG}.__aexit__', f'{OBG}.call.run_and_cleanup'):
        fn = m.func(qn)
        c2 = pf.cfg(fn)
        wr = af.stmt_nodes(c2, lambda n: af.writes_attr(n, EXC))
        ctx.need(wr, f'{qn}: no write of {EXC}')
        nw: Dict[str, int] = {}
        for Wx in wr:
            role = 'stores the exception'
            nw[role] = nw.get(role, 0) + 1
            cons = f'{F}::{qn}::{role}' + (f'#{nw[role]}' if nw[role] > 1 else '')
            gs = [t for t in c2.nodes if t.kind == 'test' and mentions(fn, t.ast, EXC)]
            okg = False
            torn = False
            for t in gs:
                for lab in ('T', 'F'):
                    if af.every_path_uses_edge(c2, Wx, t, lab) and af.direct(c2, t, Wx, lab) and _forces(_xt(fn, t.ast), lab, exc_set) is False:
                        if not any(pf.node_has_await(x) for x in af.between(c2, t, Wx, lab)):
                            okg = True
                        else:
                            torn = True
            if not okg and not torn:
                # evidence only when no test of the stored exception can lie on the way to the write at all
                ctx.need(not any(af.direct(c2, t, Wx) for t in gs), f'{qn}: `{Wx.text()}` is preceded by a test of {EXC} that is not understood')
            ctx.check(okg, 'R5', cons, f'`{Wx.text()}`: the stored exception is overwritten without (atomically) testing that none is stored yet: a later exception replaces the first one, '
                      'which is the one __aexit__ must raise', m.path, Wx.lineno)

    # call registers
    call = m.func(f'{OBG}.call')
    c3 = pf.cfg(call)

    def pend_mutation(n: pf.Node, attrs: Sequence[str]) -> bool:
        return any(isinstance(c.func, ast.Attribute) and c.func.attr in attrs and pf.nsrc(c.func.value) == PEND for c in pf.node_calls(n))
    reg = af.stmt_nodes(c3, lambda n: n.kind == 'stmt' and isinstance(n.ast, ast.Assign) and any(isinstance(t, ast.Subscript) and pf.nsrc(t.value) == PEND for t in n.ast.targets))
    reg_other = af.stmt_nodes(c3, lambda n: pend_mutation(n, ('update', 'setdefault', '__setitem__')) or (isinstance(n.ast, (ast.Assign, ast.AugAssign)) and af.writes_attr(n, PEND)))
    clr = af.stmt_nodes(c3, lambda n: any(pf.dotted(c.func) == f'{EVT}.clear' for c in pf.node_calls(n)))
    rets = [n for n in c3.nodes if n.kind == 'return' and n.id in c3.reachable_from(c3.entry)]
    ctx.need(not reg_other and len(reg) <= 1 and len(rets) >= 1, f'{OBG}.call: {PEND} is written in a form that is not recognised')
    ok = len(reg) == 1 and all(c3.dominated_by(r, lambda n: n is reg[0]) for r in rets)
    if ok:
        v = reg[0].ast.value  # type: ignore[union-attr]
        tv = _res(call, v)
        ctx.need(isinstance(tv, ast.Call) and pf.dotted(tv.func) in TASK_MAKERS, f'{OBG}.call: what is stored in {PEND} is not recognised as the task just created')
        for r in rets:
            rv = _res(call, r.ast.value) if r.ast.value is not None else None  # type: ignore[union-attr]
            same = rv is tv or (r.ast.value is not None and pf.nsrc(r.ast.value) == pf.nsrc(v))  # type: ignore[union-attr]
            if not same:
                ctx.need(isinstance(rv, ast.Call) and pf.dotted(rv.func) in TASK_MAKERS, f'{OBG}.call: `{r.text()}` does not return the registered task in a recognised form')
                ok = False
    ctx.check(ok, 'R5', f'{F}::{OBG}.call::registers the task', 'call() returns a task that is not recorded in self._pending: __aexit__ does not wait for it', m.path, call.lineno)
    ctx.need(isinstance(call, ast.FunctionDef), f'{OBG}.call is a coroutine now: it may suspend between registering the task and clearing the event (not analysed)')
    okc = len(clr) >= 1 and all(c3.dominated_by(r, lambda n: any(n is x for x in clr)) for r in rets)
    if not okc and not clr:
        ctx.need(not any(isinstance(c, ast.Call) and isinstance(c.func, ast.Attribute) and c.func.attr == 'clear' for c in ast.walk(call)), f'{OBG}.call: an event is cleared in a form that is not recognised')
    ctx.check(okc, 'R5', f'{F}::{OBG}.call::clears the done event', 'call() does not clear _done_event (or may suspend before doing so): __aexit__/wait see "done" while the new '
              'task is pending', m.path, call.lineno)
    oks = len(reg) == 1 and _every_path_forces(c3, reg[0], pend_none, False, call) and \
        any(n.kind == 'raise' and _every_path_forces(c3, n, pend_none, True, call) for n in c3.nodes)
    if not oks:
        ctx.need(not any(t.kind == 'test' and mentions(call, t.ast, PEND) for t in c3.nodes), f'{OBG}.call: the test of {PEND} ahead of the registration is not understood')
    ctx.check(oks, 'R5', f'{F}::{OBG}.call::refuses after shutdown', 'call() does not raise when the pool is shut down (self._pending is None)', m.path, call.lineno)

    # run_and_cleanup deregisters
    rc = m.func(f'{OBG}.call.run_and_cleanup')
    c4 = pf.cfg(rc)
    dels = af.stmt_nodes(c4, lambda n: (isinstance(n.ast, ast.Delete) and any(isinstance(t, ast.Subscript) and pf.nsrc(t.value) == PEND for t in n.ast.targets))
                         or pend_mutation(n, ('pop',)))
    unknown_mut = af.stmt_nodes(c4, lambda n: pend_mutation(n, ('clear', 'popitem', 'update', 'setdefault')) or (isinstance(n.ast, (ast.Assign, ast.AugAssign)) and af.writes_attr(n, PEND)))
    ctx.need(not unknown_mut, f'{OBG}.call.run_and_cleanup: `{unknown_mut[0].text() if unknown_mut else ""}` changes {PEND} in a form that is not recognised')

    def gone_edge(a: pf.Node, lab: str) -> bool:  # the pool is shut down (or nothing is registered any more): nothing to deregister
        return a.kind == 'test' and lab in ('T', 'F') and (_forces(_xt(rc, a.ast), lab, pend_none) is True or _forces(_xt(rc, a.ast), lab, pend_nonempty) is False)
    leak = c4.path_avoiding(c4.entry, lambda n: n is c4.exit, lambda n: any(n is d for d in dels), edge_ok=lambda a, b, lab: not gone_edge(a, lab))
    if leak is not None:
        tests_on = [n for n, lab in _path_tests(leak) if mentions(rc, n.ast, PEND) and _forces(_xt(rc, n.ast), lab, pend_none) is None and _forces(_xt(rc, n.ast), lab, pend_nonempty) is None]
        ctx.need(not tests_on, f'{OBG}.call.run_and_cleanup: the test `{tests_on[0].text() if tests_on else ""}` on the way out is not understood')
    ctx.check(bool(dels) and leak is None, 'R5', f'{F}::{OBG}.call.run_and_cleanup::deregisters',
              'a finished background task can return without removing itself from self._pending (and the pool is not shut down): __aexit__ waits for ever'
              + (f' (via `{leak[-2].text()}`)' if leak and len(leak) > 1 else ''), m.path, rc.lineno)
    sets = af.stmt_nodes(c4, lambda n: any(pf.dotted(c.func) == f'{EVT}.set' for c in pf.node_calls(n)))
    emp = [(t, lab) for t in c4.nodes if t.kind == 'test' and t.id in c4.reachable_from(c4.entry) for lab in ('T', 'F')
           if _forces(_xt(rc, t.ast), lab, pend_nonempty) is False and _forces(_xt(rc, t.ast), lab, pend_none) is not True
           and c4.dominated_by(t, lambda n: any(n is d for d in dels))]
    conss = f'{F}::{OBG}.call.run_and_cleanup::signals done'
    if not sets:
        ctx.need(not any(isinstance(c, ast.Call) and isinstance(c.func, ast.Attribute) and c.func.attr == 'set' for c in ast.walk(rc)), f'{OBG}.call.run_and_cleanup: an event is set in a form that is not recognised')
        ctx.bad('R5', conss, 'the last finishing task does not set _done_event: __aexit__ never wakes up', m.path, rc.lineno)
    elif emp and dels:
        oke = all(af.must_pass(c4, t, lambda n: n is c4.exit, lambda n: any(n is s2 for s2 in sets), first_label=lab) is None for t, lab in emp)
        ctx.check(oke, 'R5', conss, 'the last finishing task does not set _done_event: __aexit__ never wakes up', m.path, rc.lineno)
    else:
        # no recognised "nothing pending" test: fine when the event is set on every way out after the deregistration
        always = bool(dels) and all(af.must_pass(c4, d, lambda n: n is c4.exit, lambda n: any(n is s2 for s2 in sets)) is None for d in dels)
        ctx.need(always, f'{OBG}.call.run_and_cleanup: the condition under which _done_event is set is not recognised')
        ctx.ok('R5', conss, 'the event is set on every way out after the deregistration')
    # catch-alls of the wrapper: CancelledError first (task cancellation is completion), then everything else triggers shutdown
    trs = [t for t in af.body_no_doc(rc) if isinstance(t, ast.Try)]
    ctx.need(len(trs) == 1, f'{OBG}.call.run_and_cleanup: expected one try')
    hs = trs[0].handlers

    def shuts(stmts: Sequence[ast.stmt]) -> bool:
        return any(isinstance(a, ast.Await) and any(pf.dotted(c.func) == 'self._shutdown' for c in ast.walk(a) if isinstance(c, ast.Call)) for s2 in stmts for a in ast.walk(s2))
    okh = len(hs) >= 2 and pf.dotted(hs[0].type) in ('asyncio.CancelledError', 'CancelledError') and (hs[-1].type is None or pf.dotted(hs[-1].type) == 'BaseException') and shuts(hs[-1].body)
    if not okh:
        anywhere = any(isinstance(c, ast.Call) and (pf.dotted(c.func) or '').endswith('_shutdown') for c in ast.walk(rc))
        ctx.need(not anywhere and bool(hs), f'{OBG}.call.run_and_cleanup: the handlers call _shutdown in a form that is not recognised')
    ctx.check(okh, 'R5', f'{F}::{OBG}.call.run_and_cleanup::failure shuts the pool down', 'a failing background task does not (through a catch-all handler) store the exception and '
              'await self._shutdown(): the remaining tasks are not cancelled', m.path, trs[0].lineno)

    # _shutdown
    sd = m.func(f'{OBG}._shutdown')
    c5 = pf.cfg(sd)
    loops = [n for n in _own_nodes(sd) if isinstance(n, ast.For) and af.mentions(n.iter, PEND)]
    ctx.need(len(loops) == 1, f'{OBG}._shutdown: expected one loop over {PEND}')
    lp = loops[0]
    vars_ = {x.id for x in ast.walk(lp.target) if isinstance(x, ast.Name)}
    early, uncancelled, unclear = _loop_verdict(c5, lp, vars_)
    kinds: Dict[str, int] = {}
    for last, end, _ in early:
        if last.kind == 'raise' and end is c5.raise_exit:
            ctx.info(f'{F}::{OBG}._shutdown: `{last.text()}` leaves the cancel loop early when a pending task is done with an exception; not counted as a violation because '
                     f'tasks in _pending run run_and_cleanup, which catches every exception and removes itself from _pending before finishing, so the branch is not reachable '
                     f'(same shape as the genuine defect in {GR})')
        else:
            k = _exit_kind(last)
            kinds[k] = kinds.get(k, 0) + 1
            ctx.bad('R5', f'{F}::{OBG}._shutdown::cancel loop left early by {k}' + (f'#{kinds[k]}' if kinds[k] > 1 else ''),
                    f'`{last.text()}` leaves the cancel loop early: the remaining pending tasks are not cancelled', m.path, last.lineno)
    if not uncancelled:
        ctx.need(not unclear, f'{OBG}._shutdown: an iteration of the cancel loop neither cancels the task nor tests done() in a recognised form')
    ctx.check(not uncancelled, 'R5', f'{F}::{OBG}._shutdown::cancels pending tasks',
              'an iteration path neither cancels the pending task nor has established that it is done: shutdown leaves tasks running', m.path, lp.lineno)
    Hn = [n for n in c5.nodes if n.kind == 'loop' and n.ast is lp][0]
    nones = af.stmt_nodes(c5, lambda n: isinstance(n.ast, ast.Assign) and pf.nsrc(n.ast.targets[0]) == PEND and pf.nsrc(n.ast.value) == 'None')
    other_w = af.stmt_nodes(c5, lambda n: af.writes_attr(n, PEND) and not any(n is x for x in nones))
    sets = af.stmt_nodes(c5, lambda n: any(pf.dotted(c.func) == f'{EVT}.set' for c in pf.node_calls(n)))
    ctx.need(not other_w, f'{OBG}._shutdown: `{other_w[0].text() if other_w else ""}` writes {PEND} in a form that is not recognised')
    if not sets:
        ctx.need(not any(isinstance(c, ast.Call) and isinstance(c.func, ast.Attribute) and c.func.attr == 'set' for c in ast.walk(sd)), f'{OBG}._shutdown: an event is set in a form that is not recognised')
    ok = bool(nones) and bool(sets) and af.must_pass(c5, Hn, lambda n: n is c5.exit, lambda n: any(n is x for x in nones), first_label='F') is None \
        and af.must_pass(c5, Hn, lambda n: n is c5.exit, lambda n: any(n is x for x in sets), first_label='F') is None
    # the cancelled tasks are awaited before the pool is reported done
    consw = f'{F}::{OBG}._shutdown::awaits the cancelled tasks'
    aws = [n for n in af.stmt_nodes(c5, pf.node_has_await) if any(isinstance(a, ast.Await) and pf.call_name(a) in ('asyncio.wait', 'asyncio.gather') for a in ast.walk(n.ast))]
    if aws:
        okw = bool(sets) and all(c5.dominated_by(sx, lambda n: any(n is a for a in aws) or (n.kind == 'test' and af.direct(c5, n, aws[0]))) for sx in sets) \
            and all(af.direct(c5, Hn, a, 'F') for a in aws)
        ctx.need(okw, f'{OBG}._shutdown: an await of the cancelled tasks exists but its position relative to the loop / _done_event.set() is not recognised')
        ctx.ok('R5', consw, 'awaited before _done_event.set()')
    else:
        ex_aw = [a for a in _own_nodes(m.func(f'{OBG}.__aexit__')) if isinstance(a, ast.Await) and pf.call_name(a) in ('asyncio.wait', 'asyncio.gather')]
        ctx.need(not ex_aw, f'{OBG}.__aexit__ awaits tasks itself (idiom not recognised)')
        ctx.need(not any(isinstance(a, ast.Await) for a in _own_nodes(sd)), f'{OBG}._shutdown suspends, but not in a recognised wait for the cancelled tasks')
        ctx.bad('R5', consw, '_shutdown cancels the pending tasks, sets self._pending = None and _done_event at once, but never awaits the cancelled tasks (it contains no await '
                'although its docstring says "wait for them to complete"): __aexit__ wakes up, finds `self._pending` falsy and raises while cancelled background tasks are '
                'still unwinding (their finally / async-with clean-up runs after the context manager has exited)', m.path, sd.lineno)
    ctx.check(ok, 'R5', f'{F}::{OBG}._shutdown::marks the pool shut down', '_shutdown does not set self._pending = None and _done_event after cancelling: call() keeps accepting '
              'tasks / __aexit__ never wakes up', m.path, sd.lineno)


# ------------------------------------------------------------------------------------------------
# R6
# ------------------------------------------------------------------------------------------------


class _WSModel:
    """WithoutSemaphore as the rules need it: which attribute holds the semaphore, which attributes hold constructor parameters (with their
    defaults), and the CFG of __aexit__ with its `await <sem>.acquire()` nodes."""

    def __init__(self, ctx: Ctx, m: pf.Module):
        cls = m.cls(WS)
        init = af.method(m, cls, '__init__')
        a = init.args
        ctx.need(len(a.args) >= 2 and not a.vararg and not a.kwarg and not a.posonlyargs, f'{WS}.__init__: parameters changed')
        self.init = init
        self.pos = [x.arg for x in a.args][1:]
        self.names = self.pos + [x.arg for x in a.kwonlyargs]
        self.defaults: Dict[str, ast.expr] = dict(zip(self.pos[len(self.pos) - len(a.defaults):], a.defaults))
        self.defaults.update({x.arg: d for x, d in zip(a.kwonlyargs, a.kw_defaults) if d is not None})
        self.attr_param: Dict[str, str] = {}
        stores: Dict[str, int] = {}
        for f in cls.body:
            if isinstance(f, (ast.FunctionDef, ast.AsyncFunctionDef)):
                for x in ast.walk(f):
                    if isinstance(x, ast.Attribute) and isinstance(x.ctx, (ast.Store, ast.Del)) and isinstance(x.value, ast.Name) and x.value.id == 'self':
                        stores[x.attr] = stores.get(x.attr, 0) + 1
        for st in af.body_no_doc(init):
            if isinstance(st, (ast.Assign, ast.AnnAssign)) and st.value is not None:
                t = st.targets[0] if isinstance(st, ast.Assign) else st.target
                if isinstance(t, ast.Attribute) and isinstance(t.value, ast.Name) and t.value.id == a.args[0].arg and isinstance(st.value, ast.Name) and st.value.id in self.names \
                        and stores.get(t.attr) == 1:
                    self.attr_param[t.attr] = st.value.id
        sem = [k for k, v in self.attr_param.items() if v == self.pos[0]]
        ctx.need(len(sem) == 1, f'{WS}.__init__ does not store the semaphore')
        self.sem_attr = f'self.{sem[0]}'
        self.ex = af.method(m, cls, '__aexit__')
        ctx.need(len(self.ex.args.args) == 4, f'{WS}.__aexit__: parameters changed')
        self.exc_params = [x.arg for x in self.ex.args.args][1:]
        self.cfg = pf.cfg(self.ex)
        self.acq = af.stmt_nodes(self.cfg, lambda n: any(isinstance(aw, ast.Await) and pf.call_name(aw) == f'{self.sem_attr}.acquire' for aw in ast.walk(n.ast)))
        self.truth = None   # optional: (call site, argument expression) -> Optional[bool]

    def site_flags(self, call: ast.Call) -> Dict[str, Optional[bool]]:
        """attribute -> truth value of the constructor argument stored in it at this call site (None = not a constant and not settled by
        self.truth, a callback  expression -> True / False / None  a rule may install to use the path condition of the site)."""
        bound: Dict[str, ast.expr] = dict(zip(self.pos, call.args))
        for k in call.keywords:
            if k.arg is not None:
                bound[k.arg] = k.value
        star = any(isinstance(x, ast.Starred) for x in call.args) or any(k.arg is None for k in call.keywords)
        out: Dict[str, Optional[bool]] = {}
        for attr, prm in self.attr_param.items():
            e = bound.get(prm, self.defaults.get(prm))
            out[attr] = bool(e.value) if (not star and isinstance(e, ast.Constant) and isinstance(e.value, (bool, int, type(None)))) else None
            if out[attr] is None and not star and e is not None and self.truth is not None:
                out[attr] = self.truth(call, e)
        return out

    def exit_acquires(self, call: ast.Call, exceptional: bool) -> Tuple[str, str]:
        """Does __aexit__ await <sem>.acquire() when the block was left (exceptional: by an exception / cancellation; else normally), for the
        constructor arguments of this site?  ('always' | 'never' | 'may', the decisive condition).  The tests of __aexit__ are evaluated over the
        truth table of their atoms: exception parameters are fixed by the kind of exit, constructor flags by the site, every other atom is free."""
        flags = self.site_flags(call)
        conds: List[str] = []

        def atom_value(a_: ast.AST) -> Optional[bool]:
            if isinstance(a_, ast.Name) and a_.id in self.exc_params:
                return exceptional
            if isinstance(a_, ast.Compare) and len(a_.ops) == 1 and isinstance(a_.left, ast.Name) and a_.left.id in self.exc_params \
                    and isinstance(a_.comparators[0], ast.Constant) and a_.comparators[0].value is None:
                if isinstance(a_.ops[0], (ast.Is, ast.Eq)):
                    return not exceptional
                if isinstance(a_.ops[0], (ast.IsNot, ast.NotEq)):
                    return exceptional
            if isinstance(a_, ast.Attribute) and isinstance(a_.value, ast.Name) and a_.value.id == 'self' and a_.attr in flags:
                return flags[a_.attr]
            return None

        def outcomes(test: ast.AST) -> Set[bool]:
            from engines import absdom
            test = _xt(self.ex, test)  # boolean locals (`failed = exc_val is not None`) are what they hold
            atoms = absdom.bool_atoms(test)
            free = [absdom.atom_key(x) for x in atoms if atom_value(x) is None]
            res: Set[bool] = set()
            for v in absdom.valuations(free):
                res.add(absdom.eval_bool(test, lambda x: atom_value(x) if atom_value(x) is not None else v[absdom.atom_key(x)]))
            return res

        def edge_ok(a_: pf.Node, b_: pf.Node, lab: str) -> bool:
            if b_ is self.cfg.raise_exit:
                return False
            if a_.kind == 'test' and lab in ('T', 'F'):
                ok = (lab == 'T') in outcomes(a_.ast)
                return ok
            return True
        for t in self.cfg.nodes:
            if t.kind == 'test':
                conds.append(pf.nsrc(t.ast))
        reach = self.cfg.reachable_from(self.cfg.entry, edge_ok=edge_ok)
        hit = [n for n in self.acq if n.id in reach]
        skip = self.cfg.path_avoiding(self.cfg.entry, lambda n: n is self.cfg.exit, lambda n: any(n is x for x in self.acq), edge_ok=edge_ok)
        cond = ' / '.join(conds) or 'unconditional'
        if not hit:
            return 'never', cond
        return ('always' if skip is None else 'may'), cond


def _r6(ctx: Ctx, m: pf.Module) -> None:
    cls = m.cls(WS)
    init = af.method(m, cls, '__init__')
    sem_attr = None
    for st in init.body:
        if isinstance(st, ast.Assign) and isinstance(st.value, ast.Name) and st.value.id == init.args.args[1].arg and isinstance(st.targets[0], ast.Attribute):
            sem_attr = pf.nsrc(st.targets[0])
    ctx.need(sem_attr is not None, f'{WS}.__init__ does not store the semaphore')
    en = af.method(m, cls, '__aenter__')
    cfg = pf.cfg(en)
    rel = af.stmt_nodes(cfg, lambda n: af.node_is_call(n, f'{sem_attr}.release') is not None)
    acq = af.stmt_nodes(cfg, lambda n: af.node_is_call(n, f'{sem_attr}.acquire') is not None)
    cons_en = f'{F}::{WS}.__aenter__'
    by_name = [c for c in ast.walk(en) if isinstance(c, ast.Call) and isinstance(c.func, ast.Attribute) and c.func.attr in ('release', 'acquire')]
    if not rel:
        # evidence only when nothing in __aenter__ releases anything
        ctx.need(not by_name, f'{WS}.__aenter__: `{pf.nsrc(by_name[0]) if by_name else ""}` is not recognised as the release of `{sem_attr}`')
        ctx.bad('R6', cons_en, f'__aenter__ does not release `{sem_attr}` exactly once, unconditionally and without suspending', m.path, en.lineno)
    else:
        ctx.need(not acq and len(by_name) == len([c for n in rel for c in pf.node_calls(n) if pf.dotted(c.func) == f'{sem_attr}.release']),
                 f'{WS}.__aenter__: acquires / releases in a form that is not recognised')
        once = len(rel) == 1 and cfg.dominated_by(cfg.exit, lambda n: n is rel[0]) and not af.direct(cfg, rel[0], rel[0])
        twice_rel = any(af.direct(cfg, a, b) for a in rel for b in rel)
        skip = cfg.path_avoiding(cfg.entry, lambda n: n is cfg.exit, lambda n: any(n is x for x in rel))
        ctx.need(once or twice_rel or skip is not None, f'{WS}.__aenter__: the release of `{sem_attr}` is not recognised as happening exactly once')
        ctx.need(not once or not any(pf.node_has_await(n) for n in cfg.nodes if n.ast is not None), f'{WS}.__aenter__ suspends (not analysed)')
        ctx.check(once, 'R6', cons_en, f'__aenter__ does not release `{sem_attr}` exactly once, unconditionally and without suspending', m.path, en.lineno)
    ex = af.method(m, cls, '__aexit__')
    cfg = pf.cfg(ex)
    acq = af.stmt_nodes(cfg, lambda n: any(isinstance(a, ast.Await) and pf.call_name(a) == f'{sem_attr}.acquire' for a in ast.walk(n.ast)))
    rel = af.stmt_nodes(cfg, lambda n: af.node_is_call(n, f'{sem_attr}.release') is not None)
    ctx.need(not rel, f'{WS}.__aexit__ releases the semaphore (idiom not recognised)')
    all_acq = [c for c in ast.walk(ex) if isinstance(c, ast.Call) and isinstance(c.func, ast.Attribute) and c.func.attr in ('acquire', 'release')]
    n_rec = sum(1 for n in acq for a in ast.walk(n.ast) if isinstance(a, ast.Await) and pf.call_name(a) == f'{sem_attr}.acquire')
    ctx.need(len(all_acq) == n_rec, f'{WS}.__aexit__: `{pf.nsrc(all_acq[0]) if all_acq else ""}` acquires / releases in a form that is not recognised (alias, not awaited, ...)')
    twice = any(af.direct(cfg, a, b) for a in acq for b in acq)
    cons = f'{F}::{WS}.__aexit__'
    # the condition under which the slot is taken back is evaluated per use: constructor flags come from the call site (or the default), the
    # exception parameters from the kind of exit
    model = _WSModel(ctx, m)
    ctx.need(model.sem_attr == sem_attr, f'{WS}: semaphore attribute not recognised')
    sites = [c for c in ast.walk(m.tree) if isinstance(c, ast.Call) and pf.dotted(c.func) == WS]
    ctx.need(bool(sites), f'no use of {WS} in {F}')
    leaky: List[Tuple[ast.Call, str, str]] = []
    cond = ''
    for c in sites:
        for exceptional in (False, True):
            v, cond = model.exit_acquires(c, exceptional)
            if v != 'always':
                leaky.append((c, 'an exception or cancellation inside the block' if exceptional else 'a normal exit', v))
    ctx.need(not leaky or any(v == 'never' for _, _, v in leaky), f'{WS}.__aexit__: whether the slot is taken back depends on `{cond}` with constructor arguments that are not constants '
             f'at {[pf.nsrc(c) for c, _, _ in leaky][:2]}: not decided')
    if leaky:
        n_exc = len({id(c) for c, how, _ in leaky if how.startswith('an exception')})
        n_flag = sum(1 for c in sites if c.keywords)
        normal = [c for c, how, _ in leaky if how.startswith('a normal')]
        ctx.bad('R6', cons, f'__aexit__ re-acquires `{sem_attr}` only when `{cond}`; '
                + (f'on a normal exit of `{pf.nsrc(normal[0])}` the slot is not (always) taken back; ' if normal else '')
                + f'on the other exits (an exception or cancellation inside the '
                f'block; {n_exc} of {len(sites)} uses in this file are affected, {len(sites) - n_flag} keep the constructor default) the slot released by __aenter__ is never taken back, '
                f'while the enclosing holder '
                f'(`async with sema` of run_with_sema / the caller) still releases its slot on the way out: the semaphore value ends one above its initial value for every such '
                f'failure, so more tasks than the bound run at once', m.path, ex.lineno)
    else:
        ctx.check(bool(acq) and not twice, 'R6', cons, f'__aexit__ does not re-acquire `{sem_attr}` exactly once', m.path, ex.lineno)


# ------------------------------------------------------------------------------------------------
# R7
# ------------------------------------------------------------------------------------------------


def _sema_sites(m: pf.Module, names: Sequence[str]):
    """(call, enclosing function, qualified name) of every call of one of `names` (bare or attribute tail) in the module."""
    out = []
    for c in ast.walk(m.tree):
        if isinstance(c, ast.Call):
            d = pf.dotted(c.func)
            if d is not None and d.split('.')[-1] in names and c.args:
                fn = m.enclosing_func(c)
                out.append((c, fn, m.qualname(fn) if fn is not None else '<module>'))
    return out


def _holder_verdict(m: pf.Module, c: ast.Call, fn: Optional[pf.FuncDef]) -> Tuple[str, str]:
    """('param'|'held'|'fresh'|'unknown', explanation) for the semaphore argument of a gather call."""
    arg = c.args[0]
    if isinstance(arg, ast.Call) and pf.dotted(arg.func) in ('asyncio.Semaphore', 'Semaphore', 'asyncio.BoundedSemaphore'):
        return 'fresh', f'`{pf.nsrc(arg)}` is built at the call'
    if fn is None:
        return 'unknown', 'module level'
    if isinstance(arg, ast.Name):
        chain = [fn] + af.enclosing_func_chain(m, fn)
        for f2 in chain:
            params = [a.arg for a in list(f2.args.args) + list(f2.args.kwonlyargs)]
            defs = pf.assignments(f2).get(arg.id, [])
            local = [d for d in defs if isinstance(d, ast.Call) and pf.dotted(d.func) in ('asyncio.Semaphore', 'Semaphore')]
            if local:
                # held if some `async with <name>` / `await name.acquire()` exists in the defining function around / before the call
                held = any(isinstance(w, ast.AsyncWith) and pf.nsrc(e) == arg.id for f3 in chain for w, e in _with_items(m, f3, c)) or \
                    any(isinstance(a, ast.Await) and pf.call_name(a) == f'{arg.id}.acquire' for a in ast.walk(f2))
                dflt = ' when the caller passes none' if arg.id in params else ''
                return ('held' if held else 'fresh'), f'`{arg.id} = {pf.nsrc(local[0])}` in {f2.name}{dflt}'
            if arg.id in params:
                return 'param', f'parameter of {f2.name}'
        return 'unknown', f'`{arg.id}` not resolved'
    return 'unknown', f'`{pf.nsrc(arg)}`'


def _r7(ctx: Ctx, m: pf.Module) -> None:
    r7seen: Dict[str, int] = {}
    for c, fn, q in _sema_sites(m, GATHERERS):
        kind, why = _holder_verdict(m, c, fn)
        role = {'fresh': '<fresh semaphore>', 'param': '<parameter>', 'held': '<held semaphore>'}.get(kind, '<?>')
        base = f'{F}::{q}::{pf.dotted(c.func)}({role}, ...)'
        r7seen[base] = r7seen.get(base, 0) + 1
        cons = base + (f'#{r7seen[base]}' if r7seen[base] > 1 else '')
        if kind == 'fresh':
            ctx.bad('R7', cons, f'the semaphore handed to {pf.dotted(c.func)} is un-held ({why}): {WS}.__aenter__ releases a slot the caller never acquired, so the value becomes '
                    f'N+1 before the first task starts and N+1 partial functions run at once (parallelism=1 runs two at a time)', m.path, c.lineno)
        elif kind in ('param', 'held'):
            ctx.ok('R7', cons, why)
        else:
            raise AnalysisError(f'{cons}: cannot decide whether the caller holds a slot ({why})')


# ------------------------------------------------------------------------------------------------
# R8 / R9: the public entry points reach the started work only through the analysed machinery
# ------------------------------------------------------------------------------------------------

MACHINERY = (GR, GE)


def _family(m: pf.Module) -> Set[str]:
    """Names of the gather family defined at module level of the file: the gatherers and every bounded_gather* function."""
    out = set(GATHERERS) | {G1}
    for st in m.tree.body:
        if isinstance(st, (ast.FunctionDef, ast.AsyncFunctionDef)) and st.name.startswith('bounded_gather'):
            out.add(st.name)
    return out


def _wrappers(m: pf.Module) -> List[pf.FuncDef]:
    """Module-level functions that are entry points but not the analysed machinery: every bounded_gather* function other than GR / GE
    and every other module-level function that calls a member of the family with a starred argument (it forwards partial functions)."""
    fam = _family(m)
    out = []
    for st in m.tree.body:
        if not isinstance(st, (ast.FunctionDef, ast.AsyncFunctionDef)) or st.name in MACHINERY:
            continue
        if st.name in fam:
            out.append(st)
            continue
        if st.args.vararg is not None and any(isinstance(c, ast.Call) and pf.dotted(c.func) in fam and any(isinstance(a, ast.Starred) for a in c.args)
                                              for c in ast.walk(st)):
            out.append(st)
    return out


def _delegations(fn: pf.FuncDef, fam: Set[str]) -> List[ast.Call]:
    return [c for c in ast.walk(fn) if isinstance(c, ast.Call) and pf.dotted(c.func) in fam and pf.dotted(c.func) != fn.name]


def _in_test_position(par: Dict[ast.AST, ast.AST], n: ast.AST) -> bool:
    """Is the expression node `n` part of the test of an if / while / conditional expression / assert (and not of a body)?"""
    cur = n
    while cur in par:
        p = par[cur]
        if isinstance(p, (ast.If, ast.While, ast.IfExp, ast.Assert)):
            return p.test is cur
        if isinstance(p, ast.stmt):
            return False
        cur = p
    return False


def _empty_guard(cfg: pf.CFG, node: pf.Node, vararg: Optional[str]) -> bool:
    """Every path to `node` takes an edge on which *pfs is known to be empty."""
    if vararg is None:
        return False
    texts = (vararg, f'len({vararg}) == 0', f'len({vararg}) > 0', f'len({vararg}) != 0', f'len({vararg})', f'len({vararg}) >= 1', f'len({vararg}) < 1')

    def empty_edge(a: pf.Node, lab: str) -> bool:
        if a.kind != 'test' or lab not in ('T', 'F'):
            return False
        for t in texts:
            empty_when = t in (f'len({vararg}) == 0', f'len({vararg}) < 1')
            if af.implied_on_edge(a.ast, lab, t, empty_when):
                return True
        return False
    return cfg.path_avoiding(cfg.entry, lambda n: n is node, lambda n: False, edge_ok=lambda a, b, lab: not empty_edge(a, lab)) is None


def _r8_r9(ctx: Ctx, m: pf.Module) -> None:
    fam = _family(m)
    ws = _wrappers(m)
    ctx.need({G1, G2} <= {w.name for w in ws}, f'{G1} / {G2} are no longer module-level wrappers')
    par = m.parents()
    declined: List[str] = []
    for fn in ws:
        qn = fn.name
        cfg = pf.cfg(fn)
        reach = cfg.reachable_from(cfg.entry)
        vararg = fn.args.vararg.arg if fn.args.vararg else None
        params = [a.arg for a in list(fn.args.posonlyargs) + list(fn.args.args) + list(fn.args.kwonlyargs)]
        dels = _delegations(fn, fam)
        rets = [n for n in cfg.nodes if n.kind == 'return' and n.id in reach]
        ctx.need(rets, f'{qn}: no return')

        # ---- R9: what happens to the partial functions
        bypass: List[Tuple[ast.AST, str]] = []   # the wrapper itself starts partial functions
        other: List[str] = []                    # the partial functions go somewhere that is not understood
        if vararg is not None:
            for u in _own_and_nested(fn):
                if isinstance(u, ast.Name) and u.id == vararg and isinstance(u.ctx, ast.Load):
                    p = par.get(u)
                    if isinstance(p, ast.Starred) and isinstance(par.get(p), ast.Call) and par[p] in dels and p in par[p].args:
                        continue
                    if _in_test_position(par, u):
                        continue
                    if isinstance(p, ast.Call) and pf.dotted(p.func) == 'len' and p.args == [u]:
                        continue
                    started = None
                    if isinstance(p, ast.comprehension) and p.iter is u:
                        comp = par.get(p)
                        tv = {x.id for x in ast.walk(p.target) if isinstance(x, ast.Name)}
                        started = next((c for c in ast.walk(comp) if isinstance(c, ast.Call) and isinstance(c.func, ast.Name) and c.func.id in tv), None) if comp is not None else None
                    elif isinstance(p, (ast.For, ast.AsyncFor)) and p.iter is u:
                        tv = {x.id for x in ast.walk(p.target) if isinstance(x, ast.Name)}
                        started = next((c for s2 in p.body for c in ast.walk(s2) if isinstance(c, ast.Call) and isinstance(c.func, ast.Name) and c.func.id in tv), None)
                    elif isinstance(p, ast.Subscript) and p.value is u and isinstance(par.get(p), ast.Call) and par[p].func is p:
                        started = par[p]
                    if started is not None:
                        bypass.append((u, f'`{pf.nsrc(_stmt_of(par, u))}` calls the partial functions itself (`{pf.nsrc(started)}`)'))
                    else:
                        other.append(f'`{pf.nsrc(_stmt_of(par, u))}` uses `{vararg}` in a way that is neither a delegation nor a recognisable start of the partial functions')
        if other and not bypass:
            declined.append(f'{qn}: {other[0]}')
            continue
        cons9 = f'{F}::{qn}::partial functions reach only the machinery'
        if not bypass:
            ctx.need(dels, f'{qn}: neither delegates to the gather machinery nor touches its partial functions (idiom not recognised)')
            ctx.ok('R9', cons9, f'{len(dels)} delegation(s): {sorted({pf.dotted(c.func) for c in dels})}')
        else:
            node, what = bypass[0]
            st = _stmt_of(par, node)
            host = [n for n in cfg.nodes if n.ast is not None and n.id in reach and (n.ast is st or any(x is node for x in pf.node_exprs(n) for x in ast.walk(x)))]
            cancels = any(isinstance(c, ast.Call) and isinstance(c.func, ast.Attribute) and c.func.attr == 'cancel' for c in ast.walk(fn))
            flag = 'cancel_on_error'
            decided = False
            # a path on which the number of partial functions is compared with a literal (`len(pfs) == 1`) may have nothing left to cancel: not decided
            def sized(t: pf.Node) -> bool:
                return t.kind == 'test' and any(isinstance(x, ast.Compare) and pf.nsrc(x.left) == f'len({vararg})' and all(isinstance(k, ast.Constant) for k in x.comparators)
                                                for x in ast.walk(t.ast))
            size_guarded = bool(host) and cfg.path_avoiding(cfg.entry, lambda n: any(n is h for h in host), sized) is None
            if flag in params and host and not cancels and not size_guarded:
                def flag_false(a: pf.Node, lab: str) -> bool:
                    return a.kind == 'test' and lab in ('T', 'F') and af.implied_on_edge(a.ast, lab, flag, False)
                w = cfg.path_avoiding(cfg.entry, lambda n: any(n is h for h in host), lambda n: False, edge_ok=lambda a, b, lab: not flag_false(a, lab))
                if w is not None:
                    conds = [f'{"" if lab == "T" else "not "}({pf.nsrc(a.ast)})' for a, lab in _path_tests(w)]
                    ctx.bad('R9', f'{F}::{qn}::{pf.nsrc(st)}',
                            f'{what}: this path ({" and ".join(conds) or "unconditional"}) starts the partial functions without the analysed machinery '
                            f'({GR} / {GE}), and `{flag}` may be true on it while nothing on it cancels: e.g. {qn}(pfA, pfB, pfC, {flag}=True) with pfB raising at once - '
                            f'the error propagates to the caller while pfA and pfC keep running un-cancelled and un-awaited', m.path, st.lineno)
                    decided = True
            if not decided:
                declined.append(f'{qn}: {what}; the obligations of the contract on that path (bound, order, error propagation, cancellation, awaiting) '
                                f'are not decided for code outside {GR} / {GE}')

        # ---- R8: every parameter reaches the machinery on every value-returning path
        for p in params:
            cons8 = f'{F}::{qn}::parameter {p} reaches the machinery'
            tests_p = [t for t in cfg.nodes if t.kind == 'test' and af.mentions(t.ast, p)]
            ignored = None
            unclear = None
            for r in rets:
                rv = r.ast.value  # type: ignore[union-attr]
                if rv is None:
                    continue
                rv = _res(fn, rv)   # `result = await bounded_gather2(...)` ... `return result`
                rcalls = [c for c in ast.walk(rv) if isinstance(c, ast.Call) and pf.dotted(c.func) in fam]
                fwd = False
                for c in rcalls:
                    ce = pf.expand_locals(fn, c)
                    args = list(ce.args) + [k.value for k in ce.keywords]  # type: ignore[attr-defined]
                    if any(isinstance(x, ast.Name) and x.id == p for a in args for x in ast.walk(a)):
                        fwd = True
                if fwd:
                    continue
                w = cfg.path_avoiding(cfg.entry, lambda n, r=r: n is r, lambda n: any(n is t for t in tests_p))
                if w is None:
                    continue
                if not rcalls and _empty_guard(cfg, r, vararg) and isinstance(rv, (ast.List, ast.Tuple)) and not rv.elts:
                    continue  # nothing to run: `if not pfs: return []`
                # evidence: a way to this return on which the parameter is not even read (logging apart); a path that reads it in a form that
                # is not understood is not evidence
                def reads_p(n: pf.Node) -> bool:
                    if n.ast is None or n is r or n.kind == 'test':
                        return False
                    if isinstance(n.ast, ast.Expr) and isinstance(n.ast.value, ast.Call) and (pf.dotted(n.ast.value.func) or '').split('.')[0] in ('log', 'logging', 'logger', 'print', 'warnings'):
                        return False
                    return any(isinstance(x, ast.Name) and x.id == p and isinstance(x.ctx, ast.Load) for e in pf.node_exprs(n) for x in ast.walk(e))
                w2 = cfg.path_avoiding(cfg.entry, lambda n, r=r: n is r, lambda n: any(n is t for t in tests_p) or reads_p(n))
                if w2 is None or any(isinstance(x, ast.Name) and x.id == p for x in ast.walk(rv)):
                    unclear = r
                    continue
                ignored = (r, w2)
                break
            if ignored is None and unclear is not None:
                declined.append(f'{qn}: `{p}` is read on the way to `{unclear.text()[:80]}` but does not reach the gather machinery in a recognised form')
            elif ignored is None:
                ctx.ok('R8', cons8, 'forwarded or tested on every value-returning path')
            else:
                r, w = ignored
                conds = [f'{"" if lab == "T" else "not "}({pf.nsrc(a.ast)})' for a, lab in _path_tests(w)]
                ctx.bad('R8', cons8, f'`{r.text()}` is reached on the path ({" and ".join(conds) or "unconditional"}) without `{p}` being tested or handed to '
                        f'the gather machinery: the caller\'s `{p}` is ignored on that path'
                        + (' - with cancel_on_error=True the first failure does not cancel the remaining partial functions' if p == 'cancel_on_error' else '')
                        + (' - the parallelism bound is not applied' if p in ('parallelism', 'sema') else '')
                        + (' - exceptions are not returned in place' if p == 'return_exceptions' else ''), m.path, r.lineno)
    if declined:
        raise AnalysisError('; '.join(declined))


def _own_and_nested(fn: pf.FuncDef):
    return ast.walk(fn)


def _stmt_of(par: Dict[ast.AST, ast.AST], n: ast.AST) -> ast.AST:
    cur = n
    while cur in par and not isinstance(cur, ast.stmt):
        cur = par[cur]
    return cur


def _path_tests(path: Sequence[pf.Node]) -> List[Tuple[pf.Node, str]]:
    out = []
    for a, b in zip(path, path[1:]):
        if a.kind == 'test':
            labs = [lab for mnode, lab in a.succ if mnode is b and lab in ('T', 'F')]
            if labs:
                out.append((a, labs[0]))
    return out


def _thorough_callers(ctx: Ctx) -> None:
    n = 0
    for rel in pf.walk_py(['hail/python/hailtop', 'batch/batch', 'gear/gear', 'ci/ci', 'auth/auth', 'monitoring/monitoring'], exclude=[F]):
        try:
            mm = pf.load(rel)
        except AnalysisError:
            continue
        for c, fn, q in _sema_sites(mm, GATHERERS + (OBG,)):
            n += 1
            kind, why = _holder_verdict(mm, c, fn)
            if kind == 'fresh':
                ctx.info(f'{rel}::{q}: `{pf.nsrc(c)[:90]}` passes a semaphore of which the caller holds no slot ({why}): effective bound is N+1 (same defect class as R7, outside the anchored file)')
    ctx.unit('external_call_sites', n)


def run(ctx: Ctx) -> None:
    ctx.explanation = ('Lexical enclosure of user-function calls by the semaphore and of parent waits by WithoutSemaphore, order-preserving task construction/return, '
                       'path enumeration through the clean-up loops, exit-edge analysis of OnlineBoundedGather2, release/acquire pairing of WithoutSemaphore, holder protocol at call sites, '
                       'parameter flow and confinement of the partial functions in the public wrappers.')
    ctx.rule('R1', 'every invocation of a user partial function is inside `async with <sema>`', 3)
    ctx.rule('R2', 'every parent await of gather/wait/_done_event.wait is inside `async with WithoutSemaphore(<sema>)`', 6)
    ctx.rule('R3', 'tasks built by an order-preserving comprehension over *pfs; results returned by gather(*tasks); wrappers forward *pfs and flags', 9)
    ctx.rule('R4', 'return_exceptions: catch-all wrapper returning pairs; raise variant propagates; cancel_on_error: on error every unfinished task is cancelled (no early exit) and all are awaited', 8)
    ctx.rule('R5', 'OnlineBoundedGather2: register/clear in call, deregister/signal in run_and_cleanup, first exception kept, __aexit__ leaves only when nothing is pending; shutdown awaits what it cancels', 14)
    ctx.rule('R6', 'WithoutSemaphore releases once on enter and re-acquires on every exit', 2)
    ctx.rule('R7', 'a semaphore handed to bounded_gather2* from this file is a parameter or held by the caller', 3)
    ctx.rule('R8', 'every parameter of a public gather wrapper is forwarded to the machinery or tested on every value-returning path', 6)
    ctx.rule('R9', 'the partial functions handed to a public wrapper reach only the analysed machinery (no direct gather/wait/create_task/call in a wrapper)', 2)
    ctx.rule('R10', 'cancel_on_error: between the failure of the gather and the cancel loop nothing waits for the (shared) semaphore or for the tasks: the exit of every `async with` '
                    'around the gather is evaluated for an exceptional exit with the constructor flags of that site (WithoutSemaphore.__aexit__ as a truth table), and the finally block '
                    'reaches its cancel loop without a suspension point', 2)
    ctx.assume('asyncio.Semaphore.release() is unbounded; asyncio.gather propagates the first exception as soon as it happens and does not cancel the other awaitables')
    ctx.assume('callers of bounded_gather2* / OnlineBoundedGather2 that receive a semaphore hold one slot of it (the protocol WithoutSemaphore implements)')
    m = _prepared(pf.load(F))
    ctx.unit('files')
    _r1(ctx, m)
    _r2(ctx, m)
    tn = _r3(ctx, m)
    _r4(ctx, m, tn)
    _r10(ctx, m, tn)
    _r5(ctx, m)
    _r6(ctx, m)
    _r7(ctx, m)
    _r8_r9(ctx, m)
    ctx.unit('functions', 12)
    if ctx.tier == 'thorough':
        _thorough_callers(ctx)
